/-
  C18 — property theorems about the visitor model (`PyGqlModel/Visit.lean`).

  Generic statements hold for EVERY traversal table `T`; the statements that depend on what
  `visitor.py` says today are about `Generated.VisitTable.table` (re-extracted on every run) and are
  closed by `decide`, so a source edit re-opens them.
-/
import PyGqlModel.Visit
import PyGqlModel.Spec.VisitSpec
import PyGqlModel.Generated.VisitTable

set_option linter.unusedVariables false
set_option linter.unusedSimpArgs false

namespace PyGql.Props.C18
open PyGql.Visit

variable {σ : Type}

/-! ## vocabulary -/

/-- a visitor that changes nothing: `enter` returns the node it was given (the state is arbitrary) -/
def Observer (v : Visitor σ) : Prop := ∀ n s, (v.enter n s).1 = .keep n

/-- `enter` may delete, skip, mutate in place or replace, but what it hands back has the identity and the
    kind of what it got (every visitor of `ast_transforms`, every deleting / skipping visitor). -/
def IdPreserving (v : Visitor σ) : Prop :=
  ∀ n s, match (v.enter n s).1 with
    | .keep n' => n'.id = n.id ∧ n'.kind = n.kind
    | .replace n' => n'.id = n.id ∧ n'.kind = n.kind
    | _ => True

/-- well-bracketed call sequences: `enter n` alone (the node was deleted or skipped) or
    `enter n … leave n'` around a well-bracketed body, `n'` being the same node (identity, kind). -/
inductive Forest : List Ev → Prop
  | nil : Forest []
  | lone (n : Node) (rest : List Ev) : Forest rest → Forest (⟨true, n⟩ :: rest)
  | wrap (n n2 : Node) (body rest : List Ev) : n2.id = n.id → n2.kind = n.kind →
      Forest body → Forest rest → Forest (⟨true, n⟩ :: body ++ ⟨false, n2⟩ :: rest)

/-! ## helper lemmas -/

theorem setIn_lookup (a : String) (x : Attr) :
    ∀ attrs : List (String × Attr), attrs.lookup a = some x → Node.setIn a x attrs = attrs := by
  intro attrs
  induction attrs with
  | nil => intro _; rfl
  | cons p r ih =>
    obtain ⟨b, y⟩ := p
    intro h
    simp only [List.lookup] at h
    simp only [Node.setIn]
    cases hab : a == b with
    | true => simp only [hab] at h; simp_all
    | false => simp only [hab] at h; simp [ih h]

theorem setAttr_getAttr (n : Node) (a : String) (x : Attr) (h : n.getAttr a = some x) : n.setAttr a x = n := by
  cases n with
  | mk k i attrs =>
    simp only [Node.getAttr, Node.attrs] at h
    simp [Node.setAttr, Node.kind, Node.id, Node.attrs, setIn_lookup a x attrs h]

private theorem setAttr_id (n : Node) (a : String) (x : Attr) : (n.setAttr a x).id = n.id ∧ (n.setAttr a x).kind = n.kind := by
  simp [Node.setAttr, Node.id, Node.kind]

theorem Forest.append {a b : List Ev} (ha : Forest a) (hb : Forest b) : Forest (a ++ b) := by
  induction ha with
  | nil => simpa using hb
  | lone n rest _ ih => exact Forest.lone n _ ih
  | wrap n n2 body rest h1 h2 hbody _ _ ih =>
    have := Forest.wrap n n2 body (rest ++ b) h1 h2 hbody ih
    simpa [List.append_assoc] using this

/-! ### open-recursion lemmas: a property of the callback lifts through `visitList`, `runStep`, `runSteps` -/

/-- callback returns its argument unchanged -/
private def IdF (f : Node → σ → Res (Out σ)) : Prop := ∀ c s o, f c s = .ok o → o.ret = some c ∧ o.orig = c

private theorem visitList_id {f : Node → σ → Res (Out σ)} (hf : IdF f) :
    ∀ cs s r ip s' tr, visitList f cs s = .ok (r, ip, s', tr) → r = cs ∧ ip = cs := by
  intro cs
  induction cs with
  | nil => intro s r ip s' tr h; simp [visitList] at h; simp [h]
  | cons c cs ih =>
    intro s r ip s' tr h
    simp only [visitList] at h
    cases hc : f c s with
    | err e => simp [hc] at h
    | fuel => simp [hc] at h
    | ok o =>
      simp only [hc] at h
      cases hr : visitList f cs o.st with
      | err e => simp [hr] at h
      | fuel => simp [hr] at h
      | ok q =>
        obtain ⟨r1, ip1, s1, tr1⟩ := q
        simp only [hr] at h
        have ⟨h1, h2⟩ := hf c s o hc
        have ⟨h3, h4⟩ := ih _ _ _ _ _ hr
        simp only [Res.ok.injEq, Prod.mk.injEq] at h
        obtain ⟨ha, hb, _, _⟩ := h
        subst h3 h4
        rw [h1] at ha
        simp at ha
        exact ⟨ha.symm, by rw [← hb, h2]⟩

private theorem runStep_id {call : Target → Node → σ → Res (Out σ)} (hc : ∀ t, IdF (call t))
    (st : Step) (n : Node) (s : σ) (n' : Node) (s' : σ) (tr : List Ev)
    (h : runStep call st n s = .ok (n', s', tr)) : n' = n := by
  unfold runStep at h
  split at h
  · simp at h; exact h.1.symm
  · split at h
    · simp at h
    · rename_i a ha
      split at h
      · split at h <;> simp at h; exact h.1.symm
      · rename_i c
        split at h
        · simp at h
        · simp at h
        · rename_i o ho
          have ⟨h1, h2⟩ := hc _ _ _ _ ho
          simp only [Res.ok.injEq, Prod.mk.injEq] at h
          rw [← h.1, h1, h2]
          simp only [ite_self]
          exact setAttr_getAttr n _ _ ha
      · rename_i cs
        split at h
        · simp at h
        · simp at h
        · rename_i r ip s1 tr1 hl
          have ⟨h1, h2⟩ := visitList_id (hc _) _ _ _ _ _ _ hl
          simp only [Res.ok.injEq, Prod.mk.injEq] at h
          rw [← h.1, h1, h2]
          simp only [ite_self]
          exact setAttr_getAttr n _ _ ha
      · simp at h

private theorem runSteps_id {call : Target → Node → σ → Res (Out σ)} (hc : ∀ t, IdF (call t)) :
    ∀ (steps : List Step) (n : Node) (s : σ) (n' : Node) (s' : σ) (tr : List Ev),
      runSteps call steps n s = .ok (n', s', tr) → n' = n := by
  intro steps
  induction steps with
  | nil => intro n s n' s' tr h; simp [runSteps] at h; exact h.1.symm
  | cons st rest ih =>
    intro n s n' s' tr h
    simp only [runSteps] at h
    cases h1 : runStep call st n s with
    | err e => simp [h1] at h
    | fuel => simp [h1] at h
    | ok q =>
      obtain ⟨n1, s1, tr1⟩ := q
      simp only [h1] at h
      cases h2 : runSteps call rest n1 s1 with
      | err e => simp [h2] at h
      | fuel => simp [h2] at h
      | ok q2 =>
        obtain ⟨n2, s2, tr2⟩ := q2
        simp only [h2, Res.ok.injEq, Prod.mk.injEq] at h
        have e1 := runStep_id hc _ _ _ _ _ _ h1
        have e2 := ih _ _ _ _ _ h2
        rw [← h.1, e2, e1]

private theorem callTarget_id (T : Table) (rec : String → Node → σ → Res (Out σ)) (h : ∀ m, IdF (rec m)) :
    ∀ t, IdF (callTarget T rec t) := by
  intro t c s o ho
  unfold callTarget at ho
  split at ho
  · exact h _ c s o ho
  · simp at ho

private theorem visitM_id (T : Table) (v : Visitor σ) (hv : Observer v) :
    ∀ fuel m, IdF (visitM T v fuel m) := by
  intro fuel
  induction fuel with
  | zero => intro m c s o h; simp [visitM] at h
  | succ fuel ih =>
    intro m c s o h
    have he := hv c s
    rcases hes : v.enter c s with ⟨act, s1⟩
    rw [hes] at he
    simp only at he
    subst he
    simp only [visitM, hes, bodyMethod_of_kind_eq T _ c c rfl] at h
    split at h
    · simp at h
    · rename_i steps hm
      split at h
      · simp at h
      · simp at h
      · rename_i n2 s2 tr hr
        have := runSteps_id (callTarget_id T _ (ih)) _ _ _ _ _ _ hr
        simp only [Res.ok.injEq] at h
        subst h
        simp [this]

/-- for a visitor that changes nothing, one statement of a `_visit_*` body leaves the node as it is -/
theorem runStep_observer_same (T : Table) (v : Visitor σ) (hv : Observer v) (fuel : Nat) (st : Step) (n : Node) (s : σ)
    (n1 : Node) (s1 : σ) (tr1 : List Ev) (h : runStep (callTarget T (visitM T v fuel)) st n s = .ok (n1, s1, tr1)) : n1 = n :=
  runStep_id (callTarget_id T _ (visitM_id T v hv fuel)) st n s n1 s1 tr1 h

/-! ## identity -/

/-- **identity_noop** — a visitor that changes nothing leaves the tree equal: whatever the table, the state
    and the fuel, a completed visit returns the very node it was given, and the node is untouched in place. -/
theorem identity_noop (T : Table) (v : Visitor σ) (hv : Observer v) (fuel : Nat) (n : Node) (s : σ) (o : Out σ)
    (h : visit T v fuel n s = .ok o) : o.ret = some n ∧ o.orig = n := by
  unfold visit at h
  split at h
  · simp at h
  · exact visitM_id T v hv fuel _ n s o h

/-! ## balance -/

/-- the calls of ONE wrapped visit of `c`: `enter c` alone, or `enter c`, a well-bracketed body, `leave n2`
    where `n2` is what the wrapper returns and is the same node as `c` (identity and kind) -/
def Bracket (c : Node) (o : Out σ) : Prop :=
  o.tr = [⟨true, c⟩] ∨
  ∃ body n2, o.tr = ⟨true, c⟩ :: body ++ [⟨false, n2⟩] ∧ o.ret = some n2 ∧ n2.id = c.id ∧ n2.kind = c.kind ∧ Forest body

private theorem Bracket.forest {c : Node} {o : Out σ} (h : Bracket c o) : Forest o.tr := by
  rcases h with h | ⟨body, n2, h, _, h1, h2, hb⟩
  · rw [h]; exact Forest.lone c [] Forest.nil
  · rw [h]; exact Forest.wrap c n2 body [] h1 h2 hb Forest.nil

private def BalF (f : Node → σ → Res (Out σ)) : Prop := ∀ c s o, f c s = .ok o → Forest o.tr

private theorem visitList_bal {f : Node → σ → Res (Out σ)} (hf : BalF f) :
    ∀ cs s r ip s' tr, visitList f cs s = .ok (r, ip, s', tr) → Forest tr := by
  intro cs
  induction cs with
  | nil => intro s r ip s' tr h; simp [visitList] at h; rw [h.2.2.2]; exact Forest.nil
  | cons c cs ih =>
    intro s r ip s' tr h
    simp only [visitList] at h
    cases hc : f c s with
    | err e => simp [hc] at h
    | fuel => simp [hc] at h
    | ok o =>
      simp only [hc] at h
      cases hr : visitList f cs o.st with
      | err e => simp [hr] at h
      | fuel => simp [hr] at h
      | ok q =>
        obtain ⟨r1, ip1, s1, tr1⟩ := q
        simp only [hr, Res.ok.injEq, Prod.mk.injEq] at h
        rw [← h.2.2.2]
        exact Forest.append (hf c s o hc) (ih _ _ _ _ _ hr)

private theorem runStep_bal {call : Target → Node → σ → Res (Out σ)} (hc : ∀ t, BalF (call t))
    (st : Step) (n : Node) (s : σ) (n' : Node) (s' : σ) (tr : List Ev)
    (h : runStep call st n s = .ok (n', s', tr)) : Forest tr ∧ n'.id = n.id ∧ n'.kind = n.kind := by
  unfold runStep at h
  split at h
  · simp at h; rw [h.2.2, ← h.1]; exact ⟨Forest.nil, rfl, rfl⟩
  · split at h
    · simp at h
    · rename_i a ha
      split at h
      · split at h <;> simp at h
        rw [h.2.2, ← h.1]; exact ⟨Forest.nil, rfl, rfl⟩
      · rename_i c
        split at h
        · simp at h
        · simp at h
        · rename_i o ho
          simp only [Res.ok.injEq, Prod.mk.injEq] at h
          rw [← h.1, ← h.2.2]
          exact ⟨hc _ _ _ _ ho, setAttr_id _ _ _⟩
      · rename_i cs
        split at h
        · simp at h
        · simp at h
        · rename_i r ip s1 tr1 hl
          simp only [Res.ok.injEq, Prod.mk.injEq] at h
          rw [← h.1, ← h.2.2]
          exact ⟨visitList_bal (hc _) _ _ _ _ _ _ hl, setAttr_id _ _ _⟩
      · simp at h

private theorem runSteps_bal {call : Target → Node → σ → Res (Out σ)} (hc : ∀ t, BalF (call t)) :
    ∀ (steps : List Step) (n : Node) (s : σ) (n' : Node) (s' : σ) (tr : List Ev),
      runSteps call steps n s = .ok (n', s', tr) → Forest tr ∧ n'.id = n.id ∧ n'.kind = n.kind := by
  intro steps
  induction steps with
  | nil => intro n s n' s' tr h; simp [runSteps] at h; rw [h.2.2, ← h.1]; exact ⟨Forest.nil, rfl, rfl⟩
  | cons st rest ih =>
    intro n s n' s' tr h
    simp only [runSteps] at h
    cases h1 : runStep call st n s with
    | err e => simp [h1] at h
    | fuel => simp [h1] at h
    | ok q =>
      obtain ⟨n1, s1, tr1⟩ := q
      simp only [h1] at h
      cases h2 : runSteps call rest n1 s1 with
      | err e => simp [h2] at h
      | fuel => simp [h2] at h
      | ok q2 =>
        obtain ⟨n2, s2, tr2⟩ := q2
        simp only [h2, Res.ok.injEq, Prod.mk.injEq] at h
        have ⟨f1, i1, k1⟩ := runStep_bal hc _ _ _ _ _ _ h1
        have ⟨f2, i2, k2⟩ := ih _ _ _ _ _ h2
        rw [← h.1, ← h.2.2]
        exact ⟨Forest.append f1 f2, by rw [i2, i1], by rw [k2, k1]⟩

private theorem callTarget_bal (T : Table) (rec : String → Node → σ → Res (Out σ)) (h : ∀ m, BalF (rec m)) :
    ∀ t, BalF (callTarget T rec t) := by
  intro t c s o ho
  unfold callTarget at ho
  split at ho
  · exact h _ c s o ho
  · simp at ho

private theorem visitM_bracket (T : Table) (v : Visitor σ) (hv : IdPreserving v) :
    ∀ fuel m c s o, visitM T v fuel m c s = .ok o → Bracket c o := by
  intro fuel
  induction fuel with
  | zero => intro m c s o h; simp [visitM] at h
  | succ fuel ih =>
    intro m c s o h
    have hp := hv c s
    rcases hes : v.enter c s with ⟨act, s1⟩
    rw [hes] at hp
    have hrec : ∀ t, BalF (callTarget T (visitM T v fuel) t) :=
      callTarget_bal T _ (fun m c s o h => (ih m c s o h).forest)
    cases act with
    | raise e => simp [visitM, hes] at h
    | skip n' => simp only [visitM, hes, Res.ok.injEq] at h; subst h; exact Or.inl rfl
    | delete => simp only [visitM, hes, Res.ok.injEq] at h; subst h; exact Or.inl rfl
    | keep n1 =>
      simp only at hp
      simp only [visitM, hes, bodyMethod_of_kind_eq T _ c n1 hp.2] at h
      split at h
      · simp at h
      · split at h
        · simp at h
        · simp at h
        · rename_i n2 s2 tr hr
          have ⟨f, i, k⟩ := runSteps_bal hrec _ _ _ _ _ _ hr
          simp only [Res.ok.injEq] at h
          subst h
          exact Or.inr ⟨tr, n2, rfl, rfl, by rw [i, hp.1], by rw [k, hp.2], f⟩
    | replace n1 =>
      simp only at hp
      simp only [visitM, hes, bodyMethod_of_kind_eq T _ c n1 hp.2] at h
      split at h
      · simp at h
      · split at h
        · simp at h
        · simp at h
        · rename_i n2 s2 tr hr
          have ⟨f, i, k⟩ := runSteps_bal hrec _ _ _ _ _ _ hr
          simp only [Res.ok.injEq] at h
          subst h
          exact Or.inr ⟨tr, n2, rfl, rfl, by rw [i, hp.1], by rw [k, hp.2], f⟩

/-- **balanced** — for every visitor that hands back the node it was given (possibly mutated, deleted or
    skipped), whatever its state: the calls of a completed visit are `enter t` alone, or `enter t`, then a
    well-bracketed sequence (every `leave` closes the innermost open `enter` of the same node, a deleted or
    skipped node has an `enter` only), then `leave` of the returned node: parents are entered before and left
    after their children.
    WEAKER THAN IT READS: `Forest.lone` admits an unmatched `enter` for ANY node; the statement that ties an unmatched `enter`
    to a deletion / skip of that node (and says that a kept or replaced node IS left) is `balanced_strict`
    (Props/C18_balanced.lean), of which this is the corollary `ForestV.forest`. -/
theorem balanced (T : Table) (v : Visitor σ) (hv : IdPreserving v) (fuel : Nat) (t : Node) (s : σ) (o : Out σ)
    (h : visit T v fuel t s = .ok o) : Bracket t o ∧ Forest o.tr := by
  unfold visit at h
  split at h
  · simp at h
  · have := visitM_bracket T v hv fuel _ t s o h
    exact ⟨this, this.forest⟩

/-- observers are identity preserving (non-vacuity of `balanced`) -/
theorem Observer.idPreserving {v : Visitor σ} (h : Observer v) : IdPreserving v := by
  intro n s; rw [h n s]; exact ⟨rfl, rfl⟩

/-! ## locality of edits

  The three statements are frame rules: whatever the visitor's state and whatever happens elsewhere, the effect
  of deleting / replacing / skipping ONE member `c` of a child list `pre ++ c :: post` is confined to `c`:
  the members before and after are processed exactly as they are without `c` (from the states the visitor is
  in at that point) and land in the rebuilt list in order. -/

/-- `map_and_filter` distributes over `++` (state threaded left to right) -/
theorem visitList_append (f : Node → σ → Res (Out σ)) (xs ys : List Node) (s : σ) :
    visitList f (xs ++ ys) s =
      match visitList f xs s with
      | .ok (r1, ip1, s1, t1) =>
        (match visitList f ys s1 with
         | .ok (r2, ip2, s2, t2) => .ok (r1 ++ r2, ip1 ++ ip2, s2, t1 ++ t2)
         | .err e => .err e
         | .fuel => .fuel)
      | .err e => .err e
      | .fuel => .fuel := by
  induction xs generalizing s with
  | nil =>
    simp only [List.nil_append, visitList]
    cases visitList f ys s with
    | ok q => obtain ⟨a, b, c, d⟩ := q; simp
    | err e => rfl
    | fuel => rfl
  | cons c cs ih =>
    simp only [List.cons_append, visitList]
    cases hc : f c s with
    | err e => rfl
    | fuel => rfl
    | ok o =>
      simp only [ih]
      cases h1 : visitList f cs o.st with
      | err e => rfl
      | fuel => rfl
      | ok q =>
        obtain ⟨r1, ip1, s1, t1⟩ := q
        simp only
        cases h2 : visitList f ys s1 with
        | err e => rfl
        | fuel => rfl
        | ok q2 =>
          obtain ⟨r2, ip2, s2, t2⟩ := q2
          cases o.ret <;> simp [List.append_assoc]

/-- frame rule for one member: the outcome `o` of the member lands between the outcomes of its siblings -/
theorem member_frame (f : Node → σ → Res (Out σ)) (pre post : List Node) (c : Node) (s : σ)
    {rp ip : List Node} {s1 : σ} {tp : List Ev} {o : Out σ} {rq iq : List Node} {s3 : σ} {tq : List Ev}
    (hpre : visitList f pre s = .ok (rp, ip, s1, tp))
    (hc : f c s1 = .ok o)
    (hpost : visitList f post o.st = .ok (rq, iq, s3, tq)) :
    visitList f (pre ++ c :: post) s =
      .ok (rp ++ (match o.ret with | some n => n :: rq | none => rq), ip ++ o.orig :: iq, s3, tp ++ (o.tr ++ tq)) := by
  rw [visitList_append, hpre]
  simp only [visitList, hc, hpost]
  cases o.ret <;> rfl

/-- what the wrapper does when `enter` returns `None` -/
theorem visitM_delete (T : Table) (v : Visitor σ) (fuel : Nat) (m : String) (c : Node) (s s1 : σ)
    (h : v.enter c s = (.delete, s1)) : visitM T v (fuel + 1) m c s = .ok ⟨none, c, s1, [⟨true, c⟩]⟩ := by
  simp [visitM, h]

/-- **skip_local** — raising `SkipNode` in `enter` suppresses only that node's children and its `leave`:
    the node stays as it is, the only call is its `enter`, the state is the one `enter` left. -/
theorem skip_local (T : Table) (v : Visitor σ) (fuel : Nat) (m : String) (c : Node) (s s1 : σ)
    (h : v.enter c s = (.skip c, s1)) : visitM T v (fuel + 1) m c s = .ok ⟨some c, c, s1, [⟨true, c⟩]⟩ := by
  simp [visitM, h]

/-- what the wrapper does when `enter` returns a fresh node `r`: the body of the method selected for `r`
    (`bodyMethod`: the SAME `_visit_*` method if `r` has the class of `c`, else the one `visit` registers for the class
    of `r` when the wrapper dispatches on it) runs on `r`, `leave` is called with the result, the argument object is
    untouched -/
theorem visitM_replace (T : Table) (v : Visitor σ) (fuel : Nat) (m mb : String) (c r : Node) (s s1 : σ)
    (steps : List Step) (r2 : Node) (s2 : σ) (tb : List Ev)
    (h : v.enter c s = (.replace r, s1)) (hbm : bodyMethod T m c r = .ok mb) (hm : T.methods.lookup mb = some steps)
    (hb : runSteps (callTarget T (visitM T v fuel)) steps r s1 = .ok (r2, s2, tb)) :
    visitM T v (fuel + 1) m c s = .ok ⟨some r2, c, v.leave r2 s2, ⟨true, c⟩ :: tb ++ [⟨false, r2⟩]⟩ := by
  simp [visitM, h, hbm, hm, hb]

/-- **delete_local** — returning nothing from `enter` for a list member removes exactly that member: the rebuilt
    list is (results of the members before) ++ (results of the members after), the only call about `c` is its
    `enter`, and the members after are visited from the state that `enter` left. -/
theorem delete_local (T : Table) (v : Visitor σ) (fuel : Nat) (tgt : Target) (m : String)
    (pre post : List Node) (c : Node) (s s1 s2 s3 : σ) (rp ip rq iq : List Node) (tp tq : List Ev)
    (hres : resolve T tgt c.kind = .ok m)
    (hpre : visitList (callTarget T (visitM T v (fuel + 1)) tgt) pre s = .ok (rp, ip, s1, tp))
    (hdel : v.enter c s1 = (.delete, s2))
    (hpost : visitList (callTarget T (visitM T v (fuel + 1)) tgt) post s2 = .ok (rq, iq, s3, tq)) :
    visitList (callTarget T (visitM T v (fuel + 1)) tgt) (pre ++ c :: post) s
      = .ok (rp ++ rq, ip ++ c :: iq, s3, tp ++ (⟨true, c⟩ :: tq)) := by
  have hc : callTarget T (visitM T v (fuel + 1)) tgt c s1 = .ok ⟨none, c, s2, [⟨true, c⟩]⟩ := by
    simp [callTarget, hres, visitM_delete T v fuel m c s1 s2 hdel]
  have := member_frame _ pre post c s hpre hc hpost
  simpa using this

/-- **replace_local** — returning a replacement `r` from `enter` for a list member substitutes exactly that
    member: the rebuilt list has the (visited) replacement `r2` at that position between the results of the
    siblings; the calls are `enter c`, the visit of `r`'s children, `leave r2`. -/
theorem replace_local (T : Table) (v : Visitor σ) (fuel : Nat) (tgt : Target) (m mb : String)
    (pre post : List Node) (c r r2 : Node) (s s1 s2 s3 s4 : σ) (rp ip rq iq : List Node) (tp tb tq : List Ev)
    (steps : List Step)
    (hres : resolve T tgt c.kind = .ok m)
    (hbm : bodyMethod T m c r = .ok mb) (hm : T.methods.lookup mb = some steps)
    (hpre : visitList (callTarget T (visitM T v (fuel + 1)) tgt) pre s = .ok (rp, ip, s1, tp))
    (hrep : v.enter c s1 = (.replace r, s2))
    (hbody : runSteps (callTarget T (visitM T v fuel)) steps r s2 = .ok (r2, s3, tb))
    (hpost : visitList (callTarget T (visitM T v (fuel + 1)) tgt) post (v.leave r2 s3) = .ok (rq, iq, s4, tq)) :
    visitList (callTarget T (visitM T v (fuel + 1)) tgt) (pre ++ c :: post) s
      = .ok (rp ++ r2 :: rq, ip ++ c :: iq, s4, tp ++ ((⟨true, c⟩ :: tb ++ [⟨false, r2⟩]) ++ tq)) := by
  have hc : callTarget T (visitM T v (fuel + 1)) tgt c s1
      = .ok ⟨some r2, c, v.leave r2 s3, ⟨true, c⟩ :: tb ++ [⟨false, r2⟩]⟩ := by
    simp [callTarget, hres, visitM_replace T v fuel m mb c r s1 s2 steps r2 s3 tb hrep hbm hm hbody]
  have := member_frame _ pre post c s hpre hc hpost
  simpa using this

/-- a single (non-list) child: with `assign = true` what the child's visit returns (replacement, or `None` for a
    deletion) is written back to exactly that attribute -/
theorem single_assigned (call : Target → Node → σ → Res (Out σ)) (st : Step) (n c : Node) (s : σ) (o : Out σ)
    (happ : st.applies n.kind = true) (hshape : st.shape = .one) (hassign : st.assign = true)
    (hget : n.getAttr st.attr = some (.one (some c))) (hc : call st.target c s = .ok o) :
    runStep call st n s = .ok (n.setAttr st.attr (.one o.ret), o.st, o.tr) := by
  simp [runStep, happ, hget, hshape, hc, hassign]

/-! ## chained visitors -/

private theorem chainEnter_obs (vs : List (Visitor σ)) (hobs : ∀ v ∈ vs, Observer v) (n : Node) :
    ∀ s, chainEnter vs n (some (n, true)) s = (.keep n, vs.foldl (fun s v => (v.enter n s).2) s) := by
  induction vs with
  | nil => intro s; rfl
  | cons v vs ih =>
    intro s
    have hv := hobs v (by simp) n s
    rcases hes : v.enter n s with ⟨act, s1⟩
    rw [hes] at hv
    simp only at hv
    subst hv
    simp only [chainEnter, hes, List.foldl_cons, if_true]
    exact ih (fun w hw => hobs w (by simp [hw])) s1

/-- **chained_order** — members that change nothing: `enter` runs the members' `enter` in order, `leave` runs
    the members' `leave` in reverse order, on the same node.
    SUPERSEDED VARIANT: `chained vs` = `chained vs false` is the loop BEFORE fix C18-W8; the statement for the loop the code
    has is `chained_order_current` (Props/C18_chain_current.lean). -/
theorem chained_order (vs : List (Visitor σ)) (hobs : ∀ v ∈ vs, Observer v) (n : Node) (s : σ) :
    (chained vs).enter n s = (.keep n, vs.foldl (fun s v => (v.enter n s).2) s) ∧
    (chained vs).leave n s = vs.reverse.foldl (fun s v => v.leave n s) s := by
  refine ⟨chainEnter_obs vs hobs n s, ?_⟩
  simp [chained, chainLeave, List.foldl_reverse]

/-- a chain of observers is an observer (so `identity_noop` and `balanced` apply to chains).
    SUPERSEDED VARIANT (pre-W8 loop); current loop: `chained_observer_current`. -/
theorem chained_observer (vs : List (Visitor σ)) (hobs : ∀ v ∈ vs, Observer v) : Observer (chained vs) := by
  intro n s; rw [(chained_order vs hobs n s).1]

/-- `SkipNode` from the first member: no later member is entered, the chain skips.
    SUPERSEDED VARIANT (pre-W8 loop: this is the defect W8); current loop: `chained_skip_personal`. -/
theorem chained_skip (v : Visitor σ) (vs : List (Visitor σ)) (n : Node) (s s1 : σ) (h : v.enter n s = (.skip n, s1)) :
    (chained (v :: vs)).enter n s = (.skip n, s1) := by
  simp [chained, chainEnter, h]

/-! ### the skip signal in a chain, with fix C18-W8 (`chained vs true`): the skip is the raiser's own -/

private theorem chainEnterP_obs (vs rest : List (Visitor σ)) (hobs : ∀ v ∈ vs, Observer v) (n : Node) :
    ∀ (entered : List (Visitor σ)) (sk : Bool) (s : σ),
      chainEnterP (vs ++ rest) n (some (n, true)) entered sk s =
        chainEnterP rest n (some (n, true)) (vs.reverse ++ entered) sk (vs.foldl (fun s v => (v.enter n s).2) s) := by
  induction vs with
  | nil => intro entered sk s; simp
  | cons v vs ih =>
    intro entered sk s
    have hv := hobs v (by simp) n s
    rcases hes : v.enter n s with ⟨act, s1⟩
    rw [hes] at hv
    simp only at hv
    subst hv
    simp only [List.cons_append, chainEnterP, hes, if_true, List.foldl_cons, List.reverse_cons, List.append_assoc,
      List.singleton_append]
    exact ih (fun w hw => hobs w (by simp [hw])) (v :: entered) sk s1

/-- members that change nothing: same order of `enter` / `leave` as before the fix -/
theorem chained_order_personal (vs : List (Visitor σ)) (hobs : ∀ v ∈ vs, Observer v) (n : Node) (s : σ) :
    (chained vs true).enter n s = (.keep n, vs.foldl (fun s v => (v.enter n s).2) s) := by
  have := chainEnterP_obs vs [] hobs n [] false s
  simp only [List.append_nil] at this
  simp [chained, this, chainEnterP]

/-- **chained_skip_personal** — a member `w` raising `SkipNode` between members that change nothing: EVERY member
    enters the node, in order; every member except the raiser is left, in reverse order; the chain raises `SkipNode`
    (so the children are visited by nobody and the chain's own `leave` is not called): the skip suppresses only the
    node's children and the raiser's leave call. -/
theorem chained_skip_personal (pre post : List (Visitor σ)) (w : Visitor σ)
    (hpre : ∀ v ∈ pre, Observer v) (hpost : ∀ v ∈ post, Observer v) (n : Node) (s : σ)
    (hw : ∀ s, (w.enter n s).1 = .skip n) :
    (chained (pre ++ w :: post) true).enter n s =
      (.skip n,
        (pre ++ post).reverse.foldl (fun s v => v.leave n s)
          (post.foldl (fun s v => (v.enter n s).2)
            (w.enter n (pre.foldl (fun s v => (v.enter n s).2) s)).2)) := by
  simp only [chained, if_true]
  rw [chainEnterP_obs pre (w :: post) hpre n [] false s]
  have h1 := hw (pre.foldl (fun s v => (v.enter n s).2) s)
  rcases hes : w.enter n (pre.foldl (fun s v => (v.enter n s).2) s) with ⟨act, s1⟩
  rw [hes] at h1
  simp only at h1
  subst h1
  simp only [chainEnterP, hes, if_true, List.append_nil]
  have h2 := chainEnterP_obs post [] hpost n pre.reverse true s1
  simp only [List.append_nil] at h2
  rw [h2]
  simp [chainEnterP, List.reverse_append]

/-! ### chains of chains (W10) -/

/-- leaf visitors logging `k` on enter and `10 + k` on leave; `skips` raises SkipNode -/
def logger (k : Nat) (skips : Bool) : Visitor (List Nat) :=
  ⟨fun n s => (if skips then .skip n else .keep n, s ++ [k]), fun _ s => s ++ [10 + k]⟩

/-- `ChainedVisitor(ChainedVisitor(A, S), B)` with `S` raising SkipNode: run member by member (the code before fix
    C18-W10) `A` is left BEFORE `B` is entered (`enter A, enter S, leave A, enter B, leave B`); as its flattening
    (with the fix) the leaf visitors enter in order and leave in reverse (`enter A, S, B, leave B, A`). -/
theorem nested_chain_compose_vs_flat :
    let t : VTree (List Nat) := .chain [.chain [.leaf (logger 1 false), .leaf (logger 2 true)], .leaf (logger 3 false)]
    (t.compose.enter default []).2 = [1, 2, 11, 3, 13] ∧ (t.flat.enter default []).2 = [1, 2, 3, 13, 11] := by
  decide

/-- the flattening meets the specification of `chained_skip_personal`: it IS a flat chain of the leaf visitors -/
theorem nested_chain_flat_is_chain (t : VTree σ) : t.flat = chained t.flatten true := rfl

/-- the full expectation on chains: what a member decides for a node is what the chain does with it -/
def ChainFaithful : Prop :=
  ∀ (v : Visitor Unit) (n : Node), ((chained [v]).enter n ()).1 = (v.enter n ()).1

/-- W6 — `ChainedVisitor.enter` returns the original node: a member's deletion is discarded …
    (stated for the pre-W8 loop; current loop: `chain_discards_delete_current`) -/
theorem chain_discards_delete (v : Visitor σ) (n : Node) (s s1 : σ) (h : v.enter n s = (.delete, s1)) :
    (chained [v]).enter n s = (.keep n, s1) := by
  simp [chained, chainEnter, h]

/-- … and so is a member's replacement (it is only handed to the later members)
    (pre-W8 loop; current loop: `chain_discards_replace_current`) -/
theorem chain_discards_replace (v w : Visitor σ) (n r : Node) (s s1 : σ) (h : v.enter n s = (.replace r, s1)) :
    (chained [v, w]).enter n s = (match w.enter r s1 with
      | (.skip _, s2) => (.skip n, s2)
      | (.raise e, s2) => (.raise e, s2)
      | (_, s2) => (.keep n, s2)) := by
  simp only [chained, chainEnter, h]
  rcases hw : w.enter r s1 with ⟨act, s2⟩
  cases act <;> simp [chainEnter]

/-- refutation of `ChainFaithful` (known finding W6) (pre-W8 loop; current loop: `chain_not_faithful_current`) -/
theorem chain_not_faithful : ¬ ChainFaithful := by
  intro h
  have := h ⟨fun _ s => (.delete, s), fun _ s => s⟩ default
  simp [chained, chainEnter] at this

/-! ## coverage -/

private def WalkF (f : Node → σ → Res (Out σ)) (g : Node → Res (List Ev)) : Prop :=
  ∀ c s o, f c s = .ok o → g c = .ok o.tr

private theorem visitList_walk {f : Node → σ → Res (Out σ)} {g : Node → Res (List Ev)} (hf : WalkF f g) :
    ∀ cs s r ip s' tr, visitList f cs s = .ok (r, ip, s', tr) → Spec.walkList g cs = .ok tr := by
  intro cs
  induction cs with
  | nil => intro s r ip s' tr h; simp [visitList] at h; simp [Spec.walkList, h.2.2.2]
  | cons c cs ih =>
    intro s r ip s' tr h
    simp only [visitList] at h
    cases hc : f c s with
    | err e => simp [hc] at h
    | fuel => simp [hc] at h
    | ok o =>
      simp only [hc] at h
      cases hr : visitList f cs o.st with
      | err e => simp [hr] at h
      | fuel => simp [hr] at h
      | ok q =>
        obtain ⟨r1, ip1, s1, tr1⟩ := q
        simp only [hr, Res.ok.injEq, Prod.mk.injEq] at h
        simp only [Spec.walkList, hf c s o hc, ih _ _ _ _ _ hr, h.2.2.2]

private theorem runStep_walk {call : Target → Node → σ → Res (Out σ)} {wcall : Target → Node → Res (List Ev)}
    (hc : ∀ t, WalkF (call t) (wcall t))
    (st : Step) (n : Node) (s : σ) (n' : Node) (s' : σ) (tr : List Ev)
    (h : runStep call st n s = .ok (n', s', tr)) : Spec.walkStep wcall st n = .ok tr := by
  unfold runStep at h
  unfold Spec.walkStep
  split at h
  · rename_i happ; simp at h; simp [happ, h.2.2]
  · rename_i happ
    simp only [happ]
    split at h
    · simp at h
    · rename_i a ha
      simp only [ha]
      split at h
      · rename_i hg
        split at h <;> simp at h
        rename_i hg2
        simp [hg, hg2, h.2.2]
      · rename_i c hs
        split at h
        · simp at h
        · simp at h
        · rename_i o ho
          simp only [Res.ok.injEq, Prod.mk.injEq] at h
          simp [hs, hc _ _ _ _ ho, h.2.2]
      · rename_i cs hs
        split at h
        · simp at h
        · simp at h
        · rename_i r ip s1 tr1 hl
          simp only [Res.ok.injEq, Prod.mk.injEq] at h
          simp [hs, visitList_walk (hc _) _ _ _ _ _ _ hl, h.2.2]
      · simp at h

private theorem runSteps_walk {call : Target → Node → σ → Res (Out σ)} {wcall : Target → Node → Res (List Ev)}
    (hc : ∀ t, WalkF (call t) (wcall t)) (hid : ∀ t, IdF (call t)) :
    ∀ (steps : List Step) (n : Node) (s : σ) (n' : Node) (s' : σ) (tr : List Ev),
      runSteps call steps n s = .ok (n', s', tr) → Spec.walkSteps wcall steps n = .ok tr := by
  intro steps
  induction steps with
  | nil => intro n s n' s' tr h; simp [runSteps] at h; simp [Spec.walkSteps, h.2.2]
  | cons st rest ih =>
    intro n s n' s' tr h
    simp only [runSteps] at h
    cases h1 : runStep call st n s with
    | err e => simp [h1] at h
    | fuel => simp [h1] at h
    | ok q =>
      obtain ⟨n1, s1, tr1⟩ := q
      simp only [h1] at h
      cases h2 : runSteps call rest n1 s1 with
      | err e => simp [h2] at h
      | fuel => simp [h2] at h
      | ok q2 =>
        obtain ⟨n2, s2, tr2⟩ := q2
        simp only [h2, Res.ok.injEq, Prod.mk.injEq] at h
        have e1 := runStep_id hid _ _ _ _ _ _ h1
        subst e1
        simp only [Spec.walkSteps, runStep_walk hc _ _ _ _ _ _ h1, ih _ _ _ _ _ h2, h.2.2]

private theorem visitM_walk (T : Table) (v : Visitor σ) (hv : Observer v) :
    ∀ fuel m, WalkF (visitM T v fuel m) (Spec.walk T fuel m) := by
  intro fuel
  induction fuel with
  | zero => intro m c s o h; simp [visitM] at h
  | succ fuel ih =>
    intro m c s o h
    have he := hv c s
    rcases hes : v.enter c s with ⟨act, s1⟩
    rw [hes] at he
    simp only at he
    subst he
    simp only [visitM, hes, bodyMethod_of_kind_eq T _ c c rfl] at h
    simp only [Spec.walk]
    split at h
    · simp at h
    · rename_i steps hm
      simp only [hm]
      split at h
      · simp at h
      · simp at h
      · rename_i n2 s2 tr hr
        have hw : ∀ t, WalkF (callTarget T (visitM T v fuel) t) (Spec.walkTarget T (Spec.walk T fuel) t) := by
          intro t c s o ho
          unfold callTarget at ho
          unfold Spec.walkTarget
          split at ho
          · rename_i m' hres; simp only [hres]; exact ih m' c s o ho
          · simp at ho
        have hwalk := runSteps_walk hw (callTarget_id T _ (visitM_id T v hv fuel)) _ _ _ _ _ _ hr
        have hid := runSteps_id (callTarget_id T _ (visitM_id T v hv fuel)) _ _ _ _ _ _ hr
        simp only [Res.ok.injEq] at h
        subst h
        subst hid
        simp [hwalk]

/-- **coverage_partial** — for a visitor that changes nothing, the calls of a completed visit are exactly
    `Spec.implEvents`: the pre/post-order over the child relation that the table IMPLEMENTS, so every node reachable
    through that relation is entered and left exactly once, parents around children, in the order of the
    statements of the `_visit_*` bodies.
    Missing w.r.t. the property statement: the implemented relation is a strict subset of "every non-name child"
    and its order is not always the source order (see `FullCoverage`, `full_coverage_false`, `gaps_*`). -/
theorem coverage_partial (T : Table) (v : Visitor σ) (hv : Observer v) (fuel : Nat) (t : Node) (s : σ) (o : Out σ)
    (h : visit T v fuel t s = .ok o) : Spec.implEvents T fuel t = .ok o.tr := by
  unfold visit at h
  unfold Spec.implEvents
  split at h
  · simp at h
  · rename_i m hm
    simp only [hm]
    exact visitM_walk T v hv fuel m t s o h

/-! ## what `visitor.py` says today (the GENERATED table): closed by `decide`, re-opened by any source edit -/

open PyGql.Generated.VisitTable

/-- the visitor that changes nothing and keeps no state -/
def observer : Visitor Unit := ⟨fun n s => (.keep n, s), fun _ s => s⟩

theorem observer_is_observer : Observer observer := fun _ _ => rfl

/-- (enter?, id, kind) of the calls of an identity visit of `t` with the extracted table -/
def implKeys (fuel : Nat) (t : Node) : Option (List (Bool × Nat × String)) :=
  match visit table observer fuel t () with
  | .ok o => some (o.tr.map Ev.key)
  | _ => none

def specKeys (t : Node) : List (Bool × Nat × String) := (Spec.events t).map Ev.key

def enterIds (ks : List (Bool × Nat × String)) : List Nat := (ks.filter (·.1)).map (·.2.1)

mutual
/-- (parent kind, attribute) of every non-name child of an entered node that is itself not entered -/
def gapsNode (entered : List Nat) : Node → List (String × String)
  | .mk k _ a => gapsAttrs entered k a
def gapsAttrs (entered : List Nat) (k : String) : List (String × Attr) → List (String × String)
  | [] => []
  | (name, a) :: r => gapsAttr entered k name a ++ gapsAttrs entered k r
def gapsAttr (entered : List Nat) (k name : String) : Attr → List (String × String)
  | .scalar _ => []
  | .one none => []
  | .one (some c) =>
    if c.kind == "Name" then [] else if entered.contains c.id then gapsNode entered c else [(k, name)]
  | .many cs => gapsList entered k name cs
def gapsList (entered : List Nat) (k name : String) : List Node → List (String × String)
  | [] => []
  | c :: r =>
    (if c.kind == "Name" then [] else if entered.contains c.id then gapsNode entered c else [(k, name)])
      ++ gapsList entered k name r
end

/-- structural gaps of the implemented traversal on `t` -/
def gaps (t : Node) : Option (List (String × String)) :=
  (implKeys 64 t).map fun ks => (gapsNode (enterIds ks) t).eraseDups

/-- are the entered nodes entered in the specified (source) order? -/
def orderOk (t : Node) : Option Bool :=
  (implKeys 64 t).map fun ks => enterIds ks == (enterIds (specKeys t)).filter (fun i => (enterIds ks).contains i)

/-- **FULL STATEMENT of coverage** (false today): an identity visit enters and leaves EVERY non-name node,
    pre/post-order, siblings in source order. -/
def FullCoverage : Prop := ∀ (t : Node) (fuel : Nat) (ks : List (Bool × Nat × String)), implKeys fuel t = some ks → ks = specKeys t

end PyGql.Props.C18

import PyGqlModel.Visit
import PyGqlModel.Spec.VisitSpec
import PyGqlModel.Generated.VisitTable
namespace PyGql.Props.C18
end PyGql.Props.C18

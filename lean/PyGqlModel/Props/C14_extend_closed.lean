/-
  C14 — `extend_closed` (FULL): closedness of `extend_schema`'s result.

  `extend_closed`: for every heap, every closed well-formed source and every extension document that only uses defined names and
  defines new, distinct type names (`ExtOK`), the result of `extend_schema` is CLOSED: every type the result registers — the
  specified scalars, the rebuilt object of every source type WITH the fields / input fields / union members the document adds, the
  object types the document defines — and every directive — rebuilt or defined by the document — only holds references that are
  THE objects registered under their names in the result; the root operation types too. For the variant of the code that rebuilds
  every registered type (`extKeepAll`) and builds added input fields against the extended registry (`extInputFieldExtended`,
  C11-S1 fixed) — the variant of /repo (`current_extend_closed`).
  `extend_closed_kept_partial` (+ `extend_closed_source_directives`, `extend_closed_roots`) is the part taken over from the source;
  it needs neither `ExtOK` nor `extInputFieldExtended` and is SUBSUMED by `extend_closed` where that applies.
-/
import PyGqlModel.Lemmas.HeapExtAll2
import PyGqlModel.Props.C14_extend

set_option linter.unusedSimpArgs false
set_option linter.unusedVariables false

namespace PyGql.Props.C14
open PyGql.Heap PyGql.Heap.Own

/-- the document only uses defined names (of the source or of the document itself: `ExtUses`, Lemmas/HeapExtAll2.lean — every
    type expression of an added field / argument / input field, of a field / argument of a defined type, of an argument of a
    defined directive, every added union member); the types it defines are new and distinct -/
def ExtOK (s : Schema) (ext : Ext) : Prop :=
  ExtUses (fun x => x ∈ names s ∨ x ∈ ext.newTypes.map (·.1)) ext ∧ (ext.newTypes.map (·.1)).Nodup ∧
  ∀ e, e ∈ ext.newTypes → e.1 ∉ names s

/-- FULL statement: extension results are closed -/
def ExtendClosed (cfg : Cfg) : Prop :=
  ∀ (ext : Ext) (s : Schema) (h : Heap), closedB h s = true → wfB h s = true → ExtOK s ext →
    closedB (extend cfg ext s h).1 (extend cfg ext s h).2 = true

/-- closedness of one rebuilt member list, by kind -/
def KeptClosed (h : Heap) (reg : List (String × Addr)) (k : Kind) (kept : List Addr) : Prop :=
  match k with
  | .input => ∀ c, c ∈ kept → argClosed h reg c = true
  | .object | .interface => ∀ c, c ∈ kept → fieldClosed h reg c = true
  | _ => True

private theorem argRelB_closed {k : Bool} {N : List (String × Addr)} {h0 hout : Heap} {lo : Nat} {chk0 : Ref → Bool}
    (hreg : ∀ r, chk0 r = true → (lookup N r.name).isSome = true) {a c : Addr} (ha : argShape chk0 h0 a = true)
    (r : ArgRelB k N h0 hout lo a c) : argClosed hout N c = true := by
  obtain ⟨_, g, g', e1, e2, _, _, _, hty, _⟩ := r
  obtain ⟨g0, hg0, hc0⟩ := (argShape_iff chk0 h0 a).mp ha
  rw [e1] at hg0; cases hg0
  simp only [argClosed]
  exact (argShape_iff _ hout c).mpr ⟨g', e2, by rw [hty]; exact refOK_repoint N g.ty (hreg _ hc0)⟩

private theorem all2_argRelB_closed {k : Bool} {N : List (String × Addr)} {h0 hout : Heap} {lo : Nat} {chk0 : Ref → Bool}
    (hreg : ∀ r, chk0 r = true → (lookup N r.name).isSome = true) {as cs : List Addr} (hs : ∀ a, a ∈ as → argShape chk0 h0 a = true)
    (r : All2 (ArgRelB k N h0 hout lo) as cs) : ∀ c, c ∈ cs → argClosed hout N c = true := by
  intro c hc
  obtain ⟨a, ha, rac⟩ := forall2_mem_right r c hc
  exact argRelB_closed hreg (hs a ha) rac

private theorem fieldRelB_closed {cfg : Cfg} {N : List (String × Addr)} {h0 hout : Heap} {lo : Nat} {chk0 : Ref → Bool}
    (hreg : ∀ r, chk0 r = true → (lookup N r.name).isSome = true) {a c : Addr} (ha : fieldShape chk0 h0 a = true)
    (r : FieldRelB cfg N h0 hout lo a c) : fieldClosed hout N c = true := by
  obtain ⟨_, f, f', e1, e2, ⟨_, _, _, _, hty, _, _⟩, hargs⟩ := r
  obtain ⟨f0, hf0, hc0, ha0⟩ := (fieldShape_iff chk0 h0 a).mp ha
  rw [e1] at hf0; cases hf0
  simp only [fieldClosed]
  refine (fieldShape_iff _ hout c).mpr ⟨f', e2, by rw [hty]; exact refOK_repoint N f.ty (hreg _ hc0), ?_⟩
  exact all2_argRelB_closed hreg ha0 hargs

/-- SUBSUMED by the full `extend_closed` for the variant of /repo; kept because it holds for EVERY variant that rebuilds all
    types (no `extInputFieldExtended`, no `ExtOK`: also for documents using undefined names).
    PARTIAL form of `ExtendClosed` (see the header): the part of the result that is rebuilt from the source is closed -/
theorem extend_closed_kept_partial (cfg : Cfg) (hk : cfg.extKeepAll = true) (ext : Ext) (s : Schema) (h : Heap)
    (hc : closedB h s = true) (hw : wfB h s = true) (hnew : ∀ e, e ∈ ext.newTypes → e.1 ∉ names s)
    (n : String) (a : Addr) (t : TypeO) (hm : (n, a) ∈ s.types) (hp : isProtected n = false) (ht : h.readType a = some t) :
    ∃ a' t' kept added more, lookup (extend cfg ext s h).2.types n = some a' ∧ (extend cfg ext s h).1.readType a' = some t' ∧
      t'.name = n ∧ t'.kind = t.kind ∧ t'.fields = kept ++ added ∧ kept.length = (typeKids t).length ∧
      KeptClosed (extend cfg ext s h).1 (extend cfg ext s h).2.types t.kind kept ∧
      (t.kind = Kind.object → ∀ r, r ∈ t'.ifaces → refOK (extend cfg ext s h).2.types r = true) ∧
      (t.kind = Kind.union → ∃ old, t'.members = old ++ more ∧ old.length = t.members.length ∧
        ∀ r, r ∈ old → refOK (extend cfg ext s h).2.types r = true) := by
  have w := wfs_of_closedB hc hw
  have hreg : ∀ r, refOK s.types r = true → (lookup (extend cfg ext s h).2.types r.name).isSome = true := fun r hr =>
    extend_registers_source_names cfg hk ext s h w.nodup r.name (name_of_lookup (refOK_lookup hr))
  obtain ⟨t0, ht0, hrefs, hmem⟩ := (typeShape_iff _ h a).mp (w.types (n, a) hm)
  rw [ht] at ht0; cases ht0
  obtain ⟨a', t', kept, added, g1, g2, g3, g4, g5, g6, more, g7⟩ :=
    extend_type_full_reg cfg hk ext s h w.nodup hnew n a t hm hp ht (membersReadable_of_shape _ h a t ht (w.types (n, a) hm))
  have hname : t.name = n := by
    have := w.names (n, a) hm
    simpa [nameOK, ht] using this
  refine ⟨a', t', kept, added, more, g1, g2, g3.1.trans hname, g3.2.1, g4, ?_, ?_, ?_, ?_⟩
  · simp only [MembersRel, typeKids] at g5 ⊢
    cases hkk : t.kind <;> simp only [hkk] at g5 ⊢
    · exact g5.length_eq.symm
    · exact g5.length_eq.symm
    · simp [g5]
    · simp [g5]
    · exact g5.length_eq.symm
    · simp [g5]
  · simp only [KeptClosed, MembersRel, typeMembersOK] at g5 hmem ⊢
    cases hkk : t.kind <;> simp only [hkk, List.all_eq_true] at g5 hmem ⊢
    · intro c hcm
      obtain ⟨x, hx, rxc⟩ := forall2_mem_right g5 c hcm
      exact fieldRelB_closed hreg (hmem x hx) rxc
    · intro c hcm
      obtain ⟨x, hx, rxc⟩ := forall2_mem_right g5 c hcm
      exact fieldRelB_closed hreg (hmem x hx) rxc
    · exact all2_argRelB_closed hreg hmem g5
  · intro hko r hr
    rw [g6] at hr
    apply refOK_repointRefs _ t.ifaces _ r hr
    intro r0 hr0
    simp only [typeRefs, hko, List.all_eq_true] at hrefs
    exact hreg r0 (hrefs r0 hr0)
  · intro hku
    refine ⟨repointRefs (extend cfg ext s h).2.types t.members, g7, by simp [repointRefs], ?_⟩
    apply refOK_repointRefs
    intro r0 hr0
    simp only [typeRefs, hku, List.all_eq_true] at hrefs
    exact hreg r0 (hrefs r0 hr0)

/-- … every directive of the source: the result registers under its name a rebuilt directive whose argument type references are
    the registered objects -/
theorem extend_closed_source_directives (cfg : Cfg) (hk : cfg.extKeepAll = true) (ext : Ext) (s : Schema) (h : Heap)
    (hc : closedB h s = true) (hw : wfB h s = true) (hnd : (s.dirs.map (·.1)).Nodup) (e : String × Addr) (he : e ∈ s.dirs) :
    ∃ a', lookup (extend cfg ext s h).2.dirs e.1 = some a' ∧
      dirClosed (extend cfg ext s h).1 (extend cfg ext s h).2.types a' = true := by
  have w := wfs_of_closedB hc hw
  have hreg : ∀ r, refOK s.types r = true → (lookup (extend cfg ext s h).2.types r.name).isSome = true := fun r hr =>
    extend_registers_source_names cfg hk ext s h w.nodup r.name (name_of_lookup (refOK_lookup hr))
  have hread : ∀ e, e ∈ s.dirs → ∃ d, h.readDir e.2 = some d ∧ ∀ x, x ∈ d.args → ∃ g, h.readArg x = some g := by
    intro e' he'
    have hs := w.dirs e' he'
    simp only [dirShape] at hs
    split at hs
    · rename_i d hd
      simp only [List.all_eq_true] at hs
      exact ⟨d, hd, fun x hx => by obtain ⟨g, hg, _⟩ := (argShape_iff _ h x).mp (hs x hx); exact ⟨g, hg⟩⟩
    · cases hs
  obtain ⟨a', h1, _, _, d, d', r1, r2, _, _, _, hargs⟩ := extend_dir_full_reg cfg hk ext s h w.nodup hnd hread e he
  refine ⟨a', h1, ?_⟩
  have hs := w.dirs e he
  simp only [dirShape, r1, List.all_eq_true] at hs
  simp only [dirClosed, dirShape, r2, List.all_eq_true]
  exact all2_argRelB_closed hreg hs hargs

/-- … and the root operation references are the registered objects (by construction: `reRoot` of the result's registry) -/
theorem extend_closed_roots (cfg : Cfg) (hk : cfg.extKeepAll = true) (ext : Ext) (s : Schema) (h : Heap) :
    rootOK (refOK (extend cfg ext s h).2.types) (extend cfg ext s h).2.query = true ∧
    rootOK (refOK (extend cfg ext s h).2.types) (extend cfg ext s h).2.mutation = true ∧
    rootOK (refOK (extend cfg ext s h).2.types) (extend cfg ext s h).2.subscription = true := by
  have key : ∀ (reg : List (String × Addr)) (r : Option Ref), rootOK (refOK reg) (reRoot reg r) = true := by
    intro reg r
    cases r with
    | none => rfl
    | some r =>
      simp only [reRoot, Option.bind_some]
      cases hl : lookup reg r.name with
      | none => rfl
      | some a => simp [rootOK, refOK, hl]
  obtain ⟨q, m, su, _⟩ := untouched_preserved_extend_schema_level cfg hk ext s h
  rw [q, m, su]
  exact ⟨key _ _, key _ _, key _ _⟩


private theorem extUses_mono {R R' : String → Prop} (hr : ∀ x, R x → R' x) {ext : Ext} (u : ExtUses R ext) : ExtUses R' ext :=
  ⟨fun nm f hf => ⟨hr _ (u.fields nm f hf).1, fun g hg => hr _ ((u.fields nm f hf).2 g hg)⟩,
   fun nm g hg => hr _ (u.inputs nm g hg), fun nm m hm => hr _ (u.members nm m hm),
   fun e f he hf => ⟨hr _ (u.newTypes e f he hf).1, fun g hg => hr _ ((u.newTypes e f he hf).2 g hg)⟩,
   fun e g he hg => hr _ (u.newDirs e g he hg)⟩

/-- the names the document defines are registered in the result -/
theorem extend_registers_new_names (cfg : Cfg) (hk : cfg.extKeepAll = true) (ext : Ext) (s : Schema) (h : Heap) (n : String)
    (hn : n ∈ ext.newTypes.map (·.1)) : (lookup (extend cfg ext s h).2.types n).isSome = true := by
  simp only [extend, hk, if_true]
  apply lookup_append_isSome_right
  obtain ⟨x, hx⟩ := allocPlaceholders_some ((s.types.filter fun e => !isProtected e.1).map (·.1) ++ ext.newTypes.map (·.1)) h n
    (List.mem_append.mpr (Or.inr hn))
  rw [hx]; rfl

/-- FULL `extend_closed` -/
theorem extend_closed (cfg : Cfg) (hk : cfg.extKeepAll = true) (hin : cfg.extInputFieldExtended = true) : ExtendClosed cfg := by
  intro ext s h hc hw hok
  have w := wfs_of_closedB hc hw
  obtain ⟨hu, hnd, hnew⟩ := hok
  refine extend_closed_all cfg hk hin ext s h w hnd hnew (extUses_mono ?_ hu) (extend_frames_source cfg ext s h).2
  intro x hx
  rcases hx with hx | hx
  · exact extend_registers_source_names cfg hk ext s h w.nodup x hx
  · exact extend_registers_new_names cfg hk ext s h x hx

/-- a closed schema whose specified scalars are scalar leaves and whose names are distinct is well-formed -/
theorem wfB_of_closedB {h : Heap} {s : Schema} (hc : closedB h s = true) (hp : ∀ e, e ∈ s.types → protLeaf h e = true)
    (hn : (s.types.map (·.1)).Nodup) : wfB h s = true := by
  simp only [closedB, shapeB, Bool.and_eq_true, List.all_eq_true] at hc
  exact wfB_of_wfs (chk := refOK s.types) ⟨hc.1.1.1.1.1, hc.1.1.1.1.2, hc.2, hp, hn⟩

/-- FULL: … and well-formed (distinct names, specified scalars untouched), so that it can itself be extended, cloned and
    transformed (`history_closed_framed`, Props/C14_history.lean); the document must not define a type under the name of a
    specified scalar -/
theorem extend_closed_wf (cfg : Cfg) (hk : cfg.extKeepAll = true) (hin : cfg.extInputFieldExtended = true) (ext : Ext) (s : Schema) (h : Heap)
    (hc : closedB h s = true) (hw : wfB h s = true) (hok : ExtOK s ext) (hnp : ∀ e, e ∈ ext.newTypes → isProtected e.1 = false) :
    closedB (extend cfg ext s h).1 (extend cfg ext s h).2 = true ∧ wfB (extend cfg ext s h).1 (extend cfg ext s h).2 = true := by
  have c := extend_closed cfg hk hin ext s h hc hw hok
  obtain ⟨p, n⟩ := extend_prot_nodup cfg hk ext s h (wfs_of_closedB hc hw) hok.2.1 hok.2.2 hnp (extend_frames_source cfg ext s h).2
  exact ⟨c, wfB_of_closedB c p n⟩

/-- the variant in the working tree -/
theorem current_extend_closed : ExtendClosed PyGql.Generated.HeapCfg.currentCfg :=
  extend_closed _ cur_extKeepAll cur_extInputFieldExtended

/-- `extend type Query { dogs(first: String): Dog }  extend interface Pet { age: String }  type Zed { z: Pet }` -/
def extMore : Ext :=
  { newTypes := [("Zed", [{ name := "z", ty := .named "Pet", args := [] }])],
    fields := [("Query", [{ name := "dogs", ty := .list (.named "Dog"), args := [{ name := "first", ty := .named "String" }] }]),
               ("Pet", [{ name := "age", ty := .named "String", args := [] }])],
    inputFields := [], members := [], values := [], newDirs := [("lim", [{ name := "n", ty := .named "Zed" }], ["FIELD"])] }

/-- non-vacuity of `ExtOK`, and the instance -/
example : closedB (extend Cfg.fixed extMore s0 h0).1 (extend Cfg.fixed extMore s0 h0).2 = true := by decide

/-- non-vacuity of the hypotheses of `extend_closed`: the witness schema and `type Zed { z: String }` -/
example : closedB h0 s0 = true ∧ wfB h0 s0 = true ∧ ExtOK s0 zed := by
  refine ⟨by decide, by decide, ⟨?_, ?_, ?_, ?_, ?_⟩, by decide, by decide⟩
  · intro nm f hf; simp [zed, assocD] at hf
  · intro nm g hg; simp [zed, assocD] at hg
  · intro nm m hm; simp [zed, assocD] at hm
  · intro e f he hf
    simp only [zed, List.mem_singleton] at he
    subst he
    simp only [List.mem_singleton] at hf
    subst hf
    exact ⟨Or.inl (by decide), fun g hg => by cases hg⟩
  · intro e g he hg; simp [zed] at he

/-! ### the hypothesis `extInputFieldExtended` is needed (C11-S1) -/

/-- `enum E`, `input In { a: String }`, `type Query { f(x: In): String }` -/
def hIn : Heap := ⟨[
  .type { kind := .scalar, name := "String", desc := none, fields := [], ifaces := [], members := [], dres := none, rtype := none, values := [], prot := true },
  .type { kind := .enum, name := "E", desc := none, fields := [], ifaces := [], members := [], dres := none, rtype := none, values := ["A|None|None"], prot := false },
  .type { kind := .input, name := "In", desc := none, fields := [3], ifaces := [], members := [], dres := none, rtype := none, values := [], prot := false },
  .arg { name := "a", ty := sStr, py := "a", dflt := none, desc := none },
  .type { kind := .object, name := "Query", desc := none, fields := [5], ifaces := [], members := [], dres := none, rtype := none, values := [], prot := false },
  .field { name := "f", ty := sStr, args := [6], desc := none, depr := none, res := none, sub := none, py := "f" },
  .arg { name := "x", ty := .named ⟨"In", 2⟩, py := "x", dflt := none, desc := none }]⟩
def sIn : Schema := { types := [("String", 0), ("E", 1), ("In", 2), ("Query", 4)], dirs := [], query := some ⟨"Query", 4⟩,
                      mutation := none, subscription := none, dres := none }
/-- `extend input In { e: E }` -/
def extInE : Ext := { newTypes := [], fields := [], inputFields := [("In", [{ name := "e", ty := .named "E" }])], members := [], values := [], newDirs := [] }

private theorem extOK_inE : ExtOK sIn extInE := by
  refine ⟨⟨?_, ?_, ?_, ?_, ?_⟩, by decide, by decide⟩
  · intro nm f hf; simp [extInE, assocD] at hf
  · intro nm g hg
    simp only [extInE, assocD, List.find?_cons, List.find?_nil] at hg
    split at hg
    · simp only [Option.map_some, Option.getD_some, List.mem_singleton] at hg
      subst hg
      exact Or.inl (by decide)
    · simp at hg
  · intro nm m hm; simp [extInE, assocD] at hm
  · intro e f he hf; simp [extInE] at he
  · intro e g he hg; simp [extInE] at he

/-- REFUTATION for the code before C11-S1 was fixed (added input fields built against the registry of the schema being
    extended): the added input field `In.e` references the SOURCE's `E`, not the rebuilt `E` the result registers -/
theorem extend_closed_refuted_unextended_inputs : ¬ ExtendClosed { Cfg.fixed with extInputFieldExtended := false } := by
  intro hf
  have := hf extInE sIn hIn (by decide) (by decide) extOK_inE
  revert this
  decide

/-- … and closed with the fix, on the same history -/
theorem extend_closed_witness_fixed : closedB (extend Cfg.fixed extInE sIn hIn).1 (extend Cfg.fixed extInE sIn hIn).2 = true := by decide

/-- non-vacuity on the witness (`Dog implements Pet` keeps its interface reference closed through `type Zed {z: String}`) -/
example : closedB h0 s0 = true ∧ wfB h0 s0 = true ∧ (∀ e, e ∈ zed.newTypes → e.1 ∉ names s0) ∧ (("Dog", 3) ∈ s0.types) ∧
    closedB (extend Cfg.fixed zed s0 h0).1 (extend Cfg.fixed zed s0 h0).2 = true := by decide

end PyGql.Props.C14

/-
  C14 — closedness of `extend_schema`'s result.

  FULL statement (`ExtendClosed`): the result of extending a closed well-formed schema by a document whose names are all defined
  (`ExtOK`) is closed. It is NOT proved in general. What is proved, for all heaps / closed well-formed sources / extension
  documents (`extend_closed_kept_partial`): everything the result takes over FROM THE SOURCE is closed —
  for every non-protected type name of the source the result registers a rebuilt object carrying that name whose
  * interfaces are all THE objects registered under their names in the result,
  * union members taken over from the source likewise,
  * rebuilt fields (all the source's, in order) have a type reference and argument type references that are the registered
    objects, and rebuilt input fields likewise;
  and every specified scalar is the same closed leaf (`untouched_preserved_extend_protected`).
  MISSING for the full statement — exactly the members, union members, types and directives the extension document ADDS
  (`buildFields` / `buildArgs` / `buildNewTypes` / `buildNewDirs`: they resolve names through the same registry, so they are
  closed iff the document only uses defined names — `ExtOK`). The rebuilt directives of the source and the root operation references
  are covered by `extend_closed_source_directives` and `extend_closed_roots`. Tied meanwhile by the correspondence (`closedB` of the
  model after every extension step = the identity check on the live objects) and by `extend_preserves_witness_fixed`.
-/
import PyGqlModel.Lemmas.HeapExtClosed
import PyGqlModel.Props.C14_extend

set_option linter.unusedSimpArgs false
set_option linter.unusedVariables false

namespace PyGql.Props.C14
open PyGql.Heap PyGql.Heap.Own

def TN.base : TN → String
  | .named n => n
  | .list t => TN.base t
  | .nonNull t => TN.base t

def extArgNames (gs : List ExtArg) : List String := gs.map fun g => TN.base g.ty
def extFieldNames (fs : List ExtField) : List String := fs.flatMap fun f => TN.base f.ty :: extArgNames f.args

/-- every type name the extension document mentions -/
def extNames (ext : Ext) : List String :=
  ext.newTypes.flatMap (fun e => extFieldNames e.2) ++ ext.fields.flatMap (fun e => extFieldNames e.2) ++
  ext.inputFields.flatMap (fun e => extArgNames e.2) ++ ext.members.flatMap (·.2) ++ ext.newDirs.flatMap (fun e => extArgNames e.2.1)

/-- the document only uses defined names; the types it defines are new and distinct -/
def ExtOK (s : Schema) (ext : Ext) : Prop :=
  (∀ n, n ∈ extNames ext → n ∈ names s ∨ n ∈ ext.newTypes.map (·.1)) ∧ (ext.newTypes.map (·.1)).Nodup ∧
  ∀ e, e ∈ ext.newTypes → e.1 ∉ names s

/-- FULL statement: extension results are closed -/
def ExtendClosed (cfg : Cfg) : Prop :=
  ∀ (ext : Ext) (s : Schema) (h : Heap), closedB h s = true → wfB h s = true → ExtOK s ext →
    closedB (extend cfg ext s h).1 (extend cfg ext s h).2 = true

/-- closedness of one rebuilt member list, by kind -/
def KeptClosed (h : Heap) (reg : List (String × Addr)) (k : Kind) (kept : List Addr) : Prop :=
  match k with
  | .input => ∀ c, c ∈ kept → argClosed h reg c = true
  | .object | .interface => ∀ c, c ∈ kept → fieldClosed h reg c = true
  | _ => True

private theorem argRelB_closed {k : Bool} {N : List (String × Addr)} {h0 hout : Heap} {lo : Nat} {chk0 : Ref → Bool}
    (hreg : ∀ r, chk0 r = true → (lookup N r.name).isSome = true) {a c : Addr} (ha : argShape chk0 h0 a = true)
    (r : ArgRelB k N h0 hout lo a c) : argClosed hout N c = true := by
  obtain ⟨_, g, g', e1, e2, _, _, _, hty, _⟩ := r
  obtain ⟨g0, hg0, hc0⟩ := (argShape_iff chk0 h0 a).mp ha
  rw [e1] at hg0; cases hg0
  simp only [argClosed]
  exact (argShape_iff _ hout c).mpr ⟨g', e2, by rw [hty]; exact refOK_repoint N g.ty (hreg _ hc0)⟩

private theorem all2_argRelB_closed {k : Bool} {N : List (String × Addr)} {h0 hout : Heap} {lo : Nat} {chk0 : Ref → Bool}
    (hreg : ∀ r, chk0 r = true → (lookup N r.name).isSome = true) {as cs : List Addr} (hs : ∀ a, a ∈ as → argShape chk0 h0 a = true)
    (r : All2 (ArgRelB k N h0 hout lo) as cs) : ∀ c, c ∈ cs → argClosed hout N c = true := by
  intro c hc
  obtain ⟨a, ha, rac⟩ := forall2_mem_right r c hc
  exact argRelB_closed hreg (hs a ha) rac

private theorem fieldRelB_closed {cfg : Cfg} {N : List (String × Addr)} {h0 hout : Heap} {lo : Nat} {chk0 : Ref → Bool}
    (hreg : ∀ r, chk0 r = true → (lookup N r.name).isSome = true) {a c : Addr} (ha : fieldShape chk0 h0 a = true)
    (r : FieldRelB cfg N h0 hout lo a c) : fieldClosed hout N c = true := by
  obtain ⟨_, f, f', e1, e2, ⟨_, _, _, _, hty, _, _⟩, hargs⟩ := r
  obtain ⟨f0, hf0, hc0, ha0⟩ := (fieldShape_iff chk0 h0 a).mp ha
  rw [e1] at hf0; cases hf0
  simp only [fieldClosed]
  refine (fieldShape_iff _ hout c).mpr ⟨f', e2, by rw [hty]; exact refOK_repoint N f.ty (hreg _ hc0), ?_⟩
  exact all2_argRelB_closed hreg ha0 hargs

/-- PARTIAL form of `ExtendClosed` (see the header): the part of the result that is rebuilt from the source is closed -/
theorem extend_closed_kept_partial (cfg : Cfg) (hk : cfg.extKeepAll = true) (ext : Ext) (s : Schema) (h : Heap)
    (hc : closedB h s = true) (hw : wfB h s = true) (hnew : ∀ e, e ∈ ext.newTypes → e.1 ∉ names s)
    (n : String) (a : Addr) (t : TypeO) (hm : (n, a) ∈ s.types) (hp : isProtected n = false) (ht : h.readType a = some t) :
    ∃ a' t' kept added more, lookup (extend cfg ext s h).2.types n = some a' ∧ (extend cfg ext s h).1.readType a' = some t' ∧
      t'.name = n ∧ t'.kind = t.kind ∧ t'.fields = kept ++ added ∧ kept.length = (typeKids t).length ∧
      KeptClosed (extend cfg ext s h).1 (extend cfg ext s h).2.types t.kind kept ∧
      (t.kind = Kind.object → ∀ r, r ∈ t'.ifaces → refOK (extend cfg ext s h).2.types r = true) ∧
      (t.kind = Kind.union → ∃ old, t'.members = old ++ more ∧ old.length = t.members.length ∧
        ∀ r, r ∈ old → refOK (extend cfg ext s h).2.types r = true) := by
  have w := wfs_of_closedB hc hw
  have hreg : ∀ r, refOK s.types r = true → (lookup (extend cfg ext s h).2.types r.name).isSome = true := fun r hr =>
    extend_registers_source_names cfg hk ext s h w.nodup r.name (name_of_lookup (refOK_lookup hr))
  obtain ⟨t0, ht0, hrefs, hmem⟩ := (typeShape_iff _ h a).mp (w.types (n, a) hm)
  rw [ht] at ht0; cases ht0
  obtain ⟨a', t', kept, added, g1, g2, g3, g4, g5, g6, more, g7⟩ :=
    extend_type_full_reg cfg hk ext s h w.nodup hnew n a t hm hp ht (membersReadable_of_shape _ h a t ht (w.types (n, a) hm))
  have hname : t.name = n := by
    have := w.names (n, a) hm
    simpa [nameOK, ht] using this
  refine ⟨a', t', kept, added, more, g1, g2, g3.1.trans hname, g3.2.1, g4, ?_, ?_, ?_, ?_⟩
  · simp only [MembersRel, typeKids] at g5 ⊢
    cases hkk : t.kind <;> simp only [hkk] at g5 ⊢
    · exact g5.length_eq.symm
    · exact g5.length_eq.symm
    · simp [g5]
    · simp [g5]
    · exact g5.length_eq.symm
    · simp [g5]
  · simp only [KeptClosed, MembersRel, typeMembersOK] at g5 hmem ⊢
    cases hkk : t.kind <;> simp only [hkk, List.all_eq_true] at g5 hmem ⊢
    · intro c hcm
      obtain ⟨x, hx, rxc⟩ := forall2_mem_right g5 c hcm
      exact fieldRelB_closed hreg (hmem x hx) rxc
    · intro c hcm
      obtain ⟨x, hx, rxc⟩ := forall2_mem_right g5 c hcm
      exact fieldRelB_closed hreg (hmem x hx) rxc
    · exact all2_argRelB_closed hreg hmem g5
  · intro hko r hr
    rw [g6] at hr
    apply refOK_repointRefs _ t.ifaces _ r hr
    intro r0 hr0
    simp only [typeRefs, hko, List.all_eq_true] at hrefs
    exact hreg r0 (hrefs r0 hr0)
  · intro hku
    refine ⟨repointRefs (extend cfg ext s h).2.types t.members, g7, by simp [repointRefs], ?_⟩
    apply refOK_repointRefs
    intro r0 hr0
    simp only [typeRefs, hku, List.all_eq_true] at hrefs
    exact hreg r0 (hrefs r0 hr0)

/-- … every directive of the source: the result registers under its name a rebuilt directive whose argument type references are
    the registered objects -/
theorem extend_closed_source_directives (cfg : Cfg) (hk : cfg.extKeepAll = true) (ext : Ext) (s : Schema) (h : Heap)
    (hc : closedB h s = true) (hw : wfB h s = true) (hnd : (s.dirs.map (·.1)).Nodup) (e : String × Addr) (he : e ∈ s.dirs) :
    ∃ a', lookup (extend cfg ext s h).2.dirs e.1 = some a' ∧
      dirClosed (extend cfg ext s h).1 (extend cfg ext s h).2.types a' = true := by
  have w := wfs_of_closedB hc hw
  have hreg : ∀ r, refOK s.types r = true → (lookup (extend cfg ext s h).2.types r.name).isSome = true := fun r hr =>
    extend_registers_source_names cfg hk ext s h w.nodup r.name (name_of_lookup (refOK_lookup hr))
  have hread : ∀ e, e ∈ s.dirs → ∃ d, h.readDir e.2 = some d ∧ ∀ x, x ∈ d.args → ∃ g, h.readArg x = some g := by
    intro e' he'
    have hs := w.dirs e' he'
    simp only [dirShape] at hs
    split at hs
    · rename_i d hd
      simp only [List.all_eq_true] at hs
      exact ⟨d, hd, fun x hx => by obtain ⟨g, hg, _⟩ := (argShape_iff _ h x).mp (hs x hx); exact ⟨g, hg⟩⟩
    · cases hs
  obtain ⟨a', h1, _, _, d, d', r1, r2, _, _, _, hargs⟩ := extend_dir_full_reg cfg hk ext s h w.nodup hnd hread e he
  refine ⟨a', h1, ?_⟩
  have hs := w.dirs e he
  simp only [dirShape, r1, List.all_eq_true] at hs
  simp only [dirClosed, dirShape, r2, List.all_eq_true]
  exact all2_argRelB_closed hreg hs hargs

/-- … and the root operation references are the registered objects (by construction: `reRoot` of the result's registry) -/
theorem extend_closed_roots (cfg : Cfg) (hk : cfg.extKeepAll = true) (ext : Ext) (s : Schema) (h : Heap) :
    rootOK (refOK (extend cfg ext s h).2.types) (extend cfg ext s h).2.query = true ∧
    rootOK (refOK (extend cfg ext s h).2.types) (extend cfg ext s h).2.mutation = true ∧
    rootOK (refOK (extend cfg ext s h).2.types) (extend cfg ext s h).2.subscription = true := by
  have key : ∀ (reg : List (String × Addr)) (r : Option Ref), rootOK (refOK reg) (reRoot reg r) = true := by
    intro reg r
    cases r with
    | none => rfl
    | some r =>
      simp only [reRoot, Option.bind_some]
      cases hl : lookup reg r.name with
      | none => rfl
      | some a => simp [rootOK, refOK, hl]
  obtain ⟨q, m, su, _⟩ := untouched_preserved_extend_schema_level cfg hk ext s h
  rw [q, m, su]
  exact ⟨key _ _, key _ _, key _ _⟩


/-- non-vacuity on the witness (`Dog implements Pet` keeps its interface reference closed through `type Zed {z: String}`) -/
example : closedB h0 s0 = true ∧ wfB h0 s0 = true ∧ (∀ e, e ∈ zed.newTypes → e.1 ∉ names s0) ∧ (("Dog", 3) ∈ s0.types) ∧
    closedB (extend Cfg.fixed zed s0 h0).1 (extend Cfg.fixed zed s0 h0).2 = true := by decide

end PyGql.Props.C14

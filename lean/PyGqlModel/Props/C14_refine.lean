/-
  C14 — REFINEMENT: `Schema.clone()` of a closed schema is, BY NAME, the same schema.

  * `heal_exact` / `clone_is_copy_then_exact_heal`: healing a heap whose objects only mention registered names drops no member,
    rebuilds nothing and stops after one round; so `clone()` = the copying phase + re-pointing of references.
  * `clone_members_exact`: the member-level statements that are sub-list relations for visitor transforms (`Sub2`, `MRel`, `TRel`)
    are EQUALITIES for clone: every type object of the clone holds exactly the member list the copying phase gave it.
  * `clone_refines`: for EVERY function `F` of the by-name view of a type (object attributes — description, resolver ids,
    default reprs, enum value strings, class tag —, interfaces / members by name, fields and arguments in order with their types
    by name) — in particular for every dump into `SchemaD` under any interpretation of resolver ids / default reprs / enum value
    strings — `dumpAt F (clone s) n = dumpAt F s n` for every type name `n`: what C20 / C15 / C12 establish about a schema
    description transfers to its clones.
  Directives: `clone_refines_directives_partial` (the healing part); the full statement — same names, same ORDER, same views — is
  `clone_refines_directives` in Props/C14_order.lean, with the order theorems of the `types` dict.
-/
import PyGqlModel.Lemmas.HeapCopyView
import PyGqlModel.Props.C14_closed

set_option linter.unusedSimpArgs false
set_option linter.unusedVariables false

namespace PyGql.Props.C14
open PyGql.Heap PyGql.Heap.Own

/-- healing when every mentioned name is registered: nothing replaced, one round, same heap up to reference addresses -/
theorem heal_exact (cfg : Cfg) (fuel : Nat) (s : Schema) (h : Heap) (r : HealReady h s) :
    ∃ h', healLoop cfg (fuel + 1) s h = some (h', healedRoots s) ∧ NVeq h h' := healLoop_exact cfg fuel s h r

/-- `clone()` of a closed schema = copying phase (`cloneStart`) + an exact healing -/
theorem clone_is_copy_then_exact_heal (cfg : Cfg) (hd : cfg.deepClone = true) (hk : cfg.keepAllTypes = true) (fuel : Nat)
    (s : Schema) (h h' : Heap) (s' : Schema) (hc : closedB h s = true) (hw : wfB h s = true) (e : clone cfg fuel s h = some (h', s')) :
    s'.types = (cloneStart cfg s h).2.types ∧ s'.dirs = (cloneStart cfg s h).2.dirs ∧ NVeq (cloneStart cfg s h).1 h' :=
  clone_exact cfg fuel s h h' s' (cloneStart_ready cfg hd hk s h hc (wfs_of_closedB hc hw)) e

/-- EXACT member lists: the type object registered in the clone has the very member list (same addresses, same order, none
    dropped) of the copy made by `_clone_type`, the same kind, name, and the same interfaces / members BY NAME -/
theorem clone_members_exact (cfg : Cfg) (hd : cfg.deepClone = true) (hk : cfg.keepAllTypes = true) (fuel : Nat)
    (s : Schema) (h h' : Heap) (s' : Schema) (hc : closedB h s = true) (hw : wfB h s = true) (e : clone cfg fuel s h = some (h', s'))
    (a : Addr) (t : TypeO) (ht : (cloneStart cfg s h).1.readType a = some t) :
    ∃ t', h'.readType a = some t' ∧ t'.fields = t.fields ∧ t'.kind = t.kind ∧ t'.name = t.name ∧
      eraseRefs t'.ifaces = eraseRefs t.ifaces ∧ eraseRefs t'.members = eraseRefs t.members := by
  obtain ⟨_, _, n⟩ := clone_is_copy_then_exact_heal cfg hd hk fuel s h h' s' hc hw e
  obtain ⟨t', h1, h2, h3, h4, h5, h6⟩ := nveq_type n ht
  exact ⟨t', h1, h4, h2, h3, h5, h6⟩

/-- … and every field keeps exactly its argument list -/
theorem clone_arguments_exact (cfg : Cfg) (hd : cfg.deepClone = true) (hk : cfg.keepAllTypes = true) (fuel : Nat)
    (s : Schema) (h h' : Heap) (s' : Schema) (hc : closedB h s = true) (hw : wfB h s = true) (e : clone cfg fuel s h = some (h', s'))
    (a : Addr) (f : FieldO) (hf : (cloneStart cfg s h).1.readField a = some f) :
    ∃ f', h'.readField a = some f' ∧ f'.args = f.args ∧ eraseT f'.ty = eraseT f.ty := by
  obtain ⟨_, _, n⟩ := clone_is_copy_then_exact_heal cfg hd hk fuel s h h' s' hc hw e
  obtain ⟨f', h1, h2, h3⟩ := nveq_field n hf
  exact ⟨f', h1, h3, h2⟩

/-- every registered type of the clone has the by-name view of the source's type of the same name -/
theorem clone_types_view (cfg : Cfg) (hd : cfg.deepClone = true) (hk : cfg.keepAllTypes = true) (fuel : Nat)
    (s : Schema) (h h' : Heap) (s' : Schema) (hc : closedB h s = true) (hw : wfB h s = true) (e : clone cfg fuel s h = some (h', s')) :
    ∀ e', e' ∈ s'.types → ∃ e0, e0 ∈ s.types ∧ e0.1 = e'.1 ∧ typeV h' e'.2 = typeV h e0.2 := by
  have w := wfs_of_closedB hc hw
  obtain ⟨et, _, n⟩ := clone_is_copy_then_exact_heal cfg hd hk fuel s h h' s' hc hw e
  rw [et]
  obtain ⟨pt, vt, st, nt⟩ := cloneTypes_ok h.size cfg hd s.types h (inv_self h)
  have growT : ShowsSrc h (cloneTypes cfg h s.types).1 := (ShowsSrc.refl' h).of_pres pt
  have growD : ShowsSrc (cloneTypes cfg h s.types).1 (cloneDirs cfg (cloneTypes cfg h s.types).1 s.dirs).1 :=
    (ShowsSrc.refl' _).of_pres (cloneDirs_ok _ cfg hd s.dirs _ (inv_self _)).1
  have hsub := cloneRegistry_sub cfg s h hc
  have hreadable : ∀ e, e ∈ s.types → ∃ t, h.readType e.2 = some t := by
    intro e he
    obtain ⟨t, ht, _⟩ := (typeShape_iff _ h e.2).mp (w.types e he)
    exact ⟨t, ht⟩
  have hmr : ∀ e, e ∈ s.types → ∀ t, h.readType e.2 = some t → MembersReadable h t :=
    fun e he t ht => membersReadable_of_shape _ h e.2 t ht (w.types e he)
  have hP : ∀ e', e' ∈ (cloneStart cfg s h).2.types → ∃ e0, e0 ∈ s.types ∧ e0.1 = e'.1 ∧ typeV (cloneStart cfg s h).1 e'.2 = typeV h e0.2 := by
    simp only [cloneStart, replaceCore]
    apply replaceTypes_pred cfg (fun e' => ∃ e0, e0 ∈ s.types ∧ e0.1 = e'.1 ∧
      typeV (cloneDirs cfg (cloneTypes cfg h s.types).1 s.dirs).1 e'.2 = typeV h e0.2)
    · intro x hx a' ea
      obtain ⟨e0, he0, hn0, hv⟩ := cloneTypes_view cfg hd h s.types h (ShowsSrc.refl' h) hmr x hx a' ea
      obtain ⟨t0, ht0⟩ := hreadable e0 he0
      obtain ⟨v1, v2⟩ := hv t0 ht0
      exact ⟨e0, he0, hn0, by rw [typeV_of_read ht0]; exact typeV_grow growD v1 v2⟩
    · intro e0 he0
      have hes := hsub e0 he0
      by_cases hp : isProtected e0.1 = true
      · left
        refine ⟨e0, hes, rfl, ?_⟩
        obtain ⟨t0, ht0⟩ := hreadable e0 hes
        have hpl := w.prot e0 hes
        simp only [protLeaf, hp, Bool.not_true, Bool.false_or, ht0, beq_iff_eq] at hpl
        rw [typeV_of_read ht0]
        exact typeV_grow (growT.trans' growD) (typeV_of_read ht0) ⟨by simp [tview, hpl], by simp [tview, hpl]⟩
      · right
        have hnp : isProtected e0.1 = false := by simpa using hp
        obtain ⟨t0, ht0⟩ := hreadable e0 hes
        exact nt e0.1 e0.2 hes hnp (readType_lt' ht0) (by simp [ht0])
  intro e' he'
  obtain ⟨e0, h1, h2, h3⟩ := hP e' he'
  exact ⟨e0, h1, h2, by rw [typeV_nveq n]; exact h3⟩

/-- the value at type name `n` of a by-name dump of the schema: ANY function `F` of the by-name view of the registered type -/
def dumpAt {α : Type} (F : TypeO × List (Option (FieldO × List (Option ArgO))) × List (Option ArgO) → α) (h : Heap) (s : Schema) (n : String) : Option α :=
  (lookup s.types n).bind fun a => (typeV h a).map F

/-- REFINEMENT: a clone and its source have the same by-name dump at every type name, for every interpretation `F` -/
theorem clone_refines {α : Type} (F : TypeO × List (Option (FieldO × List (Option ArgO))) × List (Option ArgO) → α)
    (cfg : Cfg) (hd : cfg.deepClone = true) (hk : cfg.keepAllTypes = true) (fuel : Nat)
    (s : Schema) (h h' : Heap) (s' : Schema) (hc : closedB h s = true) (hw : wfB h s = true) (e : clone cfg fuel s h = some (h', s'))
    (n : String) : dumpAt F h' s' n = dumpAt F h s n := by
  have w := wfs_of_closedB hc hw
  obtain ⟨et, _, _⟩ := clone_is_copy_then_exact_heal cfg hd hk fuel s h h' s' hc hw e
  have hnd' : (s'.types.map (·.1)).Nodup := by
    rw [et]; simp only [cloneStart, replaceCore]
    exact replaceTypes_nodup cfg _ _ _ (cloneRegistry_nodup cfg s h w.nodup)
  have hview := clone_types_view cfg hd hk fuel s h h' s' hc hw e
  simp only [dumpAt]
  cases hl' : lookup s'.types n with
  | some a' =>
    obtain ⟨e0, h1, h2, h3⟩ := hview (n, a') (lookup_mem' hl')
    have hl : lookup s.types n = some e0.2 := by
      have := lookup_of_mem_nodup w.nodup h1
      rw [h2] at this; exact this
    simp only [hl, Option.bind_some, h3]
  | none =>
    cases hl : lookup s.types n with
    | none => rfl
    | some a =>
      exfalso
      have hin : n ∈ regNames s'.types := by
        rw [et]; simp only [cloneStart, replaceCore]
        apply replaceTypes_names cfg _ _ _ (cloneTypes_some cfg s.types h)
        exact lookup_isSome_name (cloneRegistry_lookup cfg hk s h hc w.nodup n a hl)
      have := lookup_isSome_of_name hin
      simp [hl'] at this

/-- the variant in the working tree -/
theorem current_clone_refines {α : Type} (F : TypeO × List (Option (FieldO × List (Option ArgO))) × List (Option ArgO) → α) (fuel : Nat)
    (s : Schema) (h h' : Heap) (s' : Schema) (hc : closedB h s = true) (hw : wfB h s = true)
    (e : clone PyGql.Generated.HeapCfg.currentCfg fuel s h = some (h', s')) (n : String) : dumpAt F h' s' n = dumpAt F h s n :=
  clone_refines F _ cur_deepClone cur_keepAllTypes fuel s h h' s' hc hw e n

/-- SUBSUMED (kept for name stability) by the full `clone_refines_directives` (Props/C14_order.lean), which supplies the piece announced as missing below.
    DIRECTIVES, PARTIAL: the directive objects registered in the clone have the by-name view the copying phase gave them
    (healing changes nothing by name). Missing for the full statement `dirV (clone) = dirV (source)`: that `_clone_directive`'s
    copy has the view of its source (the analogue of `cloneTypes_view` for `cloneDirs`) -/
theorem clone_refines_directives_partial (cfg : Cfg) (hd : cfg.deepClone = true) (hk : cfg.keepAllTypes = true) (fuel : Nat)
    (s : Schema) (h h' : Heap) (s' : Schema) (hc : closedB h s = true) (hw : wfB h s = true) (e : clone cfg fuel s h = some (h', s')) :
    s'.dirs = (cloneStart cfg s h).2.dirs ∧ ∀ a, dirV h' a = dirV (cloneStart cfg s h).1 a := by
  obtain ⟨_, ed, n⟩ := clone_is_copy_then_exact_heal cfg hd hk fuel s h h' s' hc hw e
  exact ⟨ed, fun a => dirV_nveq n a⟩

/-- non-vacuity on the witness schema: the clone exists, and `Pet`'s view in the clone is its view in the source -/
example : (clone Cfg.fixed 8 s0 h0).isSome = true ∧ closedB h0 s0 = true ∧ wfB h0 s0 = true := by decide

end PyGql.Props.C14

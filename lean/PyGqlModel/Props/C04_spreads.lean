/-
  C04 — `exec_refines_spec` for ALL documents whose fragments can be ranked (no fragment cycle), named fragment
  spreads included: whenever the model produces a response, the specification produces the SAME ordered data and an
  error list that agrees error by error on path and kind; the only residue is that the location list of a model
  error is the specification's location list plus REPEATS of locations already in it (`Rep`), which is what the
  `_seen_fragments` rebinding of `collect_fields` causes (a node collected twice into its group).
-/
import PyGqlModel.Lemmas.C04Sim
import PyGqlModel.Props.C04_refine
import PyGqlModel.Lemmas.C04SimErr

set_option linter.unusedSimpArgs false
set_option linter.unusedVariables false

namespace PyGql.Props.C04
open PyGql PyGql.Exec PyGql.Spec PyGql.Lemmas.C04Raise

/-- **collect_refines_spec**: on selection lists equal up to repeated selections, if the model's `collect_fields`
    succeeds then so does the specification's `CollectFields`, with the same response keys in the same order and, key
    by key, the model's node list = the specification's node list plus repeats of nodes already in the group. -/
theorem collect_refines_spec (s : SchemaD) (doc : Doc) (vars : Vars) (rk ek : String → Nat) (B : Nat) (hrk : Ranked doc rk ek B)
    (n : Nat) (obj : String) (selsS selsM : List Sel) (hrep : Rep selsS selsM) (gM : Grouped) (seen' : List String)
    (h : collectFields s doc vars n obj selsM [] = .ok (gM, seen')) :
    ∃ gS v', collectFieldsS s doc vars n obj selsS [] = .ok (gS, v') ∧ GRel gS gM := by
  rw [collectFields_eq_mseq] at h
  cases hm : mseq s doc vars n obj selsM [] with
  | error e => simp [hm, grp] at h
  | ok p =>
    obtain ⟨qM, sM⟩ := p
    simp [hm, grp] at h
    obtain ⟨rfl, rfl⟩ := h
    obtain ⟨qS, V', hs, hr, _⟩ := collect_simulation s doc vars rk ek B hrk n obj selsS selsM (fun _ => False) (fun _ => False)
      (fun _ => False) [] [] (max (selsNeed rk selsM) (selsNeed rk selsS)) qM sM hrep
      (by intro x hx; exact absurd hx (by simp)) (fun _ h => h) (by simp) (by intro F hF; simp at hF)
      (Nat.le_max_left _ _) (Nat.le_max_right _ _) hm
    refine ⟨addSeq [] qS, V', ?_, GRel_of_rep hr⟩
    rw [collectFieldsS_eq_sseq, hs]; rfl

/-- **collect_refines_spec_fail**: on selection lists equal up to repeated selections, if the model's `collect_fields`
    fails with the `CoercionError` of a directive condition that cannot be evaluated (a list literal, a variable bound to
    null), then so does the specification's `CollectFields` — named fragment spreads included. -/
theorem collect_refines_spec_fail (s : SchemaD) (doc : Doc) (vars : Vars) (rk ek : String → Nat) (B : Nat) (hrk : Ranked doc rk ek B)
    (n : Nat) (obj : String) (selsS selsM : List Sel) (hrep : Rep selsS selsM)
    (h : collectFields s doc vars n obj selsM [] = .error (.internal "CoercionError")) :
    collectFieldsS s doc vars n obj selsS [] = .error (.internal "CoercionError") := by
  rw [collectFields_eq_mseq] at h
  cases hm : mseq s doc vars n obj selsM [] with
  | ok p => simp [hm, grp] at h
  | error e =>
    simp [hm, grp] at h
    subst h
    have hs := collect_simulation_fail s doc vars rk ek B hrk n obj selsS selsM (fun _ => False) (fun _ => False) [] []
      (max (selsNeed rk selsM) (selsNeed rk selsS)) hrep
      (by intro x hx; exact absurd hx (by simp)) (by intro x hx; exact absurd hx (by simp)) (by simp)
      (by intro F hF; simp at hF) (by intro F hF; simp at hF)
      (Nat.le_max_left _ _) (Nat.le_max_right _ _) hm
    rw [collectFieldsS_eq_sseq, hs]; rfl

/-! ### lifting through the executor -/

/-- the same error up to repeated locations -/
def ErrSim (eS eM : Err) : Prop := eS.path = eM.path ∧ eS.kind = eM.kind ∧ Rep eS.locs eM.locs

inductive ErrsSim : List Err → List Err → Prop
  | nil : ErrsSim [] []
  | cons {a b as bs} : ErrSim a b → ErrsSim as bs → ErrsSim (a :: as) (b :: bs)

theorem ErrsSim.append {a1 b1 a2 b2 : List Err} (h1 : ErrsSim a1 b1) (h2 : ErrsSim a2 b2) : ErrsSim (a1 ++ a2) (b1 ++ b2) := by
  induction h1 with
  | nil => simpa
  | cons h _ ih => exact .cons h ih

theorem ErrsSim.refl (es : List Err) : ErrsSim es es := by
  induction es with
  | nil => exact .nil
  | cons e es ih => exact .cons ⟨rfl, rfl, Rep.refl _⟩ ih

abbrev ExecFn := String → Path → List Sel → R (Data × List Err)

/-- the model's recursive executor is simulated by the specification's on inputs equal up to repeats: a `ResolverError`
    of its own (its selection set cannot be collected) is the specification's, and its results are the specification's -/
def ExecSim (e eS : ExecFn) : Prop :=
  ∀ rt p selsS selsM, Rep selsS selsM →
    (∀ k l i, e rt p selsM = .error (.raised k l i) → eS rt p selsS = .error (.raised k l i)) ∧
    ∀ d es, e rt p selsM = .ok (d, es) → ∃ esS, eS rt p selsS = .ok (d, esS) ∧ ErrsSim esS es

/-- simulation of one completion step, for both ways it can end -/
def StepSim (f fS : Path → RVal → R (Data × List Err)) : Prop :=
  (∀ p v d es, f p v = .ok (d, es) → ∃ esS, fS p v = .ok (d, esS) ∧ ErrsSim esS es) ∧
  (∀ p v k l i, f p v = .error (.raised k l i) → ∃ iS, fS p v = .error (.raised k l iS) ∧ ErrsSim iS i)

private theorem completeList_sim (f fS : Path → RVal → R (Data × List Err))
    (hf : ∀ p v d es, f p v = .ok (d, es) → ∃ esS, fS p v = .ok (d, esS) ∧ ErrsSim esS es) (path : Path) :
    ∀ (vs : List RVal) (i : Nat) (ds : List Data) (es : List Err), completeList f path i vs = .ok (ds, es) →
      ∃ esS, completeListS fS path i vs = .ok (ds, esS) ∧ ErrsSim esS es := by
  intro vs
  induction vs with
  | nil => intro i ds es h; simp [completeList] at h; obtain ⟨rfl, rfl⟩ := h; exact ⟨[], by simp [completeListS], .nil⟩
  | cons v rest ih =>
    intro i ds es h
    simp only [completeList, bind, Except.bind, pure, Except.pure] at h
    cases h1 : f (path ++ [Seg.idx i]) v with
    | error e => simp [h1] at h
    | ok p1 =>
      obtain ⟨d1, e1⟩ := p1
      simp only [h1] at h
      cases h2 : completeList f path (i + 1) rest with
      | error e => simp [h2] at h
      | ok p2 =>
        obtain ⟨ds2, e2⟩ := p2
        simp [h2] at h
        obtain ⟨rfl, rfl⟩ := h
        obtain ⟨s1, hs1, hr1⟩ := hf _ _ _ _ h1
        obtain ⟨s2, hs2, hr2⟩ := ih _ _ _ h2
        exact ⟨s1 ++ s2, by simp [completeListS, bind, Except.bind, pure, Except.pure, hs1, hs2], hr1.append hr2⟩

/-- an interrupted list is interrupted at the same item in the specification, with the same errors kept -/
private theorem completeList_simR (f fS : Path → RVal → R (Data × List Err)) (hf : StepSim f fS) (path : Path) :
    ∀ (vs : List RVal) (i : Nat) (k : ErrKind) (l : Option (List Nat)) (inner : List Err),
      completeList f path i vs = .error (.raised k l inner) →
      ∃ iS, completeListS fS path i vs = .error (.raised k l iS) ∧ ErrsSim iS inner := by
  intro vs
  induction vs with
  | nil => intro i k l inner h; simp [completeList] at h
  | cons v rest ih =>
    intro i k l inner h
    simp only [completeList, bind, Except.bind, pure, Except.pure] at h
    cases h1 : f (path ++ [Seg.idx i]) v with
    | error e =>
      simp [h1] at h
      subst h
      obtain ⟨iS, hs, hr⟩ := hf.2 _ _ _ _ _ h1
      exact ⟨iS, by simp [completeListS, bind, Except.bind, hs], hr⟩
    | ok p1 =>
      obtain ⟨d1, e1⟩ := p1
      simp only [h1] at h
      obtain ⟨s1, hs1, hr1⟩ := hf.1 _ _ _ _ h1
      cases h2 : completeList f path (i + 1) rest with
      | ok p2 => simp [h2] at h
      | error e =>
        cases e with
        | raised k' l' i' =>
          simp [h2] at h
          obtain ⟨rfl, rfl, rfl⟩ := h
          obtain ⟨s2, hs2, hr2⟩ := ih _ _ _ _ h2
          exact ⟨s1 ++ s2, by simp [completeListS, bind, Except.bind, pure, Except.pure, hs1, hs2], hr1.append hr2⟩
        | internal c => simp [h2] at h
        | outOfFuel => simp [h2] at h
        | unsupported => simp [h2] at h

private theorem completeValue_sim (s : SchemaD) (e eS : ExecFn) (he : ExecSim e eS) (nodesS nodesM : List FNode)
    (hn : Rep nodesS nodesM) :
    ∀ (t : Ty) (path : Path) (v : RVal) (d : Data) (es : List Err), completeValue s e nodesM t path v = .ok (d, es) →
      ∃ esS, completeValueS s eS nodesS t path v = .ok (d, esS) ∧ ErrsSim esS es := by
  have hmerged : Rep (mergeSelectionSets nodesS) (mergedSelections nodesM) := by
    unfold mergeSelectionSets mergedSelections
    exact hn.flatMap _
  have sub : ∀ rt path d es, e rt path (mergedSelections nodesM) = .ok (d, es) →
      ∃ esS, eS rt path (mergeSelectionSets nodesS) = .ok (d, esS) ∧ ErrsSim esS es :=
    fun rt path d es h => (he rt path _ _ hmerged).2 d es h
  intro t
  induction t with
  | nonNull t ih =>
    intro path v d es h
    simp only [completeValue, bind, Except.bind, pure, Except.pure] at h
    cases h1 : completeValue s e nodesM t path v with
    | error er => simp [h1] at h
    | ok p =>
      obtain ⟨d1, e1⟩ := p
      simp only [h1] at h
      obtain ⟨s1, hs1, hr1⟩ := ih path v d1 e1 h1
      by_cases hd : d1.isNull
      · simp [hd] at h
        obtain ⟨rfl, rfl⟩ := h
        refine ⟨s1 ++ [{ path := path, locs := nodesS.map (·.loc), kind := .nonnull }],
          by simp [completeValueS, bind, Except.bind, pure, Except.pure, hs1, hd], hr1.append (.cons ⟨rfl, rfl, ?_⟩ .nil)⟩
        exact hn.map _
      · simp [hd] at h
        obtain ⟨rfl, rfl⟩ := h
        exact ⟨s1, by simp [completeValueS, bind, Except.bind, pure, Except.pure, hs1, hd], hr1⟩
  | list t ih =>
    intro path v d es h
    cases v with
    | null => simp [completeValue] at h; obtain ⟨rfl, rfl⟩ := h; exact ⟨[], by simp [completeValueS], .nil⟩
    | leaf j => cases j <;> simp [completeValue] at h
    | obj rt => simp [completeValue] at h
    | raise vs msg ext =>
      simp only [completeValue] at h
      cases h1 : completeList (completeValue s e nodesM t) path 0 vs with
      | error er => simp [h1] at h
      | ok p => simp [h1] at h
    | list vs =>
      simp only [completeValue, bind, Except.bind, pure, Except.pure] at h
      cases h1 : completeList (completeValue s e nodesM t) path 0 vs with
      | error er => simp [h1] at h
      | ok p =>
        obtain ⟨ds, e1⟩ := p
        simp [h1] at h
        obtain ⟨rfl, rfl⟩ := h
        obtain ⟨s1, hs1, hr1⟩ := completeList_sim _ _ (fun p v d es hh => ih p v d es hh) path vs 0 ds e1 h1
        exact ⟨s1, by simp [completeValueS, bind, Except.bind, pure, Except.pure, hs1], hr1⟩
  | named n =>
    intro path v d es h
    cases v with
    | null => simp [completeValue] at h; obtain ⟨rfl, rfl⟩ := h; exact ⟨[], by simp [completeValueS], .nil⟩
    | leaf j =>
      simp only [completeValue] at h
      cases hk : kindOf s n with
      | none => simp [hk] at h
      | some k =>
        cases k with
        | object =>
          simp only [hk] at h
          obtain ⟨s1, hs1, hr1⟩ := sub _ _ _ _ h
          exact ⟨s1, by simp [completeValueS, hk, hs1], hr1⟩
        | scalar =>
          simp only [hk] at h
          cases hs : serializeLeaf s n j with
          | none => simp [hs] at h
          | some r => simp [hs] at h; obtain ⟨rfl, rfl⟩ := h; exact ⟨[], by simp [completeValueS, hk, hs], .nil⟩
        | enum =>
          simp only [hk] at h
          cases hs : serializeLeaf s n j with
          | none => simp [hs] at h
          | some r => simp [hs] at h; obtain ⟨rfl, rfl⟩ := h; exact ⟨[], by simp [completeValueS, hk, hs], .nil⟩
        | _ => simp [hk] at h
    | list vs =>
      simp only [completeValue] at h
      cases hk : kindOf s n with
      | none => simp [hk] at h
      | some k =>
        cases k with
        | object =>
          simp only [hk] at h
          obtain ⟨s1, hs1, hr1⟩ := sub _ _ _ _ h
          exact ⟨s1, by simp [completeValueS, hk, hs1], hr1⟩
        | _ => simp [hk] at h
    | raise vs msg ext =>
      simp only [completeValue] at h
      cases hk : kindOf s n with
      | none => simp [hk] at h
      | some k =>
        cases k with
        | object =>
          simp only [hk] at h
          obtain ⟨s1, hs1, hr1⟩ := sub _ _ _ _ h
          exact ⟨s1, by simp [completeValueS, hk, hs1], hr1⟩
        | _ => simp [hk] at h
    | obj rt =>
      simp only [completeValue] at h
      cases hk : kindOf s n with
      | none => simp [hk] at h
      | some k =>
        cases k with
        | object =>
          simp only [hk] at h
          obtain ⟨s1, hs1, hr1⟩ := sub _ _ _ _ h
          exact ⟨s1, by simp [completeValueS, hk, hs1], hr1⟩
        | scalar => simp [hk] at h
        | enum => simp [hk] at h
        | input => simp [hk] at h
        | interface =>
          simp only [hk] at h
          cases hr : kindOf s rt with
          | none => simp [hr] at h
          | some k2 =>
            cases k2 with
            | object =>
              simp only [hr] at h
              by_cases hp : isPossibleType s n rt
              · simp only [hp, if_true] at h
                obtain ⟨s1, hs1, hr1⟩ := sub _ _ _ _ h
                exact ⟨s1, by simp [completeValueS, hk, hr, hp, hs1], hr1⟩
              · simp [hp] at h
            | _ => simp [hr] at h
        | union =>
          simp only [hk] at h
          cases hr : kindOf s rt with
          | none => simp [hr] at h
          | some k2 =>
            cases k2 with
            | object =>
              simp only [hr] at h
              by_cases hp : isPossibleType s n rt
              · simp only [hp, if_true] at h
                obtain ⟨s1, hs1, hr1⟩ := sub _ _ _ _ h
                exact ⟨s1, by simp [completeValueS, hk, hr, hp, hs1], hr1⟩
              · simp [hp] at h
            | _ => simp [hr] at h

/-- `complete_value` interrupted by a `ResolverError` (a lazy iterable or `resolve_type` raising): the specification is
    interrupted the same way and keeps the same errors -/
private theorem completeValue_simR (s : SchemaD) (e eS : ExecFn) (he : ExecSim e eS) (nodesS nodesM : List FNode)
    (hn : Rep nodesS nodesM) :
    ∀ (t : Ty) (path : Path) (v : RVal) (k : ErrKind) (l : Option (List Nat)) (inner : List Err),
      completeValue s e nodesM t path v = .error (.raised k l inner) →
      ∃ iS, completeValueS s eS nodesS t path v = .error (.raised k l iS) ∧ ErrsSim iS inner := by
  have hmerged : Rep (mergeSelectionSets nodesS) (mergedSelections nodesM) := by
    unfold mergeSelectionSets mergedSelections
    exact hn.flatMap _
  have sub : ∀ rt path k l i, e rt path (mergedSelections nodesM) = .error (.raised k l i) →
      eS rt path (mergeSelectionSets nodesS) = .error (.raised k l i) :=
    fun rt path k l i => (he rt path _ _ hmerged).1 k l i
  intro t
  induction t with
  | nonNull t ih =>
    intro path v k l inner h
    simp only [completeValue, bind, Except.bind, pure, Except.pure] at h
    cases h1 : completeValue s e nodesM t path v with
    | error er =>
      simp [h1] at h
      subst h
      obtain ⟨iS, hs, hr⟩ := ih path v k l inner h1
      exact ⟨iS, by simp [completeValueS, bind, Except.bind, hs], hr⟩
    | ok p => simp only [h1] at h; split at h <;> simp at h
  | list t ih =>
    intro path v k l inner h
    have hstep : StepSim (completeValue s e nodesM t) (completeValueS s eS nodesS t) :=
      ⟨fun p v d es hh => completeValue_sim s e eS he nodesS nodesM hn t p v d es hh, fun p v k l i hh => ih p v k l i hh⟩
    cases v with
    | null => simp [completeValue] at h
    | leaf j => cases j <;> simp [completeValue] at h
    | obj rt => simp [completeValue] at h
    | raise vs msg ext =>
      simp only [completeValue] at h
      cases h1 : completeList (completeValue s e nodesM t) path 0 vs with
      | error er =>
        simp [h1] at h
        subst h
        obtain ⟨iS, hs, hr⟩ := completeList_simR _ _ hstep path vs 0 k l inner h1
        exact ⟨iS, by simp [completeValueS, hs], hr⟩
      | ok p =>
        obtain ⟨ds, e1⟩ := p
        simp [h1] at h
        obtain ⟨rfl, rfl, rfl⟩ := h
        obtain ⟨s1, hs1, hr1⟩ := completeList_sim _ _ hstep.1 path vs 0 ds e1 h1
        exact ⟨s1, by simp [completeValueS, hs1], hr1⟩
    | list vs =>
      simp only [completeValue, bind, Except.bind, pure, Except.pure] at h
      cases h1 : completeList (completeValue s e nodesM t) path 0 vs with
      | error er =>
        simp [h1] at h
        subst h
        obtain ⟨iS, hs, hr⟩ := completeList_simR _ _ hstep path vs 0 k l inner h1
        exact ⟨iS, by simp [completeValueS, bind, Except.bind, hs], hr⟩
      | ok p => simp [h1] at h
  | named n =>
    intro path v k l inner h
    cases v with
    | null => simp [completeValue] at h
    | leaf j =>
      simp only [completeValue] at h
      cases hk : kindOf s n with
      | none => simp [hk] at h
      | some kd =>
        cases kd with
        | object => simp only [hk] at h; exact ⟨inner, by simp [completeValueS, hk, sub _ _ _ _ _ h], ErrsSim.refl _⟩
        | scalar => simp only [hk] at h; split at h <;> simp at h
        | enum => simp only [hk] at h; split at h <;> simp at h
        | _ => simp [hk] at h
    | list vs =>
      simp only [completeValue] at h
      cases hk : kindOf s n with
      | none => simp [hk] at h
      | some kd =>
        cases kd with
        | object => simp only [hk] at h; exact ⟨inner, by simp [completeValueS, hk, sub _ _ _ _ _ h], ErrsSim.refl _⟩
        | _ => simp [hk] at h
    | raise vs msg ext =>
      simp only [completeValue] at h
      cases hk : kindOf s n with
      | none => simp [hk] at h
      | some kd =>
        cases kd with
        | object => simp only [hk] at h; exact ⟨inner, by simp [completeValueS, hk, sub _ _ _ _ _ h], ErrsSim.refl _⟩
        | interface =>
          simp [hk] at h
          obtain ⟨rfl, rfl, rfl⟩ := h
          exact ⟨[], by simp [completeValueS, hk], .nil⟩
        | union =>
          simp [hk] at h
          obtain ⟨rfl, rfl, rfl⟩ := h
          exact ⟨[], by simp [completeValueS, hk], .nil⟩
        | _ => simp [hk] at h
    | obj rt =>
      simp only [completeValue] at h
      cases hk : kindOf s n with
      | none => simp [hk] at h
      | some kd =>
        cases kd with
        | object => simp only [hk] at h; exact ⟨inner, by simp [completeValueS, hk, sub _ _ _ _ _ h], ErrsSim.refl _⟩
        | scalar => simp [hk] at h
        | enum => simp [hk] at h
        | input => simp [hk] at h
        | interface =>
          simp only [hk] at h
          cases hr : kindOf s rt with
          | none => simp [hr] at h
          | some k2 =>
            cases k2 with
            | object =>
              simp only [hr] at h
              by_cases hp : isPossibleType s n rt
              · simp only [hp, if_true] at h
                exact ⟨inner, by simp [completeValueS, hk, hr, hp, sub _ _ _ _ _ h], ErrsSim.refl _⟩
              · simp [hp] at h
            | _ => simp [hr] at h
        | union =>
          simp only [hk] at h
          cases hr : kindOf s rt with
          | none => simp [hr] at h
          | some k2 =>
            cases k2 with
            | object =>
              simp only [hr] at h
              by_cases hp : isPossibleType s n rt
              · simp only [hp, if_true] at h
                exact ⟨inner, by simp [completeValueS, hk, hr, hp, sub _ _ _ _ _ h], ErrsSim.refl _⟩
              · simp [hp] at h
            | _ => simp [hr] at h

private theorem executeGroups_sim (s : SchemaD) (w : World) (e eS : ExecFn) (he : ExecSim e eS) (parent : String) (path : Path) :
    ∀ (gS gM : Grouped), GRel gS gM → ∀ (kvs : List (String × Data)) (es : List Err),
      executeGroups s w e parent path gM = .ok (kvs, es) →
      ∃ esS, executeGroupsS s w eS parent path gS = .ok (kvs, esS) ∧ ErrsSim esS es := by
  intro gS gM hrel
  induction hrel with
  | nil => intro kvs es h; simp [executeGroups] at h; obtain ⟨rfl, rfl⟩ := h; exact ⟨[], by simp [executeGroupsS], .nil⟩
  | @cons key ss ms gS' gM' hr hrest ih =>
    intro kvs es h
    cases ms with
    | nil => simp [executeGroups] at h
    | cons node more =>
      cases ss with
      | nil => exact absurd (Rep.nil_right hr) (by simp)
      | cons nodeS moreS =>
        obtain ⟨ys, hys⟩ := Rep.head hr
        simp at hys
        obtain ⟨rfl, rfl⟩ := hys
        simp only [executeGroups] at h
        simp only [executeGroupsS]
        by_cases hm : isMeta node.name
        · simp only [hm, if_true] at h ⊢
          by_cases ht : node.name = "__typename"
          · simp only [ht, beq_self_eq_true, if_true, bind, Except.bind, pure, Except.pure] at h ⊢
            cases hrr : executeGroups s w e parent path gM' with
            | error er => simp [hrr] at h
            | ok p =>
              simp [hrr] at h
              obtain ⟨rfl, rfl⟩ := h
              obtain ⟨s2, hs2, hr2⟩ := ih _ _ hrr
              exact ⟨s2, by simp [hs2], hr2⟩
          · have : (node.name == "__typename") = false := by simpa using ht
            simp only [this, Bool.false_eq_true, if_false] at h
            split at h <;> simp at h
        · simp only [hm, Bool.false_eq_true, if_false] at h ⊢
          cases hf : fieldOf s parent node.name with
          | none => simp only [hf] at h ⊢; exact ih _ _ h
          | some fd =>
            simp only [hf, bind, Except.bind, pure, Except.pure] at h ⊢
            cases hr1 : resolveField s w e parent (path ++ [Seg.key key]) (node :: more) fd with
            | error er => simp [hr1] at h
            | ok pd =>
              obtain ⟨d1, e1⟩ := pd
              simp only [hr1] at h
              cases hrr : executeGroups s w e parent path gM' with
              | error er => simp [hrr] at h
              | ok p =>
                simp [hrr] at h
                obtain ⟨rfl, rfl⟩ := h
                obtain ⟨s2, hs2, hr2⟩ := ih _ _ hrr
                have hfield : ∃ s1, executeFieldS s w eS parent (path ++ [Seg.key key]) (node :: moreS) fd = .ok (d1, s1) ∧ ErrsSim s1 e1 := by
                  simp only [resolveField] at hr1
                  simp only [executeFieldS]
                  split at hr1
                  · rename_i heq; simp at hr1; obtain ⟨rfl, rfl⟩ := hr1; exact ⟨_, by simp [heq], ErrsSim.refl _⟩
                  · rename_i heq; simp at hr1; obtain ⟨rfl, rfl⟩ := hr1; exact ⟨_, by simp [heq], ErrsSim.refl _⟩
                  · rename_i a heq
                    simp only [heq]
                    split at hr1
                    · rename_i hw; simp at hr1; obtain ⟨rfl, rfl⟩ := hr1; exact ⟨_, by simp [hw], ErrsSim.refl _⟩
                    · simp at hr1
                    · rename_i v hw
                      simp only [hw]
                      rcases catchField_eq_ok _ _ _ _ _ hr1 with hr1 | ⟨k, l, i, hc, rfl, rfl⟩
                      · obtain ⟨s1, hs1, hrr1⟩ := completeValue_sim s e eS he (node :: moreS) (node :: more) hr fd.type _ v d1 e1 hr1
                        exact ⟨s1, by simp [hs1], hrr1⟩
                      · obtain ⟨iS, hs1, hrr1⟩ := completeValue_simR s e eS he (node :: moreS) (node :: more) hr fd.type _ v k l i hc
                        exact ⟨_, by simp [hs1], hrr1.append (ErrsSim.refl _)⟩
                obtain ⟨s1, hs1, hrr1⟩ := hfield
                exact ⟨s1 ++ s2, by simp [hs1, hs2], hrr1.append hr2⟩

/-- the executor model is simulated by the specification's executor at every fuel -/
theorem executeFields_sim (s : SchemaD) (doc : Doc) (vars : Vars) (w : World) (rk ek : String → Nat) (B : Nat) (hrk : Ranked doc rk ek B)
    (cf : Nat) : ∀ fuel : Nat, ExecSim (executeFields s doc vars w cf fuel) (executeSelectionSetS s doc vars w cf fuel) := by
  intro fuel
  induction fuel with
  | zero =>
    intro rt p selsS selsM _
    exact ⟨by intro k l i h; simp [executeFields] at h, by intro d es h; simp [executeFields] at h⟩
  | succ n ih =>
    intro rt p selsS selsM hrep
    refine ⟨?_, ?_⟩
    · -- the selection set cannot be collected: a directive condition that cannot be evaluated, on both sides
      intro k l i h
      obtain ⟨rfl, rfl, rfl, hc⟩ := executeFields_raised s doc vars w cf (n + 1) rt p selsM k l i h
      have hs := collect_refines_spec_fail s doc vars rk ek B hrk cf rt selsS selsM hrep hc
      simp [executeSelectionSetS, bind, Except.bind, hs, Fail.directive]
    · intro d es h
      simp only [executeFields, bind, Except.bind, pure, Except.pure] at h
      cases h1 : collectFields s doc vars cf rt selsM [] with
      | error er => simp [h1] at h
      | ok p1 =>
        obtain ⟨gM, seen'⟩ := p1
        simp only [h1, catchDirective_ok] at h
        obtain ⟨gS, v', hsS, hrel⟩ := collect_refines_spec s doc vars rk ek B hrk cf rt selsS selsM hrep gM seen' h1
        cases h2 : executeGroups s w (executeFields s doc vars w cf n) rt p gM with
        | error er => simp [h2] at h
        | ok p2 =>
          simp [h2] at h
          obtain ⟨rfl, rfl⟩ := h
          obtain ⟨esS, hsG, hrr⟩ := executeGroups_sim s w _ _ ih rt p gS gM hrel _ _ h2
          exact ⟨esS, by simp [executeSelectionSetS, bind, Except.bind, pure, Except.pure, hsS, hsG], hrr⟩

/-- The refinement statement for ALL documents (named fragment spreads included): same ordered data; errors agree one
    by one on response path and kind; model locations = specification locations plus repeats. -/
def ExecRefinesSpecUpToLocations (s : SchemaD) (doc : Doc) (vars : Vars) (w : World) (cf fuel : Nat) (root : String) (path : Path)
    (sels : List Sel) : Prop :=
  ∀ d es, executeFields s doc vars w cf fuel root path sels = .ok (d, es) →
    ∃ es', executeSelectionSetS s doc vars w cf fuel root path sels = .ok (d, es') ∧ ErrsSim es' es

/-- **exec_refines_spec**: for every schema, every document whose fragments can be ranked (no fragment cycle — implied
    by the certificate `rankedB`, `ranked_of_rankedB`), every variables, every world — including iterables and
    `resolve_type`s that raise `ResolverError` while a value is completed (7b8e151) — every fuel and every selection set
    (fields, aliases, directives, inline fragments AND named fragment spreads; `@skip`/`@include` conditions that cannot be
    evaluated at run time included: model and specification fail at the same selection set with the same single error,
    `collect_refines_spec_fail`): the executor model refines the specification's algorithm. Residue, stated exactly by
    `ErrSim`: the `locations` of an error may repeat locations already listed. -/
theorem exec_refines_spec (s : SchemaD) (doc : Doc) (vars : Vars) (w : World) (rk ek : String → Nat) (B : Nat) (hrk : Ranked doc rk ek B)
    (cf fuel : Nat) (root : String) (path : Path) (sels : List Sel) :
    ExecRefinesSpecUpToLocations s doc vars w cf fuel root path sels :=
  fun d es h => ((executeFields_sim s doc vars w rk ek B hrk cf fuel) root path sels sels (Rep.refl _)).2 d es h

/-- the ROOT selection set: when the model answers `data = null` with the single directive error, so does the specification -/
theorem exec_refines_spec_root_failure (s : SchemaD) (doc : Doc) (vars : Vars) (w : World) (rk ek : String → Nat) (B : Nat)
    (hrk : Ranked doc rk ek B) (cf fuel : Nat) (root : String) (path : Path) (sels : List Sel) (k : ErrKind) (l : Option (List Nat))
    (i : List Err) (h : executeFields s doc vars w cf fuel root path sels = .error (.raised k l i)) :
    executeSelectionSetS s doc vars w cf fuel root path sels = .error (.raised k l i) :=
  ((executeFields_sim s doc vars w rk ek B hrk cf fuel) root path sels sels (Rep.refl _)).1 k l i h


/-- the same, from the decidable certificate that the driver evaluates on every accepted document -/
theorem exec_refines_spec_certified (s : SchemaD) (doc : Doc) (vars : Vars) (w : World) (h : rankedB doc = true)
    (cf fuel : Nat) (root : String) (path : Path) (sels : List Sel) :
    ExecRefinesSpecUpToLocations s doc vars w cf fuel root path sels :=
  exec_refines_spec s doc vars w _ _ _ (ranked_of_rankedB doc h).1 cf fuel root path sels

/-- non-vacuity: the quirk witness `{ ... on Query { ...F } ...F }  fragment F on Query { a }` is certified, the model
    DOES respond on it, and the theorem applies -/
example : rankedB qDoc = true := by decide
example : (match executeFields qSchema qDoc [] constWorld 5 5 "Query" []
    [.inline (some "Query") [] [.spread "F" []], .spread "F" []] with | .ok _ => true | .error _ => false) = true := by decide

end PyGql.Props.C04

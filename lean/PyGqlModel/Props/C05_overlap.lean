/-
  C05 — `MergeSafe` IS NO LONGER A HYPOTHESIS: it follows from the clause of 5.3.2 "Field selection merging"
  (`Validate.Spec.overlappingFieldsCanBeMerged`), which the memoised OverlappingFieldsCanBeMerged visitor /repo runs
  establishes when it is silent (`C06.rule_overlapping_fields_memo_iff_wf`).

    `mergeSafe_of_clause`              clause of 5.3.2 on `d`  ⇒  `MergeSafe s (eDoc s env d)`
    `mergeSafe_of_silent`              memoised rule silent (+ the clauses of the other rules)  ⇒  `MergeSafe`
    `accepted_cannot_go_wrong_merged`  all 26 rule visitors silent (overlap: the memoised search) ⇒ no internal exception,
                                       WITHOUT the hypothesis `MergeSafe`

  Proof. (1) scope correspondence (`Lemmas/C05MergeScope.lean: scope_coll`): every field of an executor-side scope is a
  field the validator's search collects for the corresponding selection set, same parent type / response name / name /
  argument nodes / sub-selection. (2) `_same_arguments` on argument lists with distinct names gives the same coerced
  keyword arguments (`Lemmas/C05MergeArgs.lean: argsTable_of_sameArguments`). (3) overlapping parents are not "mutually
  exclusive" (`not_exclusive_of_overlap`), so `¬ Conf` gives name and argument equality, and - through `Conf.sub` /
  `Conf.subSwap` - `¬ Conf` for every two fields of the two sub-selections; two fields of ONE sub-selection are covered
  by the clause at that selection set. (4) `_types_conflict = false` on output types is `sameShape`. (5) termination
  measure: `selsDepth ek` of C04's `Ranked` (a field of a scope sits strictly deeper than the scope: `inScope_depth`).

  New hypotheses, all outside the overlap rule: aliases are not empty (parser), only object / interface types carry
  fields (schema dump), UniqueArgumentNames' clause (another silent rule), `ValidDocR` and `Ranked` (other silent rules:
  `rules_accept_validDocR`, `rules_accept_ranked`).
-/
import PyGqlModel.Lemmas.C05MergeScope
import PyGqlModel.Props.C06_overlap_memo_complete
import PyGqlModel.Props.C06_head_memo
import PyGqlModel.Spec.SchemaChecks

set_option linter.unusedSimpArgs false
set_option linter.unusedVariables false

namespace PyGql.Props.C05
open PyGql
open PyGql.Validate (Node Arg AL)
open PyGql.Validate.Spec (SelSet Adm Coll CollD CollF SpreadD Conf nodes selNodes selsNodes)

/-! ### the termination measure -/

private theorem selDepth_le_of_mem (ek : String → Nat) : ∀ (xs : List Exec.Sel) (x : Exec.Sel), x ∈ xs →
    Spec.selDepth ek x ≤ Spec.selsDepth ek xs
  | [], _, h => by simp at h
  | y :: ys, x, h => by
    simp only [List.mem_cons] at h
    simp only [Spec.selsDepth]
    rcases h with rfl | h
    · omega
    · have := selDepth_le_of_mem ek ys x h; omega

private theorem selsDepth_append (ek : String → Nat) : ∀ (a b : List Exec.Sel),
    Spec.selsDepth ek (a ++ b) = max (Spec.selsDepth ek a) (Spec.selsDepth ek b)
  | [], b => by simp [Spec.selsDepth]
  | x :: xs, b => by simp only [List.cons_append, Spec.selsDepth, selsDepth_append ek xs b]; omega

/-- a field of a scope sits strictly deeper than the scope (spreads: by the rank of the fragment) -/
private theorem inScope_depth {doc : Exec.Doc} {rk ek : String → Nat} {B : Nat} (hr : C04.Ranked doc rk ek B)
    {L : Spec.TSels} {x : String × Exec.FNode} (h : InScope doc L x) :
    Spec.selsDepth ek x.2.sub + 1 ≤ Spec.selsDepth ek (L.map (·.2)) := by
  induction h with
  | @field L T key name loc dirs args hs sub hm =>
    have hm' : Exec.Sel.field key name loc dirs args hs sub ∈ L.map (·.2) := List.mem_map.mpr ⟨_, hm, rfl⟩
    have := selDepth_le_of_mem ek _ _ hm'
    simp only [Spec.selDepth] at this
    simp only
    omega
  | @inline L T on dirs sub x hm _ ih =>
    have hm' : Exec.Sel.inline on dirs sub ∈ L.map (·.2) := List.mem_map.mpr ⟨_, hm, rfl⟩
    have := selDepth_le_of_mem ek _ _ hm'
    simp only [Spec.selDepth] at this
    rw [tag_map_snd] at ih
    omega
  | @spread L T name dirs fr x hm hf _ ih =>
    have hm' : Exec.Sel.spread name dirs ∈ L.map (·.2) := List.mem_map.mpr ⟨_, hm, rfl⟩
    have := selDepth_le_of_mem ek _ _ hm'
    simp only [Spec.selDepth] at this
    rw [tag_map_snd] at ih
    have := hr.exec name fr hf
    omega

private theorem typedSub_depth (s : SchemaD) (ek : String → Nat) (P : String) (n : Exec.FNode) :
    Spec.selsDepth ek ((Spec.typedSub s P n).map (·.2)) ≤ Spec.selsDepth ek n.sub := by
  unfold Spec.typedSub
  split
  · rw [tag_map_snd]; exact Nat.le_refl _
  · simp [Spec.selsDepth]

/-! ### overlapping parents are not mutually exclusive -/

private theorem possibleTypes_object (s : SchemaD) (P : String) (h : Validate.isObject s P = true) : Exec.possibleTypes s P = [] := by
  unfold Validate.isObject Validate.kindOf at h
  unfold Exec.possibleTypes
  cases hf : s.findType P with
  | none => rfl
  | some t =>
    simp only [hf, Option.map_some, beq_iff_eq, Option.some.injEq] at h
    simp [h]

theorem not_exclusive_of_overlap (s : SchemaD) (e1 e2 : Validate.FEntry) (P1 P2 : String) (h1 : e1.parent = some P1)
    (h2 : e2.parent = some P2) (ho : Overlap s P1 P2) : Validate.Spec.exclusiveParents s e1 e2 = false := by
  rw [Bool.eq_false_iff]
  intro h
  simp only [Validate.Spec.exclusiveParents, h1, h2, Bool.and_eq_true, bne_iff_ne, ne_eq, Option.some.injEq] at h
  obtain ⟨⟨hne, ho1⟩, ho2⟩ := h
  exact hne (overlap_not_exclusive s P1 P2 ho (possibleTypes_object s P1 ho1) (possibleTypes_object s P2 ho2))

/-! ### response shapes -/

/-- an output type: its base is a leaf or a composite type of the schema -/
private def OutTy (s : SchemaD) (t : Ty) : Prop := Validate.isLeaf s t.base = true ∨ Validate.isComposite s t.base = true

private theorem shape_of_noConflict (s : SchemaD) : ∀ t u : Ty, Validate.typesConflict s t u = false → OutTy s t → OutTy s u →
    Spec.sameShape s t u = true
  | .named a, .named b, h, ha, hb => by
    simp only [Validate.typesConflict] at h
    simp only [Spec.sameShape, Bool.or_eq_true, beq_iff_eq, Bool.and_eq_true]
    by_cases hl : (Validate.isLeaf s a || Validate.isLeaf s b) = true
    · simp only [hl, if_true] at h
      left; simpa using h
    · right
      simp only [Bool.or_eq_true, not_or] at hl
      refine ⟨isComposite_compat s a ?_, isComposite_compat s b ?_⟩
      · rcases ha with ha | ha
        · exact absurd ha hl.1
        · exact ha
      · rcases hb with hb | hb
        · exact absurd hb hl.2
        · exact hb
  | .list a, .list b, h, ha, hb => by
    simp only [Validate.typesConflict] at h
    simp only [Spec.sameShape]
    exact shape_of_noConflict s a b h ha hb
  | .nonNull a, .nonNull b, h, ha, hb => by
    simp only [Validate.typesConflict] at h
    simp only [Spec.sameShape]
    exact shape_of_noConflict s a b h ha hb
  | .named _, .list _, h, _, _ => by simp [Validate.typesConflict] at h
  | .named _, .nonNull _, h, _, _ => by simp [Validate.typesConflict] at h
  | .list _, .named _, h, _, _ => by simp [Validate.typesConflict] at h
  | .list _, .nonNull _, h, _, _ => by simp [Validate.typesConflict] at h
  | .nonNull _, .named _, h, _, _ => by simp [Validate.typesConflict] at h
  | .nonNull _, .list _, h, _, _ => by simp [Validate.typesConflict] at h

private theorem fdef_type (s : SchemaD) (hs : SchemaWf s) (env : Exec.ArgEnv) (d : Validate.Doc) (vars : Exec.Vars)
    (mf : MergeFacts s env d vars) (x : String × Exec.FNode) (e : Validate.FEntry) (r : Rel s env d vars x e) (t : Ty)
    (ht : Spec.fieldTy s x.1 x.2 = some t) : e.fdef.map (·.type) = some t ∧ OutTy s t := by
  rcases r.typed with ⟨hn, _⟩ | ⟨hmeta, fd, hfd, _⟩
  · simp only [Spec.fieldTy, hn, beq_self_eq_true, if_true, Option.some.injEq] at ht
    subst ht
    refine ⟨?_, Or.inl (by simpa [Ty.base] using hs.string)⟩
    rw [r.fdef, r.name, hn]
    simp [Validate.ovFieldOf, validate_composite_of s x.1 r.comp, Validate.typenameField]
  · have hnt : x.2.name ≠ "__typename" := by
      intro e; rw [e] at hmeta; simp [Exec.isMeta] at hmeta
    have hnt' : (x.2.name == "__typename") = false := by simpa using hnt
    simp only [Spec.fieldTy, hnt', Bool.false_eq_true, if_false, hfd, Option.map_some, Option.some.injEq] at ht
    subst ht
    have hv := mf.owners x.1 x.2.name fd hfd
    refine ⟨?_, ?_⟩
    · rw [r.fdef, r.name]
      simp [Validate.ovFieldOf, hnt', hv]
    · have ho := hs.outputs x.1 x.2.name fd hv
      unfold Validate.isOutputTy at ho
      unfold OutTy Validate.isLeaf Validate.isComposite
      cases hk : Validate.kindOf s fd.type.base with
      | none => simp [hk] at ho
      | some k => cases k <;> simp_all

/-! ### the invariant of a scope and the three clauses of `MS` -/

/-- every two same-key fields of the scope are fields the search collected, and they do not conflict -/
def Good (s : SchemaD) (env : Exec.ArgEnv) (d : Validate.Doc) (vars : Exec.Vars) (L : Spec.TSels) : Prop :=
  ∀ x y, InScope (eDoc s env d) L x → InScope (eDoc s env d) L y → x.2.key = y.2.key →
    ∃ e1 e2, Rel s env d vars x e1 ∧ Rel s env d vars y e2 ∧ ¬ Conf s d false e1 e2

private theorem inScope_nil {doc : Exec.Doc} {x : String × Exec.FNode} (h : InScope doc [] x) : False := by
  cases h with
  | field hm => simp at hm
  | inline hm _ => simp at hm
  | spread hm _ _ => simp at hm

/-- the fields of the sub-selection of a field of a scope are collected from ITS selection set -/
private theorem sub_member (s : SchemaD) (env : Exec.ArgEnv) (d : Validate.Doc) (vars : Exec.Vars) (mf : MergeFacts s env d vars)
    (x : String × Exec.FNode) (e : Validate.FEntry) (r : Rel s env d vars x e) (a : String × Exec.FNode)
    (ha : InScope (eDoc s env d) (Spec.typedSub s x.1 x.2) a) :
    e.hasSub = true ∧ SelSet d e.ssid e.sub ∧ Adm s d e.ssid (some (Spec.subBase s x.1 x.2)) ∧
      ∃ ea, Coll s d (some (Spec.subBase s x.1 x.2)) e.sub a.2.key ea ∧ Rel s env d vars a ea := by
  unfold Spec.typedSub at ha
  by_cases hsub : x.2.hasSub = true
  · rw [if_pos hsub] at ha
    have he : e.hasSub = true := by rw [← r.hasSub]; exact hsub
    obtain ⟨hS, hA⟩ := r.subSet he
    rw [r.sub he] at ha
    rcases r.typed with ⟨_, hf⟩ | ⟨_, fd, hfd, hty⟩
    · rw [hsub] at hf; cases hf
    · obtain ⟨hc, hok⟩ := hty hsub
      have hb : Spec.subBase s x.1 x.2 = fd.type.base := by simp [Spec.subBase, hfd]
      rw [r.sub he] at hok
      refine ⟨he, hS, hA, ?_⟩
      exact scope_coll s env d vars mf ha (Spec.subBase s x.1 x.2) e.ssid e.sub (Spec.subBase s x.1 x.2) e.ssid e.sub rfl hS
        (by rw [hb]; exact hok) (by rw [hb]; exact hc) hA hS (fun _ _ h => h) (fun _ h => h)
  · rw [if_neg hsub] at ha
    exact (inScope_nil ha).elim

private theorem good_sub (s : SchemaD) (env : Exec.ArgEnv) (d : Validate.Doc) (vars : Exec.Vars) (mf : MergeFacts s env d vars)
    (hclause : Validate.Spec.overlappingFieldsCanBeMerged s d) (x y : String × Exec.FNode) (e1 e2 : Validate.FEntry)
    (r1 : Rel s env d vars x e1) (r2 : Rel s env d vars y e2) (hnc : ¬ Conf s d false e1 e2) (ho : Overlap s x.1 y.1) :
    Good s env d vars (Spec.typedSub s x.1 x.2 ++ Spec.typedSub s y.1 y.2) := by
  have hex := not_exclusive_of_overlap s e1 e2 x.1 y.1 r1.parent r2.parent ho
  intro a b ha hb hk
  rcases InScope.append_split ha with ha | ha <;> rcases InScope.append_split hb with hb | hb
  · obtain ⟨_, hS, hA, ea, hca, ra⟩ := sub_member s env d vars mf x e1 r1 a ha
    obtain ⟨_, _, _, eb, hcb, rb⟩ := sub_member s env d vars mf x e1 r1 b hb
    rw [← hk] at hcb
    exact ⟨ea, eb, ra, rb, hclause _ _ hS _ hA _ _ _ hca hcb⟩
  · obtain ⟨h1, _, hA1, ea, hca, ra⟩ := sub_member s env d vars mf x e1 r1 a ha
    obtain ⟨h2, _, hA2, eb, hcb, rb⟩ := sub_member s env d vars mf y e2 r2 b hb
    rw [← hk] at hcb
    exact ⟨ea, eb, ra, rb, fun hc => hnc (Conf.sub h1 h2 hA1 hA2 hca hcb (by simpa [hex] using hc))⟩
  · obtain ⟨h2, _, hA2, ea, hca, ra⟩ := sub_member s env d vars mf y e2 r2 a ha
    obtain ⟨h1, _, hA1, eb, hcb, rb⟩ := sub_member s env d vars mf x e1 r1 b hb
    rw [← hk] at hcb
    exact ⟨ea, eb, ra, rb, fun hc => hnc (Conf.subSwap h1 h2 hA1 hA2 hcb hca (by simpa [hex] using hc))⟩
  · obtain ⟨_, hS, hA, ea, hca, ra⟩ := sub_member s env d vars mf y e2 r2 a ha
    obtain ⟨_, _, _, eb, hcb, rb⟩ := sub_member s env d vars mf y e2 r2 b hb
    rw [← hk] at hcb
    exact ⟨ea, eb, ra, rb, hclause _ _ hS _ hA _ _ _ hca hcb⟩

/-- **a good scope is merge-safe** (induction on the depth bound) -/
private theorem ms_of_good (s : SchemaD) (hs : SchemaWf s) (env : Exec.ArgEnv) (d : Validate.Doc) (vars : Exec.Vars)
    (mf : MergeFacts s env d vars) (hclause : Validate.Spec.overlappingFieldsCanBeMerged s d)
    {rk ek : String → Nat} {B : Nat} (hr : C04.Ranked (eDoc s env d) rk ek B) :
    ∀ (N : Nat) (L : Spec.TSels), Spec.selsDepth ek (L.map (·.2)) < N → Good s env d vars L → MS s (eDoc s env d) L := by
  intro N
  induction N with
  | zero => intro L hN _; omega
  | succ N ih =>
    intro L hN hg
    refine .intro ?_ ?_ ?_
    · intro x y hx hy hk ho
      obtain ⟨e1, e2, r1, r2, hnc⟩ := hg x y hx hy hk
      have hex := not_exclusive_of_overlap s e1 e2 x.1 y.1 r1.parent r2.parent ho
      have hname : e1.name = e2.name := by
        by_cases hne : e1.name = e2.name
        · exact hne
        · exact absurd (Conf.args (by simpa using hex) (Or.inl hne)) hnc
      have hargs : Validate.sameArguments e1.args e2.args ≠ some false := fun h =>
        hnc (Conf.args (by simpa using hex) (Or.inr h))
      refine ⟨by rw [← r1.name, ← r2.name, hname], ?_⟩
      rw [r1.args, r2.args, hname]
      exact argsTable_of_sameArguments s env e2.name e1.args e2.args r1.nodup r2.nodup hargs
    · intro x y hx hy hk ho
      obtain ⟨e1, e2, r1, r2, hnc⟩ := hg x y hx hy hk
      apply ih
      · rw [List.map_append, selsDepth_append]
        have d1 := inScope_depth hr hx
        have d2 := inScope_depth hr hy
        have t1 := typedSub_depth s ek x.1 x.2
        have t2 := typedSub_depth s ek y.1 y.2
        omega
      · exact good_sub s env d vars mf hclause x y e1 e2 r1 r2 hnc ho
    · intro x y t u hx hy hk ht hu
      obtain ⟨e1, e2, r1, r2, hnc⟩ := hg x y hx hy hk
      obtain ⟨f1, o1⟩ := fdef_type s hs env d vars mf x e1 r1 t ht
      obtain ⟨f2, o2⟩ := fdef_type s hs env d vars mf y e2 r2 u hu
      apply shape_of_noConflict s t u ?_ o1 o2
      cases hc : Validate.typesConflict s t u with
      | false => rfl
      | true => exact absurd (Conf.types f1 f2 hc) hnc

/-! ### the document level -/

private theorem rootType_rev (s : SchemaD) (k r : String) (h : Exec.rootType s k = some r)
    (ho : Validate.isObject s r = true) : Validate.rootType s k = some r := by
  unfold Exec.rootType at h
  unfold Validate.rootType
  split at h
  · rename_i hk
    have hk' : k = "query" := by simpa using hk
    subst hk'
    simp [h, ho]
  · split at h
    · rename_i hk
      have hk' : k = "mutation" := by simpa using hk
      subst hk'
      simp [h, ho]
    · split at h
      · rename_i hk
        have hk' : k = "subscription" := by simpa using hk
        subst hk'
        simp [h, ho]
      · simp at h

private theorem composite_of_obj (s : SchemaD) (r : String) (h : Validate.isObject s r = true) : Validate.isComposite s r = true := by
  unfold Validate.isObject at h
  unfold Validate.isComposite
  cases hk : Validate.kindOf s r with
  | none => simp [hk] at h
  | some k => simp [hk] at h; subst h; rfl

/-- **mergeSafe_of_clause** — the declarative `MergeSafe` of the executor's document follows from the clause of 5.3.2 on
    the validator's document. -/
theorem mergeSafe_of_clause (s : SchemaD) (hs : SchemaWf s) (hro : RootsAreObjects s) (env : Exec.ArgEnv) (d : Validate.Doc)
    (vars : Exec.Vars) (mf : MergeFacts s env d vars) {rk ek : String → Nat} {B : Nat} (hr : C04.Ranked (eDoc s env d) rk ek B)
    (hclause : Validate.Spec.overlappingFieldsCanBeMerged s d) : MergeSafe s (eDoc s env d) := by
  intro o ho root hroot
  unfold eDoc at ho
  simp only [List.mem_filterMap] at ho
  obtain ⟨df, hdf, hdo⟩ := ho
  cases df with
  | frag => simp [eOp] at hdo
  | ts => simp [eOp] at hdo
  | op kind name vs ds ssid sels =>
    simp only [eOp, Option.some.injEq] at hdo
    subst hdo
    simp only at hroot ⊢
    have hobj := hro kind root hroot
    have hvr := rootType_rev s kind root hroot hobj
    have hvc := composite_of_obj s root hobj
    have hcomp : Spec.isComposite s root = true := isComposite_compat s root hvc
    -- the selection set of the operation
    have hS : SelSet d ssid sels := by
      simp only [SelSet, nodes, List.mem_cons, reduceCtorEq, false_or, List.mem_flatMap]
      exact ⟨_, hdf, by simp [Validate.Spec.defNodes]⟩
    have hA : Adm s d ssid (some root) := by
      let v1 := Validate.Spec.View.enter s (Node.operation kind name vs ds sels) {}
      have hv1t : v1.type = some (Ty.named root) := by simp [v1, Validate.Spec.View.enter, hvr]
      let v2 := Validate.Spec.View.enter s (Node.selectionSet ssid sels) v1
      have hcb : Validate.Spec.compositeBase s (some (Ty.named root)) = some root := by
        simp [Validate.Spec.compositeBase, Ty.base, hvc]
      have hv2p : v2.parent = some root := by simp [v2, Validate.Spec.View.enter, hv1t, hcb]
      have hmem : (Node.selectionSet ssid sels, v2) ∈ Validate.Spec.typedNodes s d := by
        unfold Validate.Spec.typedNodes
        simp only [List.mem_flatMap]
        exact ⟨_, hdf, by simp [Validate.Spec.tnDef, v1, v2]⟩
      have := Adm.walk (s := s) hmem
      rwa [hv2p] at this
    have hok : Spec.selsOk s (eDoc s env d) vars root (eSels s env sels) = true := by
      have hv := mf.valid
      unfold Spec.ValidDocR Spec.validDocRB at hv
      simp only [Bool.and_eq_true] at hv
      have hops := hv.1.1.1
      unfold Spec.opsOkR at hops
      rw [List.all_eq_true] at hops
      have := hops { kind := kind, name := name, sels := eSels s env sels } (by
        unfold eDoc
        simp only [List.mem_filterMap]
        exact ⟨_, hdf, rfl⟩)
      simpa [hroot] using this
    have hg : Good s env d vars (Spec.tag root (eSels s env sels)) := by
      intro x y hx hy hk
      obtain ⟨e1, hc1, r1⟩ := scope_coll s env d vars mf hx root ssid sels root ssid sels rfl hS hok hcomp hA hS (fun _ _ h => h) (fun _ h => h)
      obtain ⟨e2, hc2, r2⟩ := scope_coll s env d vars mf hy root ssid sels root ssid sels rfl hS hok hcomp hA hS (fun _ _ h => h) (fun _ h => h)
      rw [← hk] at hc2
      exact ⟨e1, e2, r1, r2, hclause _ _ hS _ hA _ _ _ hc1 hc2⟩
    exact ms_of_good s hs env d vars mf hclause hr _ _ (Nat.lt_succ_self _) hg


/-! ### from the silent rule visitors -/

/-- parser guarantee: an alias is never the empty name -/
def AliasesNonEmpty (d : Validate.Doc) : Prop :=
  ∀ i sels, SelSet d i sels → ∀ al name args dirs hs id sub,
    Validate.Sel.field al name args dirs hs id sub ∈ sels → al ≠ some ""

/-- schema fact: only object and interface types carry fields (what `canon_schema.dump_schema` produces) -/
def FieldOwners (s : SchemaD) : Prop := ∀ T name fd, Exec.fieldOf s T name = some fd → Validate.fieldOf s T name = some fd

/-- `Spec.fieldOwnersB` (evaluated by the driver on the schema of every request: `field_owners`) is sound for `FieldOwners` -/
theorem fieldOwners_of_check (s : SchemaD) (h : Spec.fieldOwnersB s = true) : FieldOwners s := by
  intro T name fd hf
  unfold Exec.fieldOf at hf
  unfold Validate.fieldOf Validate.isObjOrIface Validate.kindOf
  cases ht : s.findType T with
  | none => simp [ht] at hf
  | some t =>
    simp only [ht] at hf
    have hm : t ∈ s.types := List.mem_of_find?_eq_some ht
    unfold Spec.fieldOwnersB at h
    rw [List.all_eq_true] at h
    have := h t hm
    have hne : t.fields.isEmpty = false := by
      cases hfs : t.fields with
      | nil => simp [hfs] at hf
      | cons _ _ => rfl
    simp only [hne, Bool.false_or, Bool.or_eq_true, beq_iff_eq] at this
    rcases this with hk | hk <;> simp [hk, hf]

/-- **mergeSafe_of_silent** — `MergeSafe` from what `validate_ast(...) == []` gives: the memoised
    OverlappingFieldsCanBeMerged search reports nothing, and so do FieldsOnCorrectType, ScalarLeafs, KnownFragmentNames,
    FragmentsOnCompositeTypes, UniqueFragmentNames, NoFragmentCycles and UniqueArgumentNames. `DocChecksMemo` (distinct
    selection-set identities, no meta field with a sub-selection) are the two computable checks of
    `C06.rule_overlapping_fields_memo_iff_wf`. -/
theorem mergeSafe_of_silent (s : SchemaD) (hs : SchemaWf s) (hro : RootsAreObjects s) (hfo : FieldOwners s)
    (fx : Validate.Fixes) (hv11 : fx.v11 = true) (h7 : fx.v7 = true) (env : Exec.ArgEnv) (d : Validate.Doc) (vars : Exec.Vars)
    (h1 : C06.Silent s fx .fieldsOnCorrectType d) (h2 : C06.Silent s fx .scalarLeafs d)
    (h3 : C06.Silent s fx .knownFragmentNames d) (h4 : C06.Silent s fx .fragmentsOnCompositeTypes d)
    (h5 : C06.Silent s fx .uniqueFragmentNames d) (h6 : C06.Silent s fx .noFragmentCycles d)
    (hu : C06.Silent s fx .uniqueArgumentNames d) (h0 : (Validate.overlapMemoRun s fx d).1 = 0)
    (hck : C06.DocChecksMemo s d) (hne : ∀ f ∈ Validate.Spec.fragNames d, f ≠ "") (hal : AliasesNonEmpty d)
    (hni : NoIntrospection s d) : MergeSafe s (eDoc s env d) := by
  have hsl := (C06.rule_scalar_leafs_iff s fx d).mp h2
  have hfc := (C06.rule_fragments_on_composite_types_iff s fx d).mp h4
  have hclause := (C06.rule_overlapping_fields_memo_iff_wf s fx h7 d hck hne hs.outputs hsl hfc).mp h0
  have mf : MergeFacts s env d vars :=
    { aliases := hal
      uniqueArgs := ((C06.rule_unique_argument_names_iff s fx d).mp hu).1
      valid := rules_accept_validDocR s hs hro fx hv11 env d vars h1 h2 h3 h4 h5 h6 hne hni
      owners := hfo }
  exact mergeSafe_of_clause s hs hro env d vars mf (rules_accept_ranked s fx hv11 env d h3 h5 h6 hne) hclause

/-- **accepted_cannot_go_wrong_merged** — C05's execution half WITHOUT the hypothesis `MergeSafe`: every one of the 26
    rule visitors is silent (`C06.SilentM`: OverlappingFieldsCanBeMerged is the MEMOISED search /repo runs), the schema
    facts, the two static document checks, the parser guarantees (non-empty fragment names and aliases), no
    `__schema` / `__type` selection, a typed world ⇒ no request on the translated document ends in an internal exception. -/
theorem accepted_cannot_go_wrong_merged (s : SchemaD) (hs : SchemaWf s) (hso : SchemaOk s) (hro : RootsAreObjects s)
    (hfo : FieldOwners s) (fx : Validate.Fixes) (hv11 : fx.v11 = true) (h7 : fx.v7 = true) (env : Exec.ArgEnv)
    (d : Validate.Doc) (vars : Exec.Vars)
    (hacc : ∀ r ∈ Validate.Rule.all, C06.SilentM s fx r d)
    (hck : C06.DocChecksMemo s d) (hne : ∀ f ∈ Validate.Spec.fragNames d, f ≠ "") (hal : AliasesNonEmpty d)
    (hni : NoIntrospection s d) (w : Exec.World) (hw : WorldTyped s w) :
    ∀ (op : Option String) (fuel cf : Nat) (cls : String), Exec.execute s (eDoc s env d) vars w op fuel cf ≠ .failed (.internal cls) := by
  have sil : ∀ r, r ∈ Validate.Rule.all → r ≠ .overlappingFieldsCanBeMerged → C06.Silent s fx r d :=
    fun r hr hn => (C06.silentM_of_ne hn).mp (hacc r hr)
  have h0 : (Validate.overlapMemoRun s fx d).1 = 0 := by
    have := hacc .overlappingFieldsCanBeMerged (by decide)
    unfold C06.SilentM at this
    simpa using this
  have h1 := sil .fieldsOnCorrectType (by decide) (by decide)
  have h2 := sil .scalarLeafs (by decide) (by decide)
  have h3 := sil .knownFragmentNames (by decide) (by decide)
  have h4 := sil .fragmentsOnCompositeTypes (by decide) (by decide)
  have h5 := sil .uniqueFragmentNames (by decide) (by decide)
  have h6 := sil .noFragmentCycles (by decide) (by decide)
  have hu := sil .uniqueArgumentNames (by decide) (by decide)
  exact rules_accept_cannot_go_wrong_rootless s hs hso hro fx hv11 env d vars h1 h2 h3 h4 h5 h6 hne hni
    (mergeSafe_of_silent s hs hro hfo fx hv11 h7 env d vars h1 h2 h3 h4 h5 h6 hu h0 hck hne hal hni) w hw

/-! non-vacuity: a document with a fragment, an inline fragment, aliases, arguments (literal and variable)
    and `__typename`, on the bridge's schema with a query root: every rule visitor is silent (the memoised overlap search
    included) and the static checks hold; the variant in which the fragment selects `a(n: $v)` under the key `a` (the operation: `a(n: null)`) is
    reported by the memoised search -/
def mgDoc (n : Validate.Value) : Validate.Doc :=
  { defs := [.op "query" none [⟨"v", .named "Int", none, [], rfl⟩] [] 1
               [.field none "a" [⟨"n", .null⟩] [] false 0 [], .spread "F" [],
                .inline (some "Query") [] 2 [.field (some "k") "o" [] [] true 3 [.field none "x" [] [] false 0 [], .field none "__typename" [] [] false 0 []]]],
             .frag "F" "Query" [] 4 [.field (some "b") "a" [⟨"n", .var "v"⟩] [] false 0 [], .field none "a" [⟨"n", n⟩] [] false 0 []]] }
example : Overlap brSchemaQ "Query" "Query" := ⟨"Query", Or.inl rfl, Or.inl rfl⟩
example : Spec.fieldOwnersB brSchemaQ = true := by decide
example : C06.DocChecksMemo brSchemaQ (mgDoc .null) := ⟨by decide, by decide⟩
example : ∀ r ∈ Validate.Rule.all, C06.SilentM brSchemaQ Validate.Fixes.all r (mgDoc .null) := by
  have h : ∀ r ∈ Validate.Rule.all, C06.Silent brSchemaQ Validate.Fixes.all r (mgDoc .null) := by
    unfold C06.Silent; decide +kernel
  intro r hr
  unfold C06.SilentM
  split
  · decide +kernel
  · exact h r hr
example : (Validate.overlapMemoRun brSchemaQ Validate.Fixes.all (mgDoc (.var "v"))).1 ≠ 0 := by decide +kernel

end PyGql.Props.C05

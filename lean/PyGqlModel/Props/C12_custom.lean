/-
  C12 at TEXT level WITH APPLIED SCHEMA DIRECTIVES (`include_custom_schema_directives` = `True` or a whitelist).

  `SdlPrintTA.printSchemaTA` is the total `Text` model of `ASTSchemaPrinter` including `print_directives` at every position
  (schema block, the six kinds of types, fields, arguments, input fields, enum values, directive arguments), compared on
  every run with the real printer and with the first model (`corr/C12_text.py`, driver op `printTA`).
  `printedDocA` is the document the text denotes (applied directives after `@deprecated`, the `schema` block also when only
  a directive node forces it), `printTextWFA` = `printTextWF` + every PRINTED application consists of lexemes.

  PROVED, in full: `print_schema_text_parses_custom` — for every option set, every schema (lists in any order), every
  assignment of directive nodes to schema elements, `printTextWFA` ⟹ the printed text is accepted by lexer and parser and
  parses to the tree of `printedDocA` — including the quirk that an element whose nodes are all filtered out prints a lone
  space (`type T  {`, `scalar S `, an otherwise implied `schema  {…}` block).  Custom directive DEFINITIONS were already
  part of `print_schema_text_parses`; with this theorem their applications are too.
  COMPOSED: `text_roundtrip_custom` — the parsed document, its applied custom directives erased (`eraseCustom`), is the
  document of the directive-free printer (with the `schema` block also when only a directive node forces it) and builds to
  the schema (`print_build_roundtrip_block`); hypotheses `printTextWFA` and `printBuildWF s` only.
  WITHOUT ERASURE (`Props/C12_custom_build.lean`): `print_build_roundtrip_custom` — `build (schemaToDocA s c apps) = ok s`,
  by congruence of every environment-reading function of the builder model (`value_from_ast`, the thunk guard, `build_*`)
  under "same definitions up to custom applications" — and `text_roundtrip_custom_build`, the text-level round trip whose
  built document is the parsed one.  `build doc = build (doc.map eraseCustom)` for ARBITRARY documents (extensions included,
  `BuildIgnoresCustomStatement`) is proved in `Props/C12_erase_all.lean`; it is also evaluated by the driver on every printed document.
-/
import PyGqlModel.Lemmas.SdlTextAOrder
import PyGqlModel.Props.C12_order
namespace PyGql.Props.C12
open PyGql PyGql.Ast PyGql.Sdl PyGql.SdlPrint PyGql.SdlText

/-- THE FULL STATEMENT with applied schema directives -/
def PrintSchemaTextParsesCustomStatement : Prop :=
  ∀ (c : SdlPrintTA.OptsA) (s : SchemaD) (apps : Apps), SdlPrintTA.printTextWFA c s apps = true →
    parseSdlTextT (SdlPrintTA.printSchemaTA c s apps) = docToAst (SdlPrintTA.printedDocA s c apps)

/-- `print_schema_text_parses_custom_ordered` — for a schema whose lists are in printing order -/
theorem print_schema_text_parses_custom_ordered (c : SdlPrintTA.OptsA) (s : SchemaD) (apps : Apps) (hs : InPrintOrder s)
    (hwf : SdlPrintTA.printTextWFA c s apps = true) :
    parseSdlTextT (SdlPrintTA.printSchemaTA c s apps) = docToAst (SdlPrintTA.schemaToDocA s c apps) :=
  parse_printSchemaTA_full c s apps hs hwf

/-- `printSchemaTA_order_independent` — the printed text does not depend on the order of `s.types` / `s.directives` -/
theorem printSchemaTA_order_independent (c : SdlPrintTA.OptsA) (s : SchemaD) (apps : Apps) (h : namesUnique s = true) :
    SdlPrintTA.printSchemaTA c (printOrder s) apps = SdlPrintTA.printSchemaTA c s apps := printSchemaTA_printOrder c s apps h

/-- `print_schema_text_parses_custom` — THE STATEMENT, in full -/
theorem print_schema_text_parses_custom : PrintSchemaTextParsesCustomStatement := by
  intro c s apps hwf
  have hu := namesUnique_of_wfA c s apps hwf
  rw [← printSchemaTA_printOrder c s apps hu]
  exact parse_printSchemaTA_full c (printOrder s) apps (inPrintOrder_printOrder s hu)
    (by rw [printTextWFA_printOrder c s apps hu]; exact hwf)

/-- `custom_directives_erased` — erasing the applied custom directives from the denoted document gives the document of the
    directive-free printer, with the `schema` block under the directive printer's condition -/
theorem custom_directives_erased (s : SchemaD) (c : SdlPrintTA.OptsA) (apps : Apps) :
    (SdlPrintTA.schemaToDocA s c apps).map SdlPrintTA.eraseCustom =
      (if SdlPrintTA.needsSchemaBlockA s c apps then [.schema { ops := rootOps s }] else []) ++
      s.directives.map (fun d => .directive (directiveToDef s d)) ++ s.types.map (fun t => .type (typeToDef s t)) :=
  erase_schemaToDocA s c apps

/-- the text-level round trip with applied directives: the text parses to the tree of a document whose erasure builds to
    the schema (lists in printing order) -/
def TextRoundtripCustom (c : SdlPrintTA.OptsA) (s : SchemaD) (apps : Apps) : Prop :=
  ∃ (d : Document) (doc : Doc), parseSdlTextT (SdlPrintTA.printSchemaTA c s apps) = some d ∧ docToAst doc = some d ∧
    doc = SdlPrintTA.printedDocA s c apps ∧ build (doc.map SdlPrintTA.eraseCustom) = .ok (printOrder s)

/-- the erased document is the directive-free document with the block forced by a schema-level directive node -/
theorem erased_eq_schemaToDocB (s : SchemaD) (c : SdlPrintTA.OptsA) (apps : Apps) :
    (SdlPrintTA.schemaToDocA s c apps).map SdlPrintTA.eraseCustom = schemaToDocB s (!(SdlPrintTA.nodesAt c apps "").isEmpty) := by
  rw [erase_schemaToDocA]; rfl

/-- `text_roundtrip_custom` — hypotheses on `s`, `apps` only: the lexical predicate and the structural predicate of
    `print_build_roundtrip`.  A `schema` block written ONLY because of a schema-level directive node names the implied
    roots explicitly and builds the same schema (`print_build_roundtrip_block`). -/
theorem text_roundtrip_custom (c : SdlPrintTA.OptsA) (s : SchemaD) (apps : Apps) (hwf : SdlPrintTA.printTextWFA c s apps = true)
    (hb : printBuildWF s = true) : TextRoundtripCustom c s apps := by
  have hd := docToAst_schemaToDocA (printOrder s) c apps
  refine ⟨_, SdlPrintTA.printedDocA s c apps, ?_, hd, rfl, ?_⟩
  · rw [print_schema_text_parses_custom c s apps hwf]; exact hd
  · have he : (SdlPrintTA.printedDocA s c apps).map SdlPrintTA.eraseCustom =
        schemaToDocB (printOrder s) (!(SdlPrintTA.nodesAt c apps "").isEmpty) := erased_eq_schemaToDocB (printOrder s) c apps
    rw [he]; exact print_build_roundtrip_block _ _ (printBuildWF_printOrder s hb)

/-- `keepP_never_specified` — `@deprecated`, `@skip`, `@include` are never printed as custom directives (fix H1 state) -/
theorem keepP_never_specified (wl : Option (List String)) (d : DirApp) (h : specifiedDirectives.contains d.name = true) :
    SdlPrintTA.keepP wl d = false := by
  simp only [SdlPrintTA.keepP, h, Bool.not_true, Bool.false_and]

/-! ### non-vacuity -/

/-- applications at every kind of site of `plainShop`: the schema block, types of four kinds, a field next to `@deprecated`,
    an argument, an input field with a list-valued argument, an enum value, a directive argument -/
def shopApps : Apps :=
  [("", [{ name := "tag", args := [("name", .str "schema \"s\"")] }]),
   ("Item", [{ name := "tag" }, { name := "other", args := [("xs", .list [.int "1" "1.0", .int "2" "2.0"]), ("flag", .bool true)] }]),
   ("Item.name", [{ name := "deprecated" }, { name := "tag", args := [("e", .enum "RED"), ("o", .obj [("k", .null)])] }]),
   ("Item.name.upper", [{ name := "tag" }]),
   ("Filter", [{ name := "other" }]),
   ("Filter.tags", [{ name := "tag", args := [("f", .float "1.5" "1.5")] }]),
   ("Color", [{ name := "tag" }]),
   ("Color.GREEN", [{ name := "deprecated", args := [("reason", .str "old")] }, { name := "other" }]),
   ("Thing", [{ name := "tag" }]),
   ("Node", [{ name := "other" }]),
   ("@tag.name", [{ name := "other" }])]

example : SdlPrintTA.printTextWFA {} plainShop shopApps = true := by decide
example : TextRoundtripCustom {} plainShop shopApps := text_roundtrip_custom {} plainShop shopApps (by decide) (by decide)
/-- a whitelist: `@other` only — `Item.name` and `Color`, `Thing` print the lone space of the quirk -/
example : TextRoundtripCustom { whitelist := some ["other"] } plainShop shopApps :=
  text_roundtrip_custom _ plainShop shopApps (by decide) (by decide)
/-- tab indentation, a whitelist that keeps nothing -/
example : TextRoundtripCustom { base := { indent := [9] }, whitelist := some ["nope"] } plainShop shopApps :=
  text_roundtrip_custom _ plainShop shopApps (by decide) (by decide)
/-- `shop` (not in printing order, descriptions, defaults) with applications; its roots are implied and the schema-level
    node forces the block: the round trip holds through `print_build_roundtrip_block` -/
example : TextRoundtripCustom {} shop [("", [{ name := "tag" }]), ("Query", [{ name := "tag" }])] :=
  text_roundtrip_custom {} shop _ (by decide) shop_wf
example : SdlPrintTA.needsSchemaBlockA shop {} [("", [{ name := "tag" }])] ≠ needsSchemaBlock shop := by decide
example : build (schemaToDocB shop true) = .ok shop := print_build_roundtrip_block shop true shop_wf

/-- `printSchemaTA_conservative` — with a falsy `include_custom_schema_directives` the model with directives prints exactly
    what the directive-free model `printSchemaT` prints: `print_schema_text_parses` is the `custom = false` instance -/
theorem printSchemaTA_conservative (c : SdlPrintTA.OptsA) (hc : c.custom = false) (s : SchemaD) (apps : Apps) :
    SdlPrintTA.printSchemaTA c s apps = SdlPrintT.printSchemaT c.base s := printSchemaTA_off hc s apps

example : SdlPrintTA.printSchemaTA { custom := false } plainShop shopApps = SdlPrintT.printSchemaT {} plainShop :=
  printSchemaTA_conservative _ rfl _ _

/-- the quirk, as text: nodes present but none printed ⇒ a lone space -/
example : SdlPrintTA.printType plainShop { whitelist := some ["nope"] } shopApps
    { kind := .scalar, name := "Item" } = SdlPrintT.T "scalar Item " := by decide

end PyGql.Props.C12

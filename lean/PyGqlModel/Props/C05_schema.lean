/-
  C05 — the SCHEMA hypotheses of the soundness chain from computable checks (`Spec/SchemaChecks.lean`), which the driver
  evaluates on every schema of every request: `SchemaOk`, `SchemaWf`, `RootsAreObjects` (C05) and `TypesWf` (C04's
  `null_error_bijection`) hold whenever `schemaChecksB s = true`. With them `accepted_cannot_go_wrong_checked` has no
  schema hypothesis left that is not evaluated at run time.
-/
import PyGqlModel.Props.C05_bridge
import PyGqlModel.Props.C04_nulls
import PyGqlModel.Props.C06_head
import PyGqlModel.Spec.SchemaChecks

set_option linter.unusedSimpArgs false
set_option linter.unusedVariables false

namespace PyGql.Props.C05
open PyGql PyGql.Exec PyGql.Spec

private theorem findType_name (s : SchemaD) (n : String) (t : TypeD) (h : s.findType n = some t) : t.name = n ∧ t ∈ s.types := by
  unfold SchemaD.findType at h
  exact ⟨by simpa using List.find?_some h, List.mem_of_find?_eq_some h⟩

private theorem fieldOf_mem (s : SchemaD) (T f : String) (fd : FieldD) (h : fieldOf s T f = some fd) :
    ∃ t, t ∈ s.types ∧ t.name = T ∧ fd ∈ t.fields ∧ fd.name = f := by
  unfold fieldOf at h
  cases ht : s.findType T with
  | none => simp [ht] at h
  | some t =>
    simp only [ht] at h
    obtain ⟨hn, hm⟩ := findType_name s T t ht
    exact ⟨t, hm, hn, List.mem_of_find?_eq_some h, by simpa using List.find?_some h⟩

private theorem under_of_B (s : SchemaD) (rt T : String) (h : underB s rt T = true) : Under s rt T := by
  unfold underB at h
  simp only [Bool.or_eq_true, beq_iff_eq] at h
  exact h

private theorem subUnder_sound (s : SchemaD) (B' B : String) (h : subUnderB s B' B = true) :
    ∀ rt, Under s rt B' → Under s rt B := by
  unfold subUnderB at h
  simp only [Bool.and_eq_true, List.all_eq_true] at h
  intro rt hrt
  rcases hrt with rfl | hp
  · exact under_of_B s _ _ h.1
  · have : rt ∈ possibleTypes s B' := by
      unfold isPossibleType at hp
      simp only [Bool.and_eq_true] at hp
      simpa using hp.2
    exact under_of_B s _ _ (h.2 rt this)

/-- **schemaOk_of_checks**: the two computable checks imply `SchemaOk` (objects implement their interfaces covariantly,
    every field has a known output kind) -/
theorem schemaOk_of_checks (s : SchemaD) (hk : schemaKindsB s = true) (hc : schemaCovB s = true) : SchemaOk s where
  cov := by
    intro I O f fd hp hf
    obtain ⟨t, ht, hn, hfd, hfn⟩ := fieldOf_mem s I f fd hf
    have hO : O ∈ possibleTypes s I := by
      unfold isPossibleType at hp
      simp only [Bool.and_eq_true] at hp
      simpa using hp.2
    unfold schemaCovB at hc
    simp only [List.all_eq_true] at hc
    have := hc t ht O (by rw [hn]; exact hO) fd hfd
    rw [hfn] at this
    cases hO' : fieldOf s O f with
    | none => simp [hO'] at this
    | some fd' =>
      simp only [hO'] at this
      exact ⟨fd', rfl, subUnder_sound s _ _ this⟩
  kinds := by
    intro T f fd hf
    obtain ⟨t, ht, _, hfd, _⟩ := fieldOf_mem s T f fd hf
    unfold schemaKindsB at hk
    simp only [List.all_eq_true] at hk
    have := hk t ht fd hfd
    cases hkk : kindOf s fd.type.base with
    | none => simp [hkk] at this
    | some k => exact ⟨k, rfl, by simpa [hkk] using this⟩

theorem rootsAreObjects_of_check (s : SchemaD) (h : rootsObjectsB s = true) : RootsAreObjects s := by
  intro k r hr
  unfold rootsObjectsB at h
  simp only [List.all_cons, List.all_nil, Bool.and_true, Bool.and_eq_true] at h
  unfold Exec.rootType at hr
  split at hr
  · have := h.1; simpa [hr] using this
  · split at hr
    · have := h.2.1; simpa [hr] using this
    · split at hr
      · have := h.2.2; simpa [hr] using this
      · cases hr

theorem schemaWf_of_checks (s : SchemaD) (ho : Validate.schemaOutputsB s = true) (hs : Validate.isLeaf s "String" = true) : SchemaWf s :=
  ⟨C06.schemaOutputs_of_check s ho, hs⟩

theorem typesWf_of_check (s : SchemaD) (h : typesWfB s = true) : C04.TypesWf s := by
  intro parent name fd hf
  obtain ⟨t, ht, _, hfd, _⟩ := fieldOf_mem s parent name fd hf
  unfold typesWfB at h
  simp only [List.all_eq_true] at h
  exact h t ht fd hfd

/-- **accepted_cannot_go_wrong_checked** — `accepted_cannot_go_wrong` with the three schema hypotheses replaced by ONE
    computable check that the driver evaluates on the schema of every request (`schema_checks` in its answers; the
    harness reports a generated schema on which it is false as a correspondence failure). -/
theorem accepted_cannot_go_wrong_checked (s : SchemaD) (hchk : schemaChecksB s = true)
    (fx : Validate.Fixes) (hv11 : fx.v11 = true) (env : Exec.ArgEnv) (d : Validate.Doc) (vars : Exec.Vars)
    (hacc : ∀ r ∈ Validate.Rule.all, C06.Silent s fx r d)
    (hne : ∀ f ∈ Validate.Spec.fragNames d, f ≠ "") (hni : NoIntrospection s d) (hm : MergeSafe s (eDoc s env d))
    (w : Exec.World) (hw : WorldTyped s w) :
    ∀ (op : Option String) (fuel cf : Nat) (cls : String), Exec.execute s (eDoc s env d) vars w op fuel cf ≠ .failed (.internal cls) := by
  unfold schemaChecksB at hchk
  simp only [Bool.and_eq_true] at hchk
  obtain ⟨⟨⟨⟨⟨hk, hc⟩, hr⟩, ho⟩, hs⟩, _⟩ := hchk
  exact accepted_cannot_go_wrong s (schemaWf_of_checks s ho hs) (schemaOk_of_checks s hk hc) (rootsAreObjects_of_check s hr)
    fx hv11 env d vars hacc hne hni hm w hw

/-- non-vacuity: the bridge's example schema (with a root) passes all checks -/
example : schemaChecksB brSchemaQ = true := by decide

end PyGql.Props.C05

/-
  C07 — property theorems, part 5: "…are rejected BEFORE ANY RESOLVER RUNS".
  Trace model: PyGqlModel/CoerceExec.lean. Tied to the code by the recording resolvers of harness/corr/C07.py
  (stream `trace`: the calls observed in a real `graphql_blocking` run == the `call` events of `executeOp`, in order;
  direct oracle signatures `accepted-must-reject:*` and `resolver-ran-on-rejected-arguments`).
-/
import PyGqlModel.Props.C07_args
import PyGqlModel.CoerceExec

set_option linter.unusedSimpArgs false
set_option linter.unusedVariables false

namespace PyGql.Props.C07
open PyGql PyGql.Coerce

/-- **no_resolver_call_on_rejected_arguments.** If the arguments of a selection are rejected (or coercing them raises),
    the event of that selection is not a resolver call; and when it IS a call, the keyword arguments are exactly what
    `coerce_argument_values` returned. -/
theorem no_resolver_call_on_rejected_arguments (reg : Reg) (fuel : Nat) (env : List (String × PV)) (sel : FieldSel) :
    (∀ e, coerceArgumentValues reg fuel env sel.args sel.defs = .error e → (resolveField reg fuel env sel).isCall = false) ∧
    (∀ key kw, resolveField reg fuel env sel = .call key kw →
        key = sel.key ∧ ∃ kw', coerceArgumentValues reg fuel env sel.args sel.defs = .ok kw' ∧ kw = dictOfAssignments kw') := by
  constructor
  · intro e h
    cases e <;> simp [resolveField, h, Ev.isCall]
  · intro key kw h
    unfold resolveField at h
    split at h
    · rename_i kw' hk; cases h; exact ⟨rfl, kw', hk, rfl⟩
    · cases h
    · cases h

private theorem resolveFields_calls (reg : Reg) (fuel : Nat) (env : List (String × PV)) :
    ∀ (sels : List FieldSel) (key : String) (kw : List (String × PV)), Ev.call key kw ∈ resolveFields reg fuel env sels →
      ∃ sel, sel ∈ sels ∧ sel.key = key ∧
        ∃ kw', coerceArgumentValues reg fuel env sel.args sel.defs = .ok kw' ∧ kw = dictOfAssignments kw' := by
  intro sels
  induction sels with
  | nil => intro key kw h; simp [resolveFields] at h
  | cons sel rest ih =>
    intro key kw h
    simp only [resolveFields] at h
    split at h
    · simp at h
    · rcases List.mem_cons.1 h with heq | hm
      · obtain ⟨h1, h2⟩ := (no_resolver_call_on_rejected_arguments reg fuel env sel).2 key kw heq.symm
        exact ⟨sel, List.mem_cons_self, h1.symm, h2⟩
      · obtain ⟨s, hs, h1, h2⟩ := ih key kw hm
        exact ⟨s, List.mem_cons_of_mem _ hs, h1, h2⟩

/-- **no_resolver_call_on_rejected_variables.** If variable coercion fails, no resolver runs at all. -/
theorem no_resolver_call_on_rejected_variables (reg : Reg) (fuel : Nat) (defs : List VarDef) (variables : List (String × JV))
    (sels : List FieldSel) (e : Err) (h : coerceVariableValues reg fuel variables defs = .error e) :
    ∀ ev, ev ∈ executeOp reg fuel defs variables sels → ev.isCall = false := by
  intro ev hev
  cases e <;> simp [executeOp, h] at hev <;> subst hev <;> rfl

/-- **every_call_conforms.** End to end: every resolver call in the trace of an operation carries keyword arguments
    that conform to the argument definitions of the field it resolves (variables were coerced first, arguments second,
    the call last), for registries, argument definitions and variable usages satisfying the stated side conditions. -/
theorem every_call_conforms {reg : Reg} (hreg : RegOK reg) (fuel : Nat) (defs : List VarDef) (variables : List (String × JV))
    (sels : List FieldSel)
    (hargs : ∀ sel, sel ∈ sels → ArgsOK reg sel.defs)
    (hfit : ∀ env, coerceVariableValues reg fuel variables defs = .ok env → ∀ sel, sel ∈ sels → ∀ d, d ∈ sel.defs →
        ∀ l, lookupLast d.name sel.args = some l → VarsFit reg (some env) d.type l) :
    ∀ key kw, Ev.call key kw ∈ executeOp reg fuel defs variables sels →
      ∃ sel, sel ∈ sels ∧ sel.key = key ∧ ConformsFields reg sel.defs kw := by
  intro key kw h
  unfold executeOp at h
  split at h
  · rename_i env henv
    obtain ⟨sel, hs, h1, kw', h2, rfl⟩ := resolveFields_calls reg fuel env sels key kw h
    have hc := arguments_sound hreg fuel env sel.args sel.defs kw' (hargs sel hs) (hfit env henv sel hs) h2
    rw [dictOfAssignments_conforms (hargs sel hs).pyNamesDistinct hc]
    exact ⟨sel, hs, h1, hc⟩
  · simp at h
  · simp at h

end PyGql.Props.C07

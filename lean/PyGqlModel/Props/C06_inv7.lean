/-
  C06 - property theorems, part 25: **alpha_variables** - consistent renaming of variables (definitions `$x`, every
  occurrence in argument values of fields and directives, in default values, inside list and object literals).
  * 20 rules never read the name of a variable: proved on the MODEL OF THE CODE - the run of any chain made of them is
    equal, state by state, on the renamed document (any renaming, injective or not; any document; any fixes).
  * `SingleFieldSubscriptions` (its fragment table holds the renamed selections; the collected response keys are the same)
    and `UniqueVariableNames` (injective renaming) through their rule theorems.
  * `NoUndefinedVariables`, `NoUnusedVariables`, `VariablesInAllowedPosition`: Props/C06_inv8.lean.
  Not covered: `OverlappingFieldsCanBeMerged` (compares argument values; builder `ov`).
-/
import PyGqlModel.Props.C06_inv6
import PyGqlModel.Lemmas.ValidateVarRename
namespace PyGql.Props.C06
open PyGql PyGql.Validate PyGql.Validate.Spec

/-- full statement (kept visible): an injective renaming of variables never changes the verdict of the whole chain -/
def FullStatement_alpha_variables : Prop :=
  ∀ (V : Vr), (∀ a b, V.var a = V.var b → a = b) → ∀ (s : SchemaD) (d : Doc),
    verdict { schema := s } (V.doc d) = verdict { schema := s } d

/-- the 20 rules that never read the name of a variable -/
def VarBlindRules : List Rule := Rule.all.filter fun r => !r.readsVarNames

example : VarBlindRules.length = 20 := by decide

/-- **alpha_variables for every chain of var-blind rules**: same final state (errors of every rule, crash), same
    verdict; ANY renaming of variables -/
theorem alpha_variables_chain_partial (V : Vr) (c : Cfg) (hc : ∀ r ∈ c.rules, r.readsVarNames = false) (d : Doc) :
    visitDocument c (V.doc d) {} = visitDocument c d {} ∧ verdict c (V.doc d) = verdict c d := by
  have h := visitDocument_vr V c hc d {}
  exact ⟨h, by simp only [verdict, run, h]⟩

theorem alpha_variables_20_chain_partial (V : Vr) (s : SchemaD) (fx : Fixes) (d : Doc) :
    verdict ⟨s, fx, VarBlindRules⟩ (V.doc d) = verdict ⟨s, fx, VarBlindRules⟩ d :=
  (alpha_variables_chain_partial V ⟨s, fx, VarBlindRules⟩ (show ∀ r ∈ VarBlindRules, r.readsVarNames = false by decide) d).2

/-- **alpha_variables**, rule by rule, for the var-blind rules -/
theorem alpha_variables_blind_partial (V : Vr) (s : SchemaD) (fx : Fixes) (d : Doc) (r : Rule)
    (hr : r.readsVarNames = false) : Silent s fx r (V.doc d) ↔ Silent s fx r d := by
  unfold Silent alone
  rw [(alpha_variables_chain_partial V ⟨s, fx, [r]⟩ (by simpa using hr) d).1]

/-! ### SingleFieldSubscriptions -/

theorem single_field_subscriptions_spec_vr (V : Vr) (d : Doc) :
    Spec.singleFieldSubscriptions (V.doc d) ↔ Spec.singleFieldSubscriptions d := by
  unfold Spec.singleFieldSubscriptions
  constructor
  · intro h n hn name vars dirs sels e
    subst e
    obtain ⟨id, hd⟩ := (mem_nodes_operation d _ _ _ _ _).mp hn
    have hd' : Def.op "subscription" name (vars.map V.varDef) (dirs.map V.dir) id (V.selList sels) ∈ (V.doc d).defs :=
      List.mem_map.mpr ⟨_, hd, rfl⟩
    have := h _ ((mem_nodes_operation (V.doc d) _ _ _ _ _).mpr ⟨id, hd'⟩) _ _ _ _ rfl
    rwa [rootKeys_vr] at this
  · intro h n hn name vars dirs sels e
    subst e
    obtain ⟨id, hd⟩ := (mem_nodes_operation (V.doc d) _ _ _ _ _).mp hn
    obtain ⟨x, hx, ex⟩ := List.mem_map.mp hd
    cases x with
    | op k nm vs ds id' sels0 =>
      simp only [Vr.defn, Def.op.injEq] at ex
      obtain ⟨rfl, rfl, rfl, rfl, rfl, rfl⟩ := ex
      rw [rootKeys_vr]
      exact h _ ((mem_nodes_operation d _ _ _ _ _).mpr ⟨_, hx⟩) _ _ _ _ rfl
    | frag => simp [Vr.defn] at ex
    | ts => simp [Vr.defn] at ex

theorem alpha_variables_single_field_subscriptions (V : Vr) (s : SchemaD) (fx : Fixes) (d : Doc) :
    Silent s fx .singleFieldSubscriptions (V.doc d) ↔ Silent s fx .singleFieldSubscriptions d := by
  rw [rule_single_field_subscriptions_iff, rule_single_field_subscriptions_iff]
  exact single_field_subscriptions_spec_vr V d

/-! ### UniqueVariableNames -/

theorem unique_variable_names_spec_vr (V : Vr) (hinj : ∀ a b, V.var a = V.var b → a = b) (d : Doc) :
    Spec.uniqueVariableNames (V.doc d) ↔ Spec.uniqueVariableNames d := by
  have hnames : ∀ vs : List VarDef, ((vs.map V.varDef).map (·.name)).Nodup ↔ (vs.map (·.name)).Nodup := by
    intro vs
    have : (vs.map V.varDef).map (·.name) = (vs.map (·.name)).map V.var := by
      simp [List.map_map, Function.comp_def, Vr.varDef]
    rw [this]
    unfold List.Nodup
    rw [List.pairwise_map]
    exact ⟨fun h => h.imp (fun {a b} hne (e : a = b) => hne (congrArg V.var e)),
      fun h => h.imp (fun {a b} hne (e : V.var a = V.var b) => hne (hinj _ _ e))⟩
  unfold Spec.uniqueVariableNames
  constructor
  · intro h x hx k n vs ds i ss e
    subst e
    exact (hnames vs).mp (h _ (List.mem_map_of_mem (f := V.defn) hx) _ _ _ _ _ _ rfl)
  · intro h x hx k n vs ds i ss e
    obtain ⟨y, hy, ey⟩ := List.mem_map.mp hx
    subst ey
    cases y with
    | op k' n' vs' ds' i' ss' =>
      simp only [Vr.defn, Def.op.injEq] at e
      obtain ⟨rfl, rfl, rfl, rfl, rfl, rfl⟩ := e
      exact (hnames vs').mpr (h _ hy _ _ _ _ _ _ rfl)
    | frag => simp [Vr.defn] at e
    | ts => simp [Vr.defn] at e

theorem alpha_variables_unique_variable_names (V : Vr) (hinj : ∀ a b, V.var a = V.var b → a = b) (s : SchemaD)
    (fx : Fixes) (d : Doc) : Silent s fx .uniqueVariableNames (V.doc d) ↔ Silent s fx .uniqueVariableNames d := by
  rw [rule_unique_variable_names_iff, rule_unique_variable_names_iff]
  exact unique_variable_names_spec_vr V hinj d

/-- rules for which `alpha_variables` is proved in this file: 22 -/
def ProvedVr : List Rule := VarBlindRules ++ [.singleFieldSubscriptions, .uniqueVariableNames]

/-- **alpha_variables for 22 of the 26 rules** -/
theorem alpha_variables_all22_partial (V : Vr) (hinj : ∀ a b, V.var a = V.var b → a = b) (s : SchemaD) (fx : Fixes)
    (d : Doc) (r : Rule) (hr : r ∈ ProvedVr) : Silent s fx r (V.doc d) ↔ Silent s fx r d := by
  simp only [ProvedVr, List.mem_append, List.mem_cons, List.not_mem_nil, or_false] at hr
  rcases hr with hr | rfl | rfl
  · exact alpha_variables_blind_partial V s fx d r (by
      have : ∀ r ∈ VarBlindRules, r.readsVarNames = false := by decide
      exact this r hr)
  · exact alpha_variables_single_field_subscriptions V s fx d
  · exact alpha_variables_unique_variable_names V hinj s fx d

/-! ### non-vacuity: appending "_" to every variable name is an injective renaming -/

def suffixVr : Vr := ⟨(· ++ "_")⟩

example (s : SchemaD) (fx : Fixes) (d : Doc) (r : Rule) (hr : r ∈ ProvedVr) :
    Silent s fx r (suffixVr.doc d) ↔ Silent s fx r d :=
  alpha_variables_all22_partial suffixVr suffix_inj s fx d r hr

/-- injectivity is needed for UniqueVariableNames: `query($a: Int, $b: Int)` with both variables renamed to `$c` -/
example : ((⟨fun _ => "c"⟩ : Vr).doc ⟨[.op "query" none [{ name := "a", type := .named "Int", default := none },
      { name := "b", type := .named "Int", default := none }] [] 0 []]⟩).defs =
    [.op "query" none [{ name := "c", type := .named "Int", default := none },
      { name := "c", type := .named "Int", default := none }] [] 0 []] := rfl

end PyGql.Props.C06

/-
  C01 — the SPEC-EDITION READINGS of the lexical grammar, isolated (known findings LA1, LA3, LA4; LA2 concerns the
  syntactic grammar and is the `nla` item of `Spec/Grammar.lean`).

  `follow_int_clauses` / `follow_float_clauses` / `follow_string_clause`
        `Spec.Lexical.Follow` (the side condition of `lex_sound` / `lex_render` / `lexAll_ok_iff`) is EXACTLY maximal munch
        plus the named clauses of `Spec/LexicalReadings.lean` — nothing else is assumed about what may follow a lexeme.
  LA3   `triple_quote_pinned`    three quotes always open a block string: a text starting with `"""` never yields the empty
                                 string token; `""""` is NonTerminatedString at 4 (the pinned test value)
        `june2018_adjacent_strings_refuted`   … so `""` directly followed by a string does NOT lex like `""` `"…"`
  LA4   `leading_zero_pinned`    `0` / `-0` directly followed by a digit is UnexpectedCharacter at that digit
        `june2018_split_number_refuted`       … so `00` does NOT lex like `0` `0`
  (LA1: `number_lookahead_pinned`, `june2018_glued_number_refuted` in `Props/C01_lex.lean`.)
-/
import PyGqlModel.Props.C01_lex
import PyGqlModel.Spec.LexicalReadings
namespace PyGql.Props.C01
open PyGql.Lex
open PyGql.Spec.Lexical (Follow startsWith NumberLookahead EmptyStringLookahead ZeroLookahead DigitsMaximal NoFractionFollows)

private theorem startsWith_or (p q : Nat → Bool) (t : Text) :
    startsWith (fun c => p c || q c) t = false ↔ startsWith p t = false ∧ startsWith q t = false := by
  cases t with
  | nil => simp [startsWith]
  | cons c t => simp [startsWith]

/-- what may follow an IntValue: maximal munch of its digits, LA4, no fraction, LA1 — and nothing else -/
theorem follow_int_clauses (lex rest : Text) :
    Follow .int lex rest ↔
      DigitsMaximal lex rest ∧ ZeroLookahead lex rest ∧ NoFractionFollows rest ∧ NumberLookahead rest := by
  have e : Follow .int lex rest ↔ startsWith (fun c => (Spec.Lexical.isDigit c || Spec.Lexical.isNameStart c) || c == 46) rest = false :=
    Iff.rfl
  rw [e, startsWith_or, startsWith_or]
  unfold DigitsMaximal ZeroLookahead NoFractionFollows NumberLookahead
  constructor
  · rintro ⟨⟨hd, hn⟩, hf⟩; exact ⟨fun _ => hd, fun _ => hd, hf, hn⟩
  · rintro ⟨h1, h2, hf, hn⟩
    refine ⟨⟨?_, hn⟩, hf⟩
    by_cases hz : Spec.Lexical.stripNegativeSign lex = [48]
    · exact h2 hz
    · exact h1 hz

/-- what may follow a FloatValue: maximal munch of its last digit sequence and LA1 -/
theorem follow_float_clauses (lex rest : Text) :
    Follow .float lex rest ↔ startsWith Spec.Lexical.isDigit rest = false ∧ NumberLookahead rest := by
  have e : Follow .float lex rest ↔ startsWith (fun c => Spec.Lexical.isDigit c || Spec.Lexical.isNameStart c) rest = false :=
    Iff.rfl
  rw [e, startsWith_or]; rfl

/-- what may follow a quoted StringValue: only LA3 -/
theorem follow_string_clause (lex rest : Text) : Follow .string lex rest ↔ EmptyStringLookahead lex rest := Iff.rfl

/-! ### LA3 — three quotes always open a block string -/

/-- `triple_quote_pinned`: whatever follows, a text that starts with three quotes is never lexed as the empty string `""`
    followed by something: if it is accepted at all, its first token is a block string starting at 0. -/
theorem triple_quote_pinned (t : Text) (toks : List Tok) (h : lexAll (34 :: 34 :: 34 :: t) = .ok toks) :
    ∃ tok more, toks = sofTok :: tok :: more ∧ tok.kind = .blockString ∧ tok.start = 0 := by
  unfold lexAll at h
  simp only [List.length_cons, lexLoop] at h
  have hn : next (t.length + 1 + 1 + 1) (34 :: 34 :: 34 :: t) =
      (readBlockString (t.length + 1 + 1 + 1) (34 :: 34 :: 34 :: t)).map (fun p => (p.1, some p.2)) := by
    have hi : isIgnored 34 = false := by decide
    have hp : isPrintable 34 = true := by decide
    have hs : symbolKind 34 = none := by decide
    simp [next, readOverWhitespace, hi, hp, hs, tq, List.isPrefixOf]
  rw [hn] at h
  unfold readBlockString at h
  cases hb : readBlockBody (t.length + 1 + 1 + 1) 0 (List.drop 3 (34 :: 34 :: 34 :: t)) with
  | error e => rw [hb] at h; simp [Except.map] at h
  | ok p =>
    obtain ⟨raw, rest⟩ := p
    rw [hb] at h
    simp only [Except.map] at h
    split at h
    · rename_i toks1 h1
      split at h1
      · rename_i toks2 _
        simp only [Except.ok.injEq] at h1 h
        subst h1
        exact ⟨_, toks2, h.symm, rfl, by simp [posAt]⟩
      · cases h1
    · cases h

/-- the pinned value: `""""` is NonTerminatedString at position 4 (tests/test_lang/test_lexer.py::test_useful_string_errors) -/
theorem four_quotes_rejected : lexAll [34, 34, 34, 34] = .error ⟨.nonTerminatedString, 4⟩ := by rfl

/-- the literal June-2018 reading (no look-ahead restriction on `""`): an empty string directly followed by another string
    lexes like the same text with a space in between -/
def June2018AdjacentStringsStatement : Prop :=
  ∀ (t : Text) (toks : List Tok), lexAll (34 :: 34 :: 32 :: 34 :: t) = .ok toks →
    ∃ toks', lexAll (34 :: 34 :: 34 :: t) = .ok toks' ∧ toks'.map kv = toks.map kv

/-- refutation, witness `"" ""` vs `""""` (replay: `parse_value('[""""]')`) -/
theorem june2018_adjacent_strings_refuted : ¬ June2018AdjacentStringsStatement := by
  intro h
  obtain ⟨toks', h', _⟩ := h [34] _
    (show lexAll [34, 34, 32, 34, 34] = .ok [sofTok, ⟨.string, 0, 2, []⟩, ⟨.string, 3, 5, []⟩, eofTok 5] by rfl)
  rw [four_quotes_rejected] at h'
  cases h'

/-! ### LA4 — no digit directly after the integer part `0` -/

/-- `leading_zero_pinned`: `0` (or `-0`) directly followed by a digit is rejected with UnexpectedCharacter AT THAT DIGIT —
    never lexed as `0` followed by another number. -/
theorem leading_zero_pinned (d : Nat) (t : Text) (hd : Spec.Lexical.isDigit d = true) :
    lexAll (48 :: d :: t) = .error ⟨.unexpectedCharacter, 1⟩ ∧
    lexAll (45 :: 48 :: d :: t) = .error ⟨.unexpectedCharacter, 2⟩ := by
  have hd' : isDigit d = true := by rw [isDigit_spec]; exact hd
  have hi0 : isIgnored 48 = false := by decide
  have hp0 : isPrintable 48 = true := by decide
  have hs0 : symbolKind 48 = none := by decide
  have hd0 : isDigit 48 = true := by decide
  have hi1 : isIgnored 45 = false := by decide
  have hp1 : isPrintable 45 = true := by decide
  have hs1 : symbolKind 45 = none := by decide
  constructor
  · unfold lexAll
    simp only [List.length_cons, lexLoop]
    have : next (t.length + 1 + 1) (48 :: d :: t) = .error ⟨.unexpectedCharacter, 1⟩ := by
      simp [next, readOverWhitespace, hi0, hp0, hs0, hd0, tq, List.isPrefixOf, readNumber, skipMinus, readOverInteger, hd',
        Except.map, bind, Except.bind, posAt]
    rw [this]
  · unfold lexAll
    simp only [List.length_cons, lexLoop]
    have : next (t.length + 1 + 1 + 1) (45 :: 48 :: d :: t) = .error ⟨.unexpectedCharacter, 2⟩ := by
      simp [next, readOverWhitespace, hi1, hp1, hs1, tq, List.isPrefixOf, readNumber, skipMinus, readOverInteger, hd',
        Except.map, bind, Except.bind, posAt]
    rw [this]

/-- the literal June-2018 reading with plain maximal munch: `0` directly followed by a number lexes like the same text with
    a space in between (`00` = `0` `0`, `-007` = `-0` `0` `7`, `00.5` = `0` `0.5`) -/
def June2018SplitNumberStatement : Prop :=
  ∀ (d : Nat) (t : Text) (toks : List Tok), Spec.Lexical.isDigit d = true → lexAll (48 :: 32 :: d :: t) = .ok toks →
    ∃ toks', lexAll (48 :: d :: t) = .ok toks' ∧ toks'.map kv = toks.map kv

/-- refutation, witness `0 0` vs `00` (replay: `parse_value("[00]")`) -/
theorem june2018_split_number_refuted : ¬ June2018SplitNumberStatement := by
  intro h
  obtain ⟨toks', h', _⟩ := h 48 [] _ (by decide)
    (show lexAll [48, 32, 48] = .ok [sofTok, ⟨.int, 0, 1, [48]⟩, ⟨.int, 2, 3, [48]⟩, eofTok 3] by rfl)
  rw [(leading_zero_pinned 48 [] (by decide)).1] at h'
  cases h'

/-! ### non-vacuity -/
example : lexAll [34, 34, 34, 97, 34, 34, 34] = .ok [sofTok, ⟨.blockString, 0, 7, [97]⟩, eofTok 7] := by rfl
/-- `"a"""` IS accepted (`"a"` then `""`): the restriction only concerns the EMPTY string -/
example : (lexAll [34, 97, 34, 34, 34]).toOption.map (·.map kv) =
    some [kv sofTok, (.string, [97]), (.string, []), kv (eofTok 5)] := by decide
example : lexAll [45, 48, 48, 55] = .error ⟨.unexpectedCharacter, 2⟩ := by rfl
example : lexAll [48, 48, 46, 53] = .error ⟨.unexpectedCharacter, 1⟩ := by rfl
example : EmptyStringLookahead [34, 34] [32, 34] := fun _ => rfl
example : ¬ EmptyStringLookahead [34, 34] [34, 34] := fun h => by simpa [startsWith] using h rfl
example : ¬ ZeroLookahead [45, 48] [48, 55] := fun h => by
  have := h rfl
  simp [startsWith, Spec.Lexical.isDigit] at this

end PyGql.Props.C01

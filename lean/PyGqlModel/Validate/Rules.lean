/-
  The 26 rule visitors of `validation/rules/__init__.py`, `values_of_correct_type.py` and
  `overlapping_fields_can_be_merged.py`, with their accumulators, as handlers
  `enterRule / leaveRule : Rule → Node → TI → RS → RS (× raised SkipNode)`.
  Errors are recorded as the rule that holds them (no message text).
-/
import PyGqlModel.Validate.Variables
import PyGqlModel.Validate.Overlap
namespace PyGql.Validate
open PyGql

inductive Rule where
  | executableDefinitions | uniqueOperationName | loneAnonymousOperation | singleFieldSubscriptions
  | knownTypeNames | fragmentsOnCompositeTypes | variablesAreInputTypes | scalarLeafs | fieldsOnCorrectType
  | uniqueFragmentNames | knownFragmentNames | noUnusedFragments | possibleFragmentSpreads | noFragmentCycles
  | uniqueVariableNames | noUndefinedVariables | noUnusedVariables | knownDirectives
  | uniqueDirectivesPerLocation | knownArgumentNames | uniqueArgumentNames | valuesOfCorrectType
  | providedRequiredArguments | variablesInAllowedPosition | overlappingFieldsCanBeMerged | uniqueInputFieldNames
  deriving DecidableEq, Repr, Inhabited

namespace Rule
/-- class name in `validation/rules` -/
def name : Rule → String
  | executableDefinitions => "ExecutableDefinitionsChecker"
  | uniqueOperationName => "UniqueOperationNameChecker"
  | loneAnonymousOperation => "LoneAnonymousOperationChecker"
  | singleFieldSubscriptions => "SingleFieldSubscriptionsChecker"
  | knownTypeNames => "KnownTypeNamesChecker"
  | fragmentsOnCompositeTypes => "FragmentsOnCompositeTypesChecker"
  | variablesAreInputTypes => "VariablesAreInputTypesChecker"
  | scalarLeafs => "ScalarLeafsChecker"
  | fieldsOnCorrectType => "FieldsOnCorrectTypeChecker"
  | uniqueFragmentNames => "UniqueFragmentNamesChecker"
  | knownFragmentNames => "KnownFragmentNamesChecker"
  | noUnusedFragments => "NoUnusedFragmentsChecker"
  | possibleFragmentSpreads => "PossibleFragmentSpreadsChecker"
  | noFragmentCycles => "NoFragmentCyclesChecker"
  | uniqueVariableNames => "UniqueVariableNamesChecker"
  | noUndefinedVariables => "NoUndefinedVariablesChecker"
  | noUnusedVariables => "NoUnusedVariablesChecker"
  | knownDirectives => "KnownDirectivesChecker"
  | uniqueDirectivesPerLocation => "UniqueDirectivesPerLocationChecker"
  | knownArgumentNames => "KnownArgumentNamesChecker"
  | uniqueArgumentNames => "UniqueArgumentNamesChecker"
  | valuesOfCorrectType => "ValuesOfCorrectTypeChecker"
  | providedRequiredArguments => "ProvidedRequiredArgumentsChecker"
  | variablesInAllowedPosition => "VariablesInAllowedPositionChecker"
  | overlappingFieldsCanBeMerged => "OverlappingFieldsCanBeMergedChecker"
  | uniqueInputFieldNames => "UniqueInputFieldNamesChecker"

/-- the model's `SPECIFIED_RULES` -/
def all : List Rule :=
  [executableDefinitions, uniqueOperationName, loneAnonymousOperation, singleFieldSubscriptions,
   knownTypeNames, fragmentsOnCompositeTypes, variablesAreInputTypes, scalarLeafs, fieldsOnCorrectType,
   uniqueFragmentNames, knownFragmentNames, noUnusedFragments, possibleFragmentSpreads, noFragmentCycles,
   uniqueVariableNames, noUndefinedVariables, noUnusedVariables, knownDirectives,
   uniqueDirectivesPerLocation, knownArgumentNames, uniqueArgumentNames, valuesOfCorrectType,
   providedRequiredArguments, variablesInAllowedPosition, overlappingFieldsCanBeMerged, uniqueInputFieldNames]

def ofName (n : String) : Option Rule := all.find? (·.name == n)
end Rule

/-- what the dispatching visitor sees -/
inductive Node where
  | document (d : Doc)
  | operation (kind : String) (name : Option String) (vars : List VarDef) (dirs : List Dir) (sels : List Sel)
  | fragmentDef (name on : String) (dirs : List Dir)
  | tsDef
  | varDef (v : VarDef)
  | typeNode (t : Ty)
  | directive (d : Dir)
  | argument (a : Arg)
  | selectionSet (ssid : Nat) (sels : List Sel)
  | field (name : String) (args : List Arg) (dirs : List Dir) (hasSub : Bool)
  | spread (name : String) (dirs : List Dir)
  | inline (on : Option String) (dirs : List Dir)
  | value (v : Value)
  | objField (name : String)

/-- ancestors of `KnownDirectivesChecker` -/
inductive Anc where
  | op (kind : String) | field | spread | inline | fragDef | varDef
  deriving Repr, Inhabited

def Anc.location : Anc → String
  | .op "mutation" => "MUTATION" | .op "subscription" => "SUBSCRIPTION" | .op _ => "QUERY"
  | .field => "FIELD" | .spread => "FRAGMENT_SPREAD" | .inline => "INLINE_FRAGMENT" | .fragDef => "FRAGMENT_DEFINITION"
  | .varDef => "VARIABLE_DEFINITION"

structure RS where
  /-- errors, newest first: the rule whose visitor instance holds the error -/
  errs : List Rule := []
  /-- a Python exception ended validation -/
  crash : Option String := none
  opNames : List String := []
  fragNames : List String := []
  knownFrags : List String := []
  nufFrags : List String := []
  nufUsed : List String := []
  pfsTypes : AL String := []
  cycSpreads : AL (List String) := []
  cycCurrent : Option String := none
  uvVars : List String := []
  vcUndef : VC := {}
  vcUnused : VC := {}
  vcPos : VC := {}
  ancestors : List Anc := []
  uifStack : List (List String) := []
  octx : OCtx := {}
  /-- `SingleFieldSubscriptionsChecker._fragments` (last definition of a name wins) and the bound for the collection -/
  sfsFrags : AL (List Sel) := []
  sfsFuel : Nat := 0
  deriving Inhabited

def RS.err (r : Rule) (s : RS) : RS := { s with errs := r :: s.errs }
def RS.errN (r : Rule) (n : Nat) (s : RS) : RS := { s with errs := List.replicate n r ++ s.errs }

/-- number of duplicates met by a `seen`-set loop: `for x in xs: if x in seen: error; seen.add(x)` -/
def dupCount : List String → List String → Nat
  | _, [] => 0
  | seen, x :: xs => (if seen.contains x then 1 else 0) + dupCount (x :: seen) xs

/-! ### SingleFieldSubscriptionsChecker: `CollectFields` restricted to response keys (proposed_fixes/C06-H6) -/

mutual
def selSize : Sel → Nat
  | .field _ _ _ _ _ _ sub => selsSize sub + 1
  | .spread _ _ => 1
  | .inline _ _ _ sub => selsSize sub + 1
def selsSize : List Sel → Nat
  | [] => 0
  | x :: xs => selSize x + selsSize xs
end

/-- `_response_keys` as a work list: inline fragments and (once each) named fragments are opened, fields with the same
    response key are one entry. `fuel` bounds the number of selections processed (every fragment is opened once) -/
def rootKeysGo (frs : AL (List Sel)) : Nat → List Sel → List String → List String → List String
  | 0, _, ks, _ => ks
  | _ + 1, [], ks, _ => ks
  | f + 1, .field alias name _ _ _ _ _ :: rest, ks, vis =>
    let k := match alias with | some a => a | none => name
    rootKeysGo frs f rest (if ks.contains k then ks else ks ++ [k]) vis
  | f + 1, .inline _ _ _ sub :: rest, ks, vis => rootKeysGo frs f (sub ++ rest) ks vis
  | f + 1, .spread name _ :: rest, ks, vis =>
    if vis.contains name then rootKeysGo frs f rest ks vis
    else match AL.get? frs name with
      | some sels => rootKeysGo frs f (sels ++ rest) ks (name :: vis)
      | none => rootKeysGo frs f rest ks (name :: vis)

/-- the fragment table and the bound of a document -/
def sfsTable (d : Doc) : AL (List Sel) :=
  d.defs.foldl (fun m x => match x with | .frag n _ _ _ sels => AL.set m n sels | _ => m) []
def sfsBound (d : Doc) : Nat :=
  d.defs.foldl (fun n x => match x with | .frag _ _ _ _ sels => n + selsSize sels + 1 | .op _ _ _ _ _ sels => n + selsSize sels + 1 | _ => n) 1

/-- the response keys of the root selection set of an operation of `d` -/
def rootKeys (frs : AL (List Sel)) (fuel : Nat) (sels : List Sel) : List String := rootKeysGo frs fuel sels [] []

def fragDefs (d : Doc) : List (String × String × Nat × List Sel) :=
  d.defs.filterMap fun | .frag n on _ id sels => some (n, on, id, sels) | _ => none

/-! ### NoFragmentCyclesChecker.leave_document -/

/-- the loop over `self._spreads[outer]` inside `_search`; `rec` is `_search` itself (one level deeper).
    unfixed: `break` at a visited fragment; fix 874f2dd: `continue` -/
def cycLoop (fx : Fixes) (rec : String → AL (List String) → List String → AL (List String)) (path : List String) :
    List String → AL (List String) → AL (List String)
  | [], acc => acc
  | inner :: rest, acc =>
    if AL.has acc inner then (if fx.v11 then cycLoop fx rec path rest acc else acc)
    else cycLoop fx rec path rest (rec inner (AL.set acc inner path) (path ++ [inner]))

/-- `_search(outer, acc, path)`: `acc` is the shared dict -/
def cycSearch (fx : Fixes) (spreads : AL (List String)) : Nat → String → AL (List String) → List String → AL (List String)
  | 0, _, acc, _ => acc
  | fuel+1, outer, acc, path =>
    match AL.get? spreads outer with
    | none => acc
    | some inners => cycLoop fx (cycSearch fx spreads fuel) path inners acc

def cycFuel (spreads : AL (List String)) : Nat := spreads.foldl (fun n p => n + p.2.length + 1) 2

/-- one iteration of `for outer, inner_spreads in flat_spreads` in `leave_document`:
    state = (errors, `cyclic`, IndexError?) -/
def cycStep (fx : Fixes) (spreads : AL (List String)) (st : Nat × List String × Bool) (outer : String) :
    Nat × List String × Bool :=
  let acc := cycSearch fx spreads (cycFuel spreads) outer [] []
  match AL.get? acc outer with
  | none => st
  | some path =>
    let cyclic := outer :: st.2.1
    match path.getLast? with
    | none => (st.1, cyclic, true)
    | some l => if cyclic.contains l then (st.1, cyclic, st.2.2) else (st.1 + 1, cyclic, st.2.2)

/-- (errors, IndexError?) of `leave_document` -/
def cycErrors (fx : Fixes) (spreads : AL (List String)) : Nat × Bool :=
  let r := (AL.keys spreads).foldl (cycStep fx spreads) (0, [], false)
  (r.1, r.2.2)

/-! ### ValuesOfCorrectTypeChecker -/

def specifiedScalars : List String := ["Int", "Float", "Boolean", "String", "ID"]

def intInRange (str : String) : Bool :=
  match str.toInt? with
  | some n => decide (-2147483648 ≤ n) && decide (n ≤ 2147483647)
  | none => false

/-- does `named_type.parse_literal(node)` raise `ScalarParsingError`? (`none` = another exception escapes) -/
def parseLiteralFails (scalar : String) (v : Value) : Option Bool :=
  if specifiedScalars.contains scalar then
    some (match scalar, v with
      | "Int", .int str => !intInRange str
      | "Float", .float _ => false
      | "Float", .int _ => false
      | "String", .str _ => false
      | "Boolean", .bool _ => false
      | "ID", .str _ => false
      | "ID", .int _ => false
      | _, _ => true)
  else
    -- custom scalar built from SDL: `parse_literal = _untyped_literal` (/repo a2b8a10): every literal is accepted -
    -- scalar and enum literals by their `.value`, `null`, list and object literals converted (JSON-like scalars)
    -- a variable inside stands for its value; at validation time no values are known and it converts to `None`
    -- (proposed_fixes/C06-H7; before: the conversion raised, reported as an invalid literal). A bare variable is
    -- never handed to `_check_scalar`.
    match v with
    | .var _ => some true
    | _ => some false

/-- `_check_scalar(node)`: errors added (0/1), or `none` = crash -/
def checkScalar (s : SchemaD) (ti : TI) (v : Value) : Option Nat :=
  match ti.inputType with
  | none => some 0
  | some it =>
    if !isScalar s it.base then some 1
    else match parseLiteralFails it.base v with
      | none => none
      | some true => some 1
      | some false => some 0

/-- `enter_object_value` at a position that is not of input-object type raises `SkipNode` only when `_check_scalar`
    reported (proposed_fixes/C06-H5: an ACCEPTED object literal - custom scalar - stays visible to the other rules) -/
def scalarSkip (o : Option Nat) : Bool := o != some 0

def RS.addOpt (r : Rule) (o : Option Nat) (st : RS) : RS :=
  match o with
  | some n => st.errN r n
  | none => { st with crash := some "AttributeError" }

open Rule in
/-- `visitor.enter(node)`; the Bool is "raised SkipNode" -/
def enterRule (s : SchemaD) (fx : Fixes) (r : Rule) (n : Node) (ti : TI) (st : RS) : RS × Bool :=
  match r, n with
  | executableDefinitions, .document d =>
    let k := (d.defs.filter fun x => !x.isExecutable).length
    (st.errN r k, k > 0)
  | uniqueOperationName, .operation kind name _ _ _ =>
    let nm := name.getD kind
    if st.opNames.contains nm then (st.err r, true) else ({ st with opNames := nm :: st.opNames }, false)
  | loneAnonymousOperation, .document d =>
    let ops := d.defs.filter (·.isOp)
    let anon := ops.any (·.isAnonOp)
    if anon && ops.length > 1 then (st.err r, true) else (st, false)
  | singleFieldSubscriptions, .document d => ({ st with sfsFrags := sfsTable d, sfsFuel := sfsBound d }, false)
  | singleFieldSubscriptions, .operation kind _ _ _ sels =>
    (if kind == "subscription" && (rootKeys st.sfsFrags st.sfsFuel sels).length != 1 then st.err r else st, false)
  | knownTypeNames, .typeNode t => (if (typeFromAst s t).isNone then st.err r else st, false)
  | fragmentsOnCompositeTypes, .inline (some on) _ =>
    -- unknown type: `isComposite` is false; reported ("Unknown type") and skipped as well
    if isComposite s on then (st, false) else (st.err r, true)
  | fragmentsOnCompositeTypes, .fragmentDef _ on _ =>
    if isComposite s on then (st, false) else (st.err r, true)
  | variablesAreInputTypes, .varDef v =>
    (match typeFromAst s v.type with
      | none => st.err r
      | some t => if isInputTy s t then st else st.err r, false)
  | scalarLeafs, .field _ _ _ hasSub =>
    let base := ti.type.map (·.base)
    let leaf := match base with | some b => isLeaf s b | none => false
    let comp := match base with | some b => isComposite s b | none => false
    let st := if leaf && hasSub then st.err r else st
    (if comp && !hasSub then st.err r else st, false)
  | fieldsOnCorrectType, .field _ _ _ _ =>
    (match ti.parentType with
      | none => st
      | some _ => if ti.field.isNone then st.err r else st, false)
  | uniqueFragmentNames, .fragmentDef name _ _ =>
    let st := if st.fragNames.contains name then st.err r else st
    ({ st with fragNames := name :: st.fragNames }, false)
  | knownFragmentNames, .document d => ({ st with knownFrags := (fragDefs d).map (·.1) }, false)
  | knownFragmentNames, .spread name _ => (if st.knownFrags.contains name then st else st.err r, false)
  | noUnusedFragments, .fragmentDef name _ _ => ({ st with nufFrags := name :: st.nufFrags }, false)
  | noUnusedFragments, .spread name _ => ({ st with nufUsed := name :: st.nufUsed }, false)
  | possibleFragmentSpreads, .document d =>
    let fds := (fragDefs d).filter fun f => (typeFromAst s (.named f.2.1)).isSome
    ({ st with pfsTypes := fds.foldl (fun m f => AL.set m f.1 f.2.1) st.pfsTypes }, false)
  | possibleFragmentSpreads, .spread name _ =>
    let parent : Option String :=
      if fx.v10 then ti.parentType
      else match ti.type with | some (.named p) => some p | _ => none
    match AL.get? st.pfsTypes name, parent with
    | some ft, some p =>
      if isComposite s ft && isComposite s p && !typesOverlap s ft p then (st.err r, true) else (st, false)
    | _, _ => (st, false)
  | possibleFragmentSpreads, .inline _ _ =>
    match ti.type, ti.parentType with
    | some (.named t), some p =>
      if isComposite s t && isComposite s p && !typesOverlap s t p then (st.err r, true) else (st, false)
    | _, _ => (st, false)
  | noFragmentCycles, .fragmentDef name _ _ =>
    ({ st with cycCurrent := some name, cycSpreads := AL.set st.cycSpreads name [] }, false)
  | noFragmentCycles, .spread name _ =>
    match st.cycCurrent with
    | none => (st, false)
    | some cur =>
      if cur != "" && name == cur then (st.err r, true)
      else if (AL.getD st.cycSpreads cur []).contains name then (st, false)
      else ({ st with cycSpreads := AL.modify st.cycSpreads cur [] (· ++ [name]) }, false)
  | uniqueVariableNames, .operation .. => ({ st with uvVars := [] }, false)
  | uniqueVariableNames, .varDef v =>
    let st := if st.uvVars.contains v.name then st.err r else st
    ({ st with uvVars := v.name :: st.uvVars }, false)
  -- the three VariablesCollector instances
  | noUndefinedVariables, .operation _ name _ _ _ => ({ st with vcUndef := st.vcUndef.enterOperation name }, false)
  | noUndefinedVariables, .fragmentDef name _ _ => ({ st with vcUndef := st.vcUndef.enterFragmentDef name }, false)
  | noUndefinedVariables, .spread name _ => ({ st with vcUndef := st.vcUndef.enterSpread name }, false)
  | noUndefinedVariables, .varDef v => ({ st with vcUndef := st.vcUndef.enterVarDef v }, false)
  | noUndefinedVariables, .value (.var x) => ({ st with vcUndef := st.vcUndef.enterVariable fx x ti }, false)
  | noUnusedVariables, .operation _ name _ _ _ => ({ st with vcUnused := st.vcUnused.enterOperation name }, false)
  | noUnusedVariables, .fragmentDef name _ _ => ({ st with vcUnused := st.vcUnused.enterFragmentDef name }, false)
  | noUnusedVariables, .spread name _ => ({ st with vcUnused := st.vcUnused.enterSpread name }, false)
  | noUnusedVariables, .varDef v => ({ st with vcUnused := st.vcUnused.enterVarDef v }, false)
  | noUnusedVariables, .value (.var x) => ({ st with vcUnused := st.vcUnused.enterVariable fx x ti }, false)
  | variablesInAllowedPosition, .operation _ name _ _ _ => ({ st with vcPos := st.vcPos.enterOperation name }, false)
  | variablesInAllowedPosition, .fragmentDef name _ _ => ({ st with vcPos := st.vcPos.enterFragmentDef name }, false)
  | variablesInAllowedPosition, .spread name _ => ({ st with vcPos := st.vcPos.enterSpread name }, false)
  | variablesInAllowedPosition, .varDef v => ({ st with vcPos := st.vcPos.enterVarDef v }, false)
  | variablesInAllowedPosition, .value (.var x) => ({ st with vcPos := st.vcPos.enterVariable fx x ti }, false)
  | knownDirectives, .operation kind .. => ({ st with ancestors := .op kind :: st.ancestors }, false)
  | knownDirectives, .field .. => ({ st with ancestors := .field :: st.ancestors }, false)
  | knownDirectives, .spread .. => ({ st with ancestors := .spread :: st.ancestors }, false)
  | knownDirectives, .inline .. => ({ st with ancestors := .inline :: st.ancestors }, false)
  | knownDirectives, .fragmentDef .. => ({ st with ancestors := .fragDef :: st.ancestors }, false)
  | knownDirectives, .varDef _ => ({ st with ancestors := .varDef :: st.ancestors }, false)
  | knownDirectives, .directive d =>
    match findDirective s d.name with
    | none => (st.err r, false)
    | some sd =>
      match st.ancestors with
      | [] => ({ st with crash := some "IndexError" }, false)
      | a :: _ => (if sd.locations.contains a.location then st else st.err r, false)
  | uniqueDirectivesPerLocation, .operation _ _ _ dirs _ => (st.errN r (dupCount [] (dirs.map (·.name))), false)
  | uniqueDirectivesPerLocation, .field _ _ dirs _ => (st.errN r (dupCount [] (dirs.map (·.name))), false)
  | uniqueDirectivesPerLocation, .spread _ dirs => (st.errN r (dupCount [] (dirs.map (·.name))), false)
  | uniqueDirectivesPerLocation, .inline _ dirs => (st.errN r (dupCount [] (dirs.map (·.name))), false)
  | uniqueDirectivesPerLocation, .fragmentDef _ _ dirs => (st.errN r (dupCount [] (dirs.map (·.name))), false)
  | uniqueDirectivesPerLocation, .varDef v => (st.errN r (dupCount [] (v.dirs.map (·.name))), false)
  | knownArgumentNames, .field _ args _ _ =>
    (match ti.field with
      | none => st
      | some fd => st.errN r (args.filter fun a => !(fd.args.any (·.name == a.name))).length, false)
  | knownArgumentNames, .directive d =>
    (match ti.directive with
      | none => st
      | some dd => st.errN r (d.args.filter fun a => !(dd.args.any (·.name == a.name))).length, false)
  | uniqueArgumentNames, .field _ args _ _ => (st.errN r (dupCount [] (args.map (·.name))), false)
  | uniqueArgumentNames, .directive d => (st.errN r (dupCount [] (d.args.map (·.name))), false)
  | valuesOfCorrectType, .value v =>
    match v with
    | .int _ | .float _ | .str _ | .bool _ => (st.addOpt r (checkScalar s ti v), false)
    | .null => (match ti.inputType with | some (.nonNull _) => st.err r | _ => st, false)
    | .enum x =>
      (match ti.inputType.map (·.base) with
        | none => st
        | some b => if !isEnum s b then st.addOpt r (checkScalar s ti v)
                    else if enumHas s b x then st else st.err r, false)
    | .obj fs =>
      match ti.inputType.map (·.base) with
      | some b =>
        if isInputObject s b then
          let given := fs.map (·.name)
          (st.errN r ((inputFields s b).filter fun fd => ArgD.required fd && !given.contains fd.name).length, false)
        else (st.addOpt r (checkScalar s ti v), scalarSkip (checkScalar s ti v))
      | none => (st.addOpt r (checkScalar s ti v), scalarSkip (checkScalar s ti v))
    | _ => (st, false)
  | valuesOfCorrectType, .objField _ =>
    (match ti.inputType, ti.parentInputType s fx with
      | none, some _ => st.err r
      | _, _ => st, false)
  | overlappingFieldsCanBeMerged, .document d =>
    ({ st with octx := { st.octx with frags := (fragDefs d).foldl (fun m f => AL.set m f.1 f.2) st.octx.frags } }, false)
  | overlappingFieldsCanBeMerged, .selectionSet ssid sels =>
    let res := withinSelectionSet s fx ti.parentType ssid sels st.octx
    let st := { st with octx := res.2 }
    let st := match res.2.crash with | some e => { st with crash := some e } | none => st
    (st.errN r res.1, false)
  | uniqueInputFieldNames, .value (.obj _) => ({ st with uifStack := [] :: st.uifStack }, false)
  | uniqueInputFieldNames, .objField name =>
    match st.uifStack with
    | [] => ({ st with crash := some "IndexError" }, false)
    | names :: rest =>
      let st := if names.contains name then st.err r else st
      ({ st with uifStack := (name :: names) :: rest }, false)
  | _, _ => (st, false)

open Rule in
/-- `visitor.leave(node)` -/
def leaveRule (s : SchemaD) (fx : Fixes) (r : Rule) (n : Node) (ti : TI) (st : RS) : RS :=
  match r, n with
  | noUnusedFragments, .document _ =>
    if st.nufFrags.any fun f => !st.nufUsed.contains f then st.err r else st
  | noFragmentCycles, .fragmentDef .. => { st with cycCurrent := none }
  | noFragmentCycles, .document _ =>
    let res := cycErrors fx st.cycSpreads
    let st := st.errN r res.1
    if res.2 then { st with crash := some "IndexError" } else st
  | uniqueVariableNames, .operation .. => { st with uvVars := [] }
  | noUndefinedVariables, .operation .. => { st with vcUndef := st.vcUndef.leaveOperation }
  | noUndefinedVariables, .fragmentDef .. => { st with vcUndef := st.vcUndef.leaveFragmentDef }
  | noUndefinedVariables, .varDef _ => { st with vcUndef := st.vcUndef.leaveVarDef }
  | noUndefinedVariables, .document _ => st.errN r (st.vcUndef.flatten fx).undefinedErrors
  | noUnusedVariables, .operation .. => { st with vcUnused := st.vcUnused.leaveOperation }
  | noUnusedVariables, .fragmentDef .. => { st with vcUnused := st.vcUnused.leaveFragmentDef }
  | noUnusedVariables, .varDef _ => { st with vcUnused := st.vcUnused.leaveVarDef }
  | noUnusedVariables, .document _ => st.errN r (st.vcUnused.flatten fx).unusedErrors
  | variablesInAllowedPosition, .operation .. => { st with vcPos := st.vcPos.leaveOperation }
  | variablesInAllowedPosition, .fragmentDef .. => { st with vcPos := st.vcPos.leaveFragmentDef }
  | variablesInAllowedPosition, .varDef _ => { st with vcPos := st.vcPos.leaveVarDef }
  | variablesInAllowedPosition, .document _ => st.errN r ((st.vcPos.flatten fx).positionErrors s)
  | knownDirectives, .operation .. => { st with ancestors := st.ancestors.drop 1 }
  | knownDirectives, .field .. => { st with ancestors := st.ancestors.drop 1 }
  | knownDirectives, .spread .. => { st with ancestors := st.ancestors.drop 1 }
  | knownDirectives, .inline .. => { st with ancestors := st.ancestors.drop 1 }
  | knownDirectives, .fragmentDef .. => { st with ancestors := st.ancestors.drop 1 }
  | knownDirectives, .varDef _ => { st with ancestors := st.ancestors.drop 1 }
  | providedRequiredArguments, .field _ args _ _ =>
    match ti.field with
    | none => st
    | some fd => st.errN r (fd.args.filter fun a => ArgD.required a && !(args.any (·.name == a.name))).length
  | providedRequiredArguments, .directive d =>
    match ti.directive with
    | none => st
    | some dd => st.errN r (dd.args.filter fun a => ArgD.required a && !(d.args.any (·.name == a.name))).length
  | uniqueInputFieldNames, .value (.obj _) => { st with uifStack := st.uifStack.drop 1 }
  | _, _ => st

end PyGql.Validate

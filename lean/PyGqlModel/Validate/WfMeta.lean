/-
  Documents that do not select an introspection meta field (`__schema`, `__type`, `__typename`) WITH a sub-selection.
  For such a field the parent type that `OverlappingFieldsCanBeMergedChecker` derives for the sub-selection (through
  `fieldOf`, which only knows the fields of the type) differs from the one `TypeInfoVisitor` shows (through
  `_get_field_def`, which knows the meta fields); the equivalence for 5.3.2 is proved for documents without them.
  Computable, so that the driver can check it.
-/
import PyGqlModel.Spec.ValidSpec
namespace PyGql.Validate
open PyGql PyGql.Validate.Spec

def metaFieldNames : List String := ["__schema", "__type", "__typename"]

def nodeNoMetaSub : Node → Bool
  | .field name _ _ true => !metaFieldNames.contains name
  | _ => true

def noMetaSubsB (d : Doc) : Bool := (nodes d).all nodeNoMetaSub

/-- no field with a sub-selection is an introspection meta field -/
def NoMetaSubs (d : Doc) : Prop :=
  ∀ n ∈ nodes d, ∀ name args dirs, n = Node.field name args dirs true → name ∉ metaFieldNames

theorem noMetaSubsB_iff (d : Doc) : noMetaSubsB d = true ↔ NoMetaSubs d := by
  unfold noMetaSubsB NoMetaSubs
  rw [List.all_eq_true]
  constructor
  · intro h n hn name args dirs e
    have := h n hn; subst e
    simpa [nodeNoMetaSub] using this
  · intro h n hn
    cases n with
    | field name args dirs hs =>
      cases hs with
      | true => simpa [nodeNoMetaSub] using h _ hn name args dirs rfl
      | false => rfl
    | _ => rfl

end PyGql.Validate

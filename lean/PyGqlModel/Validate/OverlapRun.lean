/-
  The observation "the search of `OverlappingFieldsCanBeMergedChecker`, run alone, did not raise" (no `RecursionError` =
  the model's fuel, no `AttributeError`), computable so that the driver can report it with every document.
-/
import PyGqlModel.Validate.Chain
namespace PyGql.Validate
open PyGql

def overlapNoCrashB (s : SchemaD) (fx : Fixes) (d : Doc) : Bool :=
  (visitDocument ⟨s, fx, [.overlappingFieldsCanBeMerged]⟩ d {}).rs.crash.isNone

end PyGql.Validate

/-
  `Validate/Chain.lean` with the rules' enter function as a PARAMETER (generated from it by renaming: same traversal,
  same `SkipNode` handling), so that the chain can be run with the memoised overlap search (`enterRuleM`,
  /repo 7e75356) while `Chain.lean` - the chain of the theorems - stays as it is. `visitDocumentG enterRule = visitDocument`
  by construction (not proved; the correspondence cross-checks both chains on every ranked document).
-/
import PyGqlModel.Validate.Chain
import PyGqlModel.Validate.OverlapMemo
namespace PyGql.Validate
open PyGql

abbrev ER := SchemaD → Fixes → Rule → Node → TI → RS → RS × Bool

/-- the rules' part of `ChainedVisitor.enter`: every rule enters; the flag says whether some rule raised `SkipNode` -/
def enterRulesG (er : ER) (c : Cfg) (n : Node) (ti : TI) : List Rule → RS → RS × Bool
  | [], rs => (rs, false)
  | r :: rest, rs =>
    let (rs, skip) := er c.schema c.fixes r n ti rs
    let (rs', skip') := enterRulesG er c n ti rest rs
    (rs', skip || skip')

/-- the rules that raised `SkipNode` in `enterRules` (same threading of the rule state) -/
def raisedRulesG (er : ER) (c : Cfg) (n : Node) (ti : TI) : List Rule → RS → List Rule
  | [], _ => []
  | r :: rest, rs =>
    let (rs', skip) := er c.schema c.fixes r n ti rs
    if skip then r :: raisedRulesG er c n ti rest rs' else raisedRulesG er c n ti rest rs'

def enterG (er : ER) (c : Cfg) (n : Node) (st : St) : St × Bool :=
  let ti := tiEnter c.schema n st.ti
  let (rs, skip) := enterRulesG er c n ti c.rules st.rs
  ({ ti, rs }, skip)

def leaveG (er : ER) (c : Cfg) (n : Node) (st : St) : St :=
  let rs := c.rules.reverse.foldl (fun rs r => leaveRule c.schema c.fixes r n st.ti rs) st.rs
  { ti := tiLeave n st.ti, rs }

/-- after a `SkipNode`: `st0` is the state before `enter`, `st1` the state after it. The members that entered
    without raising are left in reverse order, `TypeInfoVisitor` last -/
def leaveSkippedG (er : ER) (c : Cfg) (n : Node) (st0 st1 : St) : St :=
  let raised := raisedRulesG er c n st1.ti c.rules st0.rs
  let rs := (c.rules.filter fun r => !raised.contains r).reverse.foldl
    (fun rs r => leaveRule c.schema c.fixes r n st1.ti rs) st1.rs
  { ti := tiLeave n st1.ti, rs }

/-- `_visit_method` wrapper -/
@[inline] def visitNodeG (er : ER) (c : Cfg) (n : Node) (body : St → St) (st : St) : St :=
  let (st1, skip) := enterG er c n st
  if skip then leaveSkippedG er c n st st1 else leaveG er c n (body st1)

mutual
def visitValueG (er : ER) (c : Cfg) : Value → St → St
  | v, st =>
    visitNodeG er c (.value v) (fun st =>
      match v with
      | .list vs => visitValuesG er c vs st
      | .obj fs => visitObjFieldsG er c fs st
      | _ => st) st
def visitValuesG (er : ER) (c : Cfg) : List Value → St → St
  | [], st => st
  | v :: vs, st => visitValuesG er c vs (visitValueG er c v st)
def visitObjFieldG (er : ER) (c : Cfg) : ObjField → St → St
  | .mk name v, st => visitNodeG er c (.objField name) (visitValueG er c v) st
def visitObjFieldsG (er : ER) (c : Cfg) : List ObjField → St → St
  | [], st => st
  | f :: fs, st => visitObjFieldsG er c fs (visitObjFieldG er c f st)
end

def visitArgumentG (er : ER) (c : Cfg) (a : Arg) (st : St) : St := visitNodeG er c (.argument a) (visitValueG er c a.value) st
def visitArgumentsG (er : ER) (c : Cfg) (as : List Arg) (st : St) : St := as.foldl (fun st a => visitArgumentG er c a st) st
def visitDirectiveG (er : ER) (c : Cfg) (d : Dir) (st : St) : St := visitNodeG er c (.directive d) (visitArgumentsG er c d.args) st
def visitDirectivesG (er : ER) (c : Cfg) (ds : List Dir) (st : St) : St := ds.foldl (fun st d => visitDirectiveG er c d st) st

mutual
def visitSelG (er : ER) (c : Cfg) : Sel → St → St
  | .field _ name args dirs hasSub ssid sub, st =>
    visitNodeG er c (.field name args dirs hasSub) (fun st =>
      let st := visitDirectivesG er c dirs (visitArgumentsG er c args st)
      if hasSub then visitNodeG er c (.selectionSet ssid sub) (visitSelsG er c sub) st else st) st
  | .spread name dirs, st => visitNodeG er c (.spread name dirs) (visitDirectivesG er c dirs) st
  | .inline on dirs ssid sub, st =>
    visitNodeG er c (.inline on dirs) (fun st =>
      visitNodeG er c (.selectionSet ssid sub) (visitSelsG er c sub) (visitDirectivesG er c dirs st)) st
def visitSelsG (er : ER) (c : Cfg) : List Sel → St → St
  | [], st => st
  | x :: xs, st => visitSelsG er c xs (visitSelG er c x st)
end

def visitVarDefG (er : ER) (c : Cfg) (v : VarDef) (st : St) : St :=
  visitNodeG er c (.varDef v) (fun st =>
    let st := match v.default with | some d => visitValueG er c d st | none => st
    visitNodeG er c (.typeNode v.type) id st) st

def visitDefG (er : ER) (c : Cfg) (d : Def) (st : St) : St :=
  match d with
  | .op kind name vars dirs ssid sels =>
    visitNodeG er c (.operation kind name vars dirs sels) (fun st =>
      let st := vars.foldl (fun st v => visitVarDefG er c v st) st
      let st := visitDirectivesG er c dirs st
      visitNodeG er c (.selectionSet ssid sels) (visitSelsG er c sels) st) st
  | .frag name on dirs ssid sels =>
    visitNodeG er c (.fragmentDef name on dirs) (fun st =>
      visitNodeG er c (.selectionSet ssid sels) (visitSelsG er c sels) (visitDirectivesG er c dirs st)) st
  | .ts .. => visitNodeG er c .tsDef id st

def visitDocumentG (er : ER) (c : Cfg) (d : Doc) (st : St) : St :=
  visitNodeG er c (.document d) (fun st => d.defs.foldl (fun st x => visitDefG er c x st) st) st


/-- `enterRule` with the memoised overlap search and a recursion budget of `fuel` frames -/
def enterRuleM (fuel : Nat) : ER := fun s fx r n ti st =>
  match r, n with
  | .overlappingFieldsCanBeMerged, .selectionSet ssid sels =>
    let res := withinSelectionSetM s fx fuel ti.parentType ssid sels st.octx
    let st := { st with octx := res.2 }
    let st := match res.2.crash with | some e => { st with crash := some e } | none => st
    (st.errN r res.1, false)
  | _, _ => enterRule s fx r n ti st

/-- `run` with the memoised overlap search -/
def runM (fuel : Nat) (c : Cfg) (d : Doc) : Outcome :=
  let st := visitDocumentG (enterRuleM fuel) c d {}
  match st.rs.crash with
  | some e => .crash e
  | none => .errors (c.rules.map fun r => (r, countOf st.rs.errs r))

end PyGql.Validate

/-
  A computable check on a schema description: every field of every type has an OUTPUT type (scalar, enum, object,
  interface or union after unwrapping). `Schema.validate()` guarantees it for a schema built by py-gql (C05); the
  equivalence for `OverlappingFieldsCanBeMergedChecker` (5.3.2) is proved for such schemas. The driver reports the
  check with every request.
-/
import PyGqlModel.Validate.Schema
namespace PyGql.Validate
open PyGql

def schemaOutputsB (s : SchemaD) : Bool := s.types.all fun t => t.fields.all fun fd => isOutputTy s fd.type

end PyGql.Validate

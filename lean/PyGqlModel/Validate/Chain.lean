/-
  `default_validator`: `ChainedVisitor(type_info, *visitors).visit(document)`.
  * `enter` (semantics of /repo fix 391ad62): `TypeInfoVisitor.enter`, then EVERY rule in order - a `SkipNode` raised by
    one member does not hide the node from the later members. If some member raised, the members that did enter are
    left at once, in reverse order (`TypeInfoVisitor` last: its stacks stay balanced; the raisers' own `leave` is not
    called), and the children are visited by nobody.
  * `leave`: rules in reverse order, `TypeInfoVisitor` last.
  The traversal is `ASTVisitor` of lang/visitor.py: a variable definition visits its default value, then
  its type, then its directives (the `Variable` of a definition is not entered); `_visit_type` does not
  descend; a fragment definition's type condition is not entered.
-/
import PyGqlModel.Validate.Rules
namespace PyGql.Validate
open PyGql

structure Cfg where
  schema : SchemaD
  fixes : Fixes := {}
  rules : List Rule := Rule.all

structure St where
  ti : TI := {}
  rs : RS := {}
  deriving Inhabited

def tiEnter (s : SchemaD) (n : Node) (t : TI) : TI :=
  match n with
  | .selectionSet .. => t.enterSelectionSet s
  | .field name .. => t.enterField s name
  | .directive d => t.enterDirective s d.name
  | .operation kind .. => t.enterOperation s kind
  | .fragmentDef _ on _ => t.enterFragmentDef s on
  | .inline on _ => t.enterInline s on
  | .varDef v => t.enterVarDef s v.type
  | .argument a => t.enterArgument s a.name
  | .value (.list _) => t.enterListValue s
  | .objField name => t.enterObjectField s name
  | _ => t

def tiLeave (n : Node) (t : TI) : TI :=
  match n with
  | .selectionSet .. => t.leaveSelectionSet
  | .field .. => t.leaveField
  | .directive _ => t.leaveDirective
  | .operation .. => t.popType
  | .fragmentDef .. => t.popType
  | .inline .. => t.popType
  | .varDef _ => t.leaveVarDef
  | .argument _ => t.leaveInputValue
  | .value (.list _) => t.leaveInputValue
  | .objField _ => t.leaveInputValue
  | _ => t

/-- the rules' part of `ChainedVisitor.enter`: every rule enters; the flag says whether some rule raised `SkipNode` -/
def enterRules (c : Cfg) (n : Node) (ti : TI) : List Rule → RS → RS × Bool
  | [], rs => (rs, false)
  | r :: rest, rs =>
    let (rs, skip) := enterRule c.schema c.fixes r n ti rs
    let (rs', skip') := enterRules c n ti rest rs
    (rs', skip || skip')

/-- the rules that raised `SkipNode` in `enterRules` (same threading of the rule state) -/
def raisedRules (c : Cfg) (n : Node) (ti : TI) : List Rule → RS → List Rule
  | [], _ => []
  | r :: rest, rs =>
    let (rs', skip) := enterRule c.schema c.fixes r n ti rs
    if skip then r :: raisedRules c n ti rest rs' else raisedRules c n ti rest rs'

def enter (c : Cfg) (n : Node) (st : St) : St × Bool :=
  let ti := tiEnter c.schema n st.ti
  let (rs, skip) := enterRules c n ti c.rules st.rs
  ({ ti, rs }, skip)

def leave (c : Cfg) (n : Node) (st : St) : St :=
  let rs := c.rules.reverse.foldl (fun rs r => leaveRule c.schema c.fixes r n st.ti rs) st.rs
  { ti := tiLeave n st.ti, rs }

/-- after a `SkipNode`: `st0` is the state before `enter`, `st1` the state after it. The members that entered
    without raising are left in reverse order, `TypeInfoVisitor` last -/
def leaveSkipped (c : Cfg) (n : Node) (st0 st1 : St) : St :=
  let raised := raisedRules c n st1.ti c.rules st0.rs
  let rs := (c.rules.filter fun r => !raised.contains r).reverse.foldl
    (fun rs r => leaveRule c.schema c.fixes r n st1.ti rs) st1.rs
  { ti := tiLeave n st1.ti, rs }

/-- `_visit_method` wrapper -/
@[inline] def visitNode (c : Cfg) (n : Node) (body : St → St) (st : St) : St :=
  let (st1, skip) := enter c n st
  if skip then leaveSkipped c n st st1 else leave c n (body st1)

mutual
def visitValue (c : Cfg) : Value → St → St
  | v, st =>
    visitNode c (.value v) (fun st =>
      match v with
      | .list vs => visitValues c vs st
      | .obj fs => visitObjFields c fs st
      | _ => st) st
def visitValues (c : Cfg) : List Value → St → St
  | [], st => st
  | v :: vs, st => visitValues c vs (visitValue c v st)
def visitObjField (c : Cfg) : ObjField → St → St
  | .mk name v, st => visitNode c (.objField name) (visitValue c v) st
def visitObjFields (c : Cfg) : List ObjField → St → St
  | [], st => st
  | f :: fs, st => visitObjFields c fs (visitObjField c f st)
end

def visitArgument (c : Cfg) (a : Arg) (st : St) : St := visitNode c (.argument a) (visitValue c a.value) st
def visitArguments (c : Cfg) (as : List Arg) (st : St) : St := as.foldl (fun st a => visitArgument c a st) st
def visitDirective (c : Cfg) (d : Dir) (st : St) : St := visitNode c (.directive d) (visitArguments c d.args) st
def visitDirectives (c : Cfg) (ds : List Dir) (st : St) : St := ds.foldl (fun st d => visitDirective c d st) st

mutual
def visitSel (c : Cfg) : Sel → St → St
  | .field _ name args dirs hasSub ssid sub, st =>
    visitNode c (.field name args dirs hasSub) (fun st =>
      let st := visitDirectives c dirs (visitArguments c args st)
      if hasSub then visitNode c (.selectionSet ssid sub) (visitSels c sub) st else st) st
  | .spread name dirs, st => visitNode c (.spread name dirs) (visitDirectives c dirs) st
  | .inline on dirs ssid sub, st =>
    visitNode c (.inline on dirs) (fun st =>
      visitNode c (.selectionSet ssid sub) (visitSels c sub) (visitDirectives c dirs st)) st
def visitSels (c : Cfg) : List Sel → St → St
  | [], st => st
  | x :: xs, st => visitSels c xs (visitSel c x st)
end

def visitVarDef (c : Cfg) (v : VarDef) (st : St) : St :=
  visitNode c (.varDef v) (fun st =>
    let st := match v.default with | some d => visitValue c d st | none => st
    visitDirectives c v.dirs (visitNode c (.typeNode v.type) id st)) st

def visitDef (c : Cfg) (d : Def) (st : St) : St :=
  match d with
  | .op kind name vars dirs ssid sels =>
    visitNode c (.operation kind name vars dirs sels) (fun st =>
      let st := vars.foldl (fun st v => visitVarDef c v st) st
      let st := visitDirectives c dirs st
      visitNode c (.selectionSet ssid sels) (visitSels c sels) st) st
  | .frag name on dirs ssid sels =>
    visitNode c (.fragmentDef name on dirs) (fun st =>
      visitNode c (.selectionSet ssid sels) (visitSels c sels) (visitDirectives c dirs st)) st
  | .ts .. => visitNode c .tsDef id st

def visitDocument (c : Cfg) (d : Doc) (st : St) : St :=
  visitNode c (.document d) (fun st => d.defs.foldl (fun st x => visitDef c x st) st) st

/-- result of a run -/
inductive Outcome where
  | crash (cls : String)
  | errors (byRule : List (Rule × Nat))
  deriving Repr

def countOf (errs : List Rule) (r : Rule) : Nat := (errs.filter (· == r)).length

def run (c : Cfg) (d : Doc) : Outcome :=
  let st := visitDocument c d {}
  match st.rs.crash with
  | some e => .crash e
  | none => .errors (c.rules.map fun r => (r, countOf st.rs.errs r))

/-- the verdict of `validate_ast`: `some true` = no error, `none` = validation raised -/
def verdict (c : Cfg) (d : Doc) : Option Bool :=
  match run c d with
  | .crash _ => none
  | .errors l => some (l.all fun p => p.2 == 0)

end PyGql.Validate

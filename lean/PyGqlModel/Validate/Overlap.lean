/-
  `OverlappingFieldsCanBeMergedChecker` (validation/rules/overlapping_fields_can_be_merged.py):
  the field-merge search with its per-selection-set cache (`ctx.fields_and_fragments`: the cached
  entry returns the fragment names NOT deduplicated, the first call deduplicated) and its
  compared-pairs cache. Conflicts are counted, not described. `crash` records the Python exception
  that ends validation (`AttributeError` in `_same_arguments` = ledger V2; fuel exhaustion stands for
  `RecursionError` on cyclic fragments). Unfixed step (G) indexes the fragment NAME (ledger V7).
-/
import PyGqlModel.Validate.TypeInfo
namespace PyGql.Validate
open PyGql

structure FEntry where
  parent : Option String
  name : String
  args : List Arg
  hasSub : Bool
  ssid : Nat
  sub : List Sel
  fdef : Option FieldD
  deriving Inhabited

abbrev FMap := AL (List FEntry)

structure OCtx where
  /-- `ctx.fields_and_fragments`: selection-set node ↦ parent type of the FIRST computation -/
  cache : List (Nat × Option String) := []
  /-- `ctx.compared_fragment_pairs` -/
  pairs : List (String × String × Bool) := []
  /-- the live `compared_fragments` set -/
  cmp : List String := []
  /-- `ctx.fragments`: name ↦ (type condition, selection set) (last definition wins) -/
  frags : AL (String × Nat × List Sel) := []
  crash : Option String := none
  /-- `ctx.compared_fields_and_fragment` (proposed_fixes/C05-overlap-fields-fragment-memo.patch): (selection set whose
      field map it is, fragment name, mutually exclusive) triples already - or being - compared; only the memoised
      search of `Validate/OverlapMemo.lean` reads and writes it -/
  ffp : List (Nat × String × Bool) := []
  deriving Inhabited

mutual
def collectSel (s : SchemaD) (parent : Option String) : Sel → FMap × List String → FMap × List String
  | .field alias name args _ hasSub ssid sub, (fm, fr) =>
    let fdef := parent.bind fun p => ovFieldOf s p name
    let rn := match alias with | some a => if a != "" then a else name | none => name
    let e : FEntry := { parent, name, args, hasSub, ssid, sub, fdef }
    (AL.modify fm rn [] (· ++ [e]), fr)
  | .spread name _, (fm, fr) => (fm, fr ++ [name])
  | .inline on _ _ sub, acc =>
    let p := match on with
      | some n => (typeFromAst s (.named n)).map (·.base)
      | none => parent
    collectSels s p sub acc
def collectSels (s : SchemaD) (parent : Option String) : List Sel → FMap × List String → FMap × List String
  | [], acc => acc
  | x :: xs, acc => collectSels s parent xs (collectSel s parent x acc)
end

/-- `_fields_and_fragments` -/
def fieldsAndFragments (s : SchemaD) (parent : Option String) (ssid : Nat) (sels : List Sel) (c : OCtx) :
    (FMap × List String) × OCtx :=
  match c.cache.find? (·.1 == ssid) with
  | some (_, p) => (collectSels s p sels ([], []), c)
  | none =>
    let (fm, fr) := collectSels s parent sels ([], [])
    ((fm, fr.eraseDups), { c with cache := (ssid, parent) :: c.cache })

def valueClass : Value → String
  | .var _ => "Variable" | .int _ => "IntValue" | .float _ => "FloatValue" | .str _ => "StringValue"
  | .bool _ => "BooleanValue" | .null => "NullValue" | .enum _ => "EnumValue" | .list _ => "ListValue"
  | .obj _ => "ObjectValue"

mutual
/-- `_same_value`: same class and same `.value`; lists, objects, null and variables by their printed form
    (= structural equality of the literal; the `block` flag of strings is not in this AST) -/
def sameValue : Value → Value → Bool
  | .var a, .var b => a == b
  | .int a, .int b => a == b
  | .float a, .float b => a == b
  | .str a, .str b => a == b
  | .bool a, .bool b => a == b
  | .null, .null => true
  | .enum a, .enum b => a == b
  | .list as, .list bs => sameValues as bs
  | .obj fs, .obj gs => sameFields fs gs
  | _, _ => false
def sameValues : List Value → List Value → Bool
  | [], [] => true
  | a :: as, b :: bs => sameValue a b && sameValues as bs
  | _, _ => false
def sameFields : List ObjField → List ObjField → Bool
  | [], [] => true
  | .mk n a :: fs, .mk m b :: gs => n == m && sameValue a b && sameFields fs gs
  | _, _ => false
end

def insertArg (a : Arg) : List Arg → List Arg
  | [] => [a]
  | b :: bs => if a.name < b.name then a :: b :: bs else b :: insertArg a bs
/-- `sorted(args, key=name)` (stable) -/
def sortArgs (as : List Arg) : List Arg := as.foldl (fun acc a => insertArg a acc) []

/-- `_same_arguments` (always `some`: the `AttributeError` of ledger V2 is fixed, commit 955bf13) -/
def sameArgsZip : List Arg → List Arg → Option Bool
  | a :: as, b :: bs =>
    if a.name != b.name then some false
    else if sameValue a.value b.value then sameArgsZip as bs else some false
  | _, _ => some true
def sameArguments (a b : List Arg) : Option Bool :=
  if a.length != b.length then some false else sameArgsZip (sortArgs a) (sortArgs b)

/-- `_types_conflict` -/
def typesConflict (s : SchemaD) : Ty → Ty → Bool
  | .named a, .named b => if isLeaf s a || isLeaf s b then a != b else false
  | .list a, .list b => typesConflict s a b
  | .nonNull a, .nonNull b => typesConflict s a b
  | _, _ => true

/-- `_permutations` -/
def pairsOf {α} : List α → List (α × α)
  | [] => []
  | x :: xs => xs.map (fun y => (x, y)) ++ pairsOf xs

/-- sequential loop summing the conflicts found; stops once validation has crashed -/
def sumLoop {α} (xs : List α) (f : α → OCtx → Nat × OCtx) (c : OCtx) : Nat × OCtx :=
  xs.foldl (fun (acc : Nat × OCtx) x =>
    if acc.2.crash.isSome then acc else
    let r := f x acc.2
    (acc.1 + r.1, r.2)) (0, c)

/-- `_at(name, i)` on a fragment NAME: its i-th character -/
def charAt (name : String) (i : Nat) : Option String := (name.toList[i]?).map fun ch => String.singleton ch

def sortedPair (a b : String) : String × String := if a ≤ b then (a, b) else (b, a)

def withFreshCmp (f : OCtx → Nat × OCtx) (c : OCtx) : Nat × OCtx :=
  let saved := c.cmp
  let r := f { c with cmp := [] }
  (r.1, { r.2 with cmp := saved })

mutual
/-- `_find_conflict`: is there a conflict? -/
def findConflict (s : SchemaD) (fx : Fixes) : Nat → Bool → FEntry → FEntry → OCtx → Bool × OCtx
  | 0, _, _, _, c => (false, { c with crash := some "RecursionError" })
  | fuel+1, pme, f1, f2, c =>
    let isObj (p : Option String) : Bool := match p with | some n => isObject s n | none => false
    let me := pme || (f1.parent != f2.parent && isObj f1.parent && isObj f2.parent)
    let t1 := f1.fdef.map (·.type)
    let t2 := f2.fdef.map (·.type)
    let argsOk : Option Bool :=
      if me then some true
      else if f1.name != f2.name then some false
      else sameArguments f1.args f2.args
    match argsOk with
    | none => (false, { c with crash := some "AttributeError" })
    | some false => (true, c)
    | some true =>
      let tc := match t1, t2 with | some a, some b => typesConflict s a b | _, _ => false
      if tc then (true, c)
      else if f1.hasSub && f2.hasSub then
        let r := betweenSubselections s fx fuel me (t1.map (·.base)) f1.ssid f1.sub (t2.map (·.base)) f2.ssid f2.sub c
        (r.1 > 0, r.2)
      else (false, c)

/-- `_conflicts_between` -/
def conflictsBetween (s : SchemaD) (fx : Fixes) : Nat → Bool → FMap → FMap → OCtx → Nat × OCtx
  | 0, _, _, _, c => (0, { c with crash := some "RecursionError" })
  | fuel+1, me, fm1, fm2, c =>
    sumLoop fm1 (fun (rn, fields1) c =>
      match AL.get? fm2 rn with
      | none => (0, c)
      | some fields2 =>
        sumLoop fields1 (fun f1 c =>
          sumLoop fields2 (fun f2 c =>
            let r := findConflict s fx fuel me f1 f2 c
            (if r.1 then 1 else 0, r.2)) c) c) c

/-- `_conflicts_between_fields_and_fragment` -/
def betweenFieldsAndFragment (s : SchemaD) (fx : Fixes) : Nat → Bool → Nat → FMap → String → OCtx → Nat × OCtx
  | 0, _, _, _, _, c => (0, { c with crash := some "RecursionError" })
  | fuel+1, me, ssid, fm, name, c =>
    if c.cmp.contains name then (0, c) else
    let c := { c with cmp := name :: c.cmp }
    match AL.get? c.frags name with
    | none => (0, c)
    | some (on, fid, fsels) =>
      let (ff, c) := fieldsAndFragments s ((typeFromAst s (.named on)).map (·.base)) fid fsels c
      if ssid == fid then (0, c) else
      let r1 := conflictsBetween s fx fuel me fm ff.1 c
      let r2 := sumLoop ff.2 (fun fr c => betweenFieldsAndFragment s fx fuel me ssid fm fr c) r1.2
      (r1.1 + r2.1, r2.2)

/-- `_conflicts_between_fragments` -/
def betweenFragments (s : SchemaD) (fx : Fixes) : Nat → Bool → Option String → Option String → OCtx → Nat × OCtx
  | 0, _, _, _, c => (0, { c with crash := some "RecursionError" })
  | fuel+1, me, of1, of2, c =>
    match of1, of2 with
    | some f1, some f2 =>
      if f1 == "" || f2 == "" || f1 == f2 then (0, c) else
      let key := (sortedPair f1 f2, me)
      if c.pairs.any (fun k => k.1 == key.1.1 && k.2.1 == key.1.2 && k.2.2 == me) then (0, c) else
      let c := { c with pairs := (key.1.1, key.1.2, me) :: c.pairs }
      match AL.get? c.frags f1, AL.get? c.frags f2 with
      | some (on1, id1, sels1), some (on2, id2, sels2) =>
        let (a, c) := fieldsAndFragments s ((typeFromAst s (.named on1)).map (·.base)) id1 sels1 c
        let (b, c) := fieldsAndFragments s ((typeFromAst s (.named on2)).map (·.base)) id2 sels2 c
        let r0 := conflictsBetween s fx fuel me a.1 b.1 c
        if fx.v7 then
          let r1 := sumLoop a.2 (fun fr c => betweenFragments s fx fuel me (some fr) (some f2) c) r0.2
          let r2 := sumLoop b.2 (fun fr c => betweenFragments s fx fuel me (some f1) (some fr) c) r1.2
          (r0.1 + r1.1 + r2.1, r2.2)
        else
          let r1 := sumLoop (a.2.zipIdx) (fun (fr, i) c => betweenFragments s fx fuel me (some fr) (charAt f2 i) c) r0.2
          let r2 := sumLoop (b.2.zipIdx) (fun (fr, i) c => betweenFragments s fx fuel me (charAt f1 i) (some fr) c) r1.2
          (r0.1 + r1.1 + r2.1, r2.2)
      | _, _ => (0, c)
    | _, _ => (0, c)

/-- `_conflicts_between_subselections` -/
def betweenSubselections (s : SchemaD) (fx : Fixes) :
    Nat → Bool → Option String → Nat → List Sel → Option String → Nat → List Sel → OCtx → Nat × OCtx
  | 0, _, _, _, _, _, _, _, c => (0, { c with crash := some "RecursionError" })
  | fuel+1, me, p1, id1, sels1, p2, id2, sels2, c =>
    let (a, c) := fieldsAndFragments s p1 id1 sels1 c
    let (b, c) := fieldsAndFragments s p2 id2 sels2 c
    let r0 := conflictsBetween s fx fuel me a.1 b.1 c
    let r1 := sumLoop b.2 (fun fr c => withFreshCmp (betweenFieldsAndFragment s fx fuel me id1 a.1 fr) c) r0.2
    let r2 := sumLoop a.2 (fun fr c => withFreshCmp (betweenFieldsAndFragment s fx fuel me id2 b.1 fr) c) r1.2
    let r3 := sumLoop a.2 (fun f1 c => sumLoop b.2 (fun f2 c => betweenFragments s fx fuel me (some f1) (some f2) c) c) r2.2
    (r0.1 + r1.1 + r2.1 + r3.1, r3.2)
end

def overlapFuel : Nat := 400

/-- `_conflicts_within` -/
def conflictsWithin (s : SchemaD) (fx : Fixes) (fm : FMap) (c : OCtx) : Nat × OCtx :=
  sumLoop fm (fun (_, fields) c =>
    sumLoop (pairsOf fields) (fun (f1, f2) c =>
      let r := findConflict s fx overlapFuel false f1 f2 c
      (if r.1 then 1 else 0, r.2)) c) c

/-- `find_conflicts_within_selection_set`: number of conflicts = number of errors added by `enter_selection_set` -/
def withinSelectionSet (s : SchemaD) (fx : Fixes) (parent : Option String) (ssid : Nat) (sels : List Sel) (c : OCtx) :
    Nat × OCtx :=
  let (ff, c) := fieldsAndFragments s parent ssid sels c
  let r0 := conflictsWithin s fx ff.1 c
  let r1 := withFreshCmp (fun c => sumLoop ff.2 (fun fr c => betweenFieldsAndFragment s fx overlapFuel false ssid ff.1 fr c) c) r0.2
  let r2 := sumLoop (pairsOf ff.2) (fun (f1, f2) c => betweenFragments s fx overlapFuel false (some f1) (some f2) c) r1.2
  (r0.1 + r1.1 + r2.1, r2.2)

end PyGql.Validate

/-
  A VARIANT of the memoised overlap search, NOT the code of /repo: the (field map, fragment, mutually exclusive) memo
  replaced by a map (field map, fragment) ↦ exclusivity with the coverage test of seeded change C06-11
  (`previous or not mutually_exclusive`). Only used by `Props/C06_overlap_memo_modes.lean` to show, by evaluation, that
  this keying LOSES a report the triple-keyed search of `Validate/OverlapMemo.lean` makes (why the flag belongs to the key).
-/
import PyGqlModel.Validate.OverlapMemo
import PyGqlModel.Validate.ChainMemo
namespace PyGql.Validate
open PyGql PyGql.Validate.Spec

mutual
def findConflictP (s : SchemaD) (fx : Fixes) : Nat → Bool → FEntry → FEntry → OCtx → Bool × OCtx
  | 0, _, _, _, c => (false, { c with crash := some "RecursionError" })
  | fuel+1, pme, f1, f2, c =>
    let isObj (p : Option String) : Bool := match p with | some n => isObject s n | none => false
    let me := pme || (f1.parent != f2.parent && isObj f1.parent && isObj f2.parent)
    let t1 := f1.fdef.map (·.type)
    let t2 := f2.fdef.map (·.type)
    let argsOk : Option Bool :=
      if me then some true
      else if f1.name != f2.name then some false
      else sameArguments f1.args f2.args
    match argsOk with
    | none => (false, { c with crash := some "AttributeError" })
    | some false => (true, c)
    | some true =>
      let tc := match t1, t2 with | some a, some b => typesConflict s a b | _, _ => false
      if tc then (true, c)
      else if f1.hasSub && f2.hasSub then
        let r := betweenSubselectionsP s fx fuel me (t1.map (·.base)) f1.ssid f1.sub (t2.map (·.base)) f2.ssid f2.sub c
        (r.1 > 0, r.2)
      else (false, c)

def conflictsBetweenP (s : SchemaD) (fx : Fixes) : Nat → Bool → FMap → FMap → OCtx → Nat × OCtx
  | 0, _, _, _, c => (0, { c with crash := some "RecursionError" })
  | fuel+1, me, fm1, fm2, c =>
    sumLoop fm1 (fun (rn, fields1) c =>
      match AL.get? fm2 rn with
      | none => (0, c)
      | some fields2 =>
        sumLoop fields1 (fun f1 c =>
          sumLoop fields2 (fun f2 c =>
            let r := findConflictP s fx fuel me f1 f2 c
            (if r.1 then 1 else 0, r.2)) c) c) c

def betweenFieldsAndFragmentP (s : SchemaD) (fx : Fixes) : Nat → Bool → Nat → FMap → String → OCtx → Nat × OCtx
  | 0, _, _, _, _, c => (0, { c with crash := some "RecursionError" })
  | fuel+1, me, ssid, fm, name, c =>
    if c.cmp.contains name then (0, c) else
    let c := { c with cmp := name :: c.cmp }
    match AL.get? c.frags name with
    | none => (0, c)
    | some (on, fid, fsels) =>
      -- the memo of seeded change C06-11: a map (field map, fragment) ↦ exclusivity (the LAST entry for the pair counts),
      -- "covered" when there is a previous comparison and (it was mutually exclusive or the requested one is not)
      let previous := (c.ffp.find? fun k => k.1 == ssid && k.2.1 == name).map (·.2.2)
      if (match previous with | some p => p || !me | none => false) then (0, c) else
      let c := { c with ffp := (ssid, name, me) :: c.ffp }
      let (ff, c) := fieldsAndFragments s ((typeFromAst s (.named on)).map (·.base)) fid fsels c
      if ssid == fid then (0, c) else
      let r1 := conflictsBetweenP s fx fuel me fm ff.1 c
      let r2 := sumLoop ff.2 (fun fr c => betweenFieldsAndFragmentP s fx fuel me ssid fm fr c) r1.2
      (r1.1 + r2.1, r2.2)

def betweenFragmentsP (s : SchemaD) (fx : Fixes) : Nat → Bool → Option String → Option String → OCtx → Nat × OCtx
  | 0, _, _, _, c => (0, { c with crash := some "RecursionError" })
  | fuel+1, me, of1, of2, c =>
    match of1, of2 with
    | some f1, some f2 =>
      if f1 == "" || f2 == "" || f1 == f2 then (0, c) else
      let key := (sortedPair f1 f2, me)
      if c.pairs.any (fun k => k.1 == key.1.1 && k.2.1 == key.1.2 && k.2.2 == me) then (0, c) else
      let c := { c with pairs := (key.1.1, key.1.2, me) :: c.pairs }
      match AL.get? c.frags f1, AL.get? c.frags f2 with
      | some (on1, id1, sels1), some (on2, id2, sels2) =>
        let (a, c) := fieldsAndFragments s ((typeFromAst s (.named on1)).map (·.base)) id1 sels1 c
        let (b, c) := fieldsAndFragments s ((typeFromAst s (.named on2)).map (·.base)) id2 sels2 c
        let r0 := conflictsBetweenP s fx fuel me a.1 b.1 c
        if fx.v7 then
          let r1 := sumLoop a.2 (fun fr c => betweenFragmentsP s fx fuel me (some fr) (some f2) c) r0.2
          let r2 := sumLoop b.2 (fun fr c => betweenFragmentsP s fx fuel me (some f1) (some fr) c) r1.2
          (r0.1 + r1.1 + r2.1, r2.2)
        else
          let r1 := sumLoop (a.2.zipIdx) (fun (fr, i) c => betweenFragmentsP s fx fuel me (some fr) (charAt f2 i) c) r0.2
          let r2 := sumLoop (b.2.zipIdx) (fun (fr, i) c => betweenFragmentsP s fx fuel me (charAt f1 i) (some fr) c) r1.2
          (r0.1 + r1.1 + r2.1, r2.2)
      | _, _ => (0, c)
    | _, _ => (0, c)

def betweenSubselectionsP (s : SchemaD) (fx : Fixes) :
    Nat → Bool → Option String → Nat → List Sel → Option String → Nat → List Sel → OCtx → Nat × OCtx
  | 0, _, _, _, _, _, _, _, c => (0, { c with crash := some "RecursionError" })
  | fuel+1, me, p1, id1, sels1, p2, id2, sels2, c =>
    let (a, c) := fieldsAndFragments s p1 id1 sels1 c
    let (b, c) := fieldsAndFragments s p2 id2 sels2 c
    let r0 := conflictsBetweenP s fx fuel me a.1 b.1 c
    let r1 := sumLoop b.2 (fun fr c => withFreshCmp (betweenFieldsAndFragmentP s fx fuel me id1 a.1 fr) c) r0.2
    let r2 := sumLoop a.2 (fun fr c => withFreshCmp (betweenFieldsAndFragmentP s fx fuel me id2 b.1 fr) c) r1.2
    let r3 := sumLoop a.2 (fun f1 c => sumLoop b.2 (fun f2 c => betweenFragmentsP s fx fuel me (some f1) (some f2) c) c) r2.2
    (r0.1 + r1.1 + r2.1 + r3.1, r3.2)
end

/-- `find_conflicts_within_selection_set` with the memoised search and a recursion budget of `fuel` frames -/
def withinSelectionSetP (s : SchemaD) (fx : Fixes) (fuel : Nat) (parent : Option String) (ssid : Nat) (sels : List Sel)
    (c : OCtx) : Nat × OCtx :=
  let (ff, c) := fieldsAndFragments s parent ssid sels c
  let r0 := sumLoop ff.1 (fun (_, fields) c =>
    sumLoop (pairsOf fields) (fun (f1, f2) c =>
      let r := findConflictP s fx fuel false f1 f2 c
      (if r.1 then 1 else 0, r.2)) c) c
  let r1 := withFreshCmp (fun c => sumLoop ff.2 (fun fr c => betweenFieldsAndFragmentP s fx fuel false ssid ff.1 fr c) c) r0.2
  let r2 := sumLoop (pairsOf ff.2) (fun (f1, f2) c => betweenFragmentsP s fx fuel false (some f1) (some f2) c) r1.2
  (r0.1 + r1.1 + r2.1, r2.2)


/-- the rule with the pair-keyed search (same fold as `overlapMemoRun`) -/
def overlapPairRun (s : SchemaD) (fx : Fixes) (d : Doc) : Nat × OCtx :=
  (typedNodes s d).foldl (fun (acc : Nat × OCtx) p =>
    match p.1 with
    | .selectionSet i sels =>
      if acc.2.crash.isSome then acc else
      let r := withinSelectionSetP s fx (memoFuel d) p.2.parent i sels acc.2
      (acc.1 + r.1, r.2)
    | _ => acc) (0, ({ frags := fragTable d } : OCtx))

end PyGql.Validate

/-
  Schema look-ups used by the validation rules, over the shared by-name description `SchemaD`
  (dumped WITH built-in scalars, introspection types and specified directives).
  Mirrors: `Schema.get_type_from_literal`, `is_subtype`, `types_overlap`, `get_possible_types`,
  `is_possible_type` (schema/schema.py), `unwrap_type`, `is_input_type`, `is_output_type`
  (schema/types.py), `_get_field_def` (validation/visitors.py).
-/
import PyGqlModel.SchemaDesc
namespace PyGql.Validate
open PyGql

def kindOf (s : SchemaD) (n : String) : Option Kind := (s.findType n).map (·.kind)

def isObject (s : SchemaD) (n : String) : Bool := kindOf s n == some .object
def isInputObject (s : SchemaD) (n : String) : Bool := kindOf s n == some .input
def isEnum (s : SchemaD) (n : String) : Bool := kindOf s n == some .enum
def isScalar (s : SchemaD) (n : String) : Bool := kindOf s n == some .scalar

/-- `isinstance(t, GraphQLCompositeType)` -/
def isComposite (s : SchemaD) (n : String) : Bool :=
  match kindOf s n with | some .object | some .interface | some .union => true | _ => false
/-- `isinstance(t, GraphQLAbstractType)` -/
def isAbstract (s : SchemaD) (n : String) : Bool :=
  match kindOf s n with | some .interface | some .union => true | _ => false
/-- `isinstance(t, GraphQLLeafType)` -/
def isLeaf (s : SchemaD) (n : String) : Bool :=
  match kindOf s n with | some .scalar | some .enum => true | _ => false
def isObjOrIface (s : SchemaD) (n : String) : Bool :=
  match kindOf s n with | some .object | some .interface => true | _ => false

/-- `is_input_type(t)` (after `unwrap_type`) -/
def isInputTy (s : SchemaD) (t : Ty) : Bool :=
  match kindOf s t.base with | some .scalar | some .enum | some .input => true | _ => false
/-- `is_output_type(t)` -/
def isOutputTy (s : SchemaD) (t : Ty) : Bool :=
  match kindOf s t.base with
  | some .scalar | some .enum | some .object | some .interface | some .union => true | _ => false

/-- `Schema.get_type_from_literal`: `none` stands for `UnknownType` -/
def typeFromAst (s : SchemaD) (t : Ty) : Option Ty := if (s.findType t.base).isSome then some t else none

/-- `Schema.get_possible_types` (names; order irrelevant: only membership is used) -/
def possibleTypes (s : SchemaD) (n : String) : List String :=
  match s.findType n with
  | some t =>
    match t.kind with
    | .union => t.members
    | .interface => (s.types.filter fun o => o.kind == .object && o.interfaces.contains n).map (·.name)
    | _ => []
  | none => []

/-- `Schema.is_possible_type(abstract, t)` -/
def isPossibleType (s : SchemaD) (abs t : String) : Bool := isObject s t && (possibleTypes s abs).contains t

/-- `Schema.is_subtype` -/
def isSubtype (s : SchemaD) : Ty → Ty → Bool
  | t, u =>
    if t == u then true else
    match t, u with
    | .list a, .list b => isSubtype s a b
    | .nonNull a, .nonNull b => isSubtype s a b
    | .nonNull a, u => isSubtype s a u
    | .list _, _ => false
    | .named a, .named b => isAbstract s b && isPossibleType s b a
    | .named _, _ => false

/-- `Schema.types_overlap` on two named types -/
def typesOverlap (s : SchemaD) (rhs lhs : String) : Bool :=
  if rhs == lhs then true
  else if isAbstract s rhs && isAbstract s lhs then
    (possibleTypes s rhs).any fun t => (possibleTypes s lhs).contains t
  else (isAbstract s rhs && isPossibleType s rhs lhs) || (isAbstract s lhs && isPossibleType s lhs rhs)

def typenameField : FieldD := { name := "__typename", type := .nonNull (.named "String") }
def schemaField : FieldD := { name := "__schema", type := .nonNull (.named "__Schema") }
def typeField : FieldD :=
  { name := "__type", type := .named "__Type", args := [{ name := "name", type := .nonNull (.named "String") }] }

def fieldOf (s : SchemaD) (parent name : String) : Option FieldD :=
  if isObjOrIface s parent then (s.findType parent).bind fun t => t.fields.find? (·.name == name) else none

/-- the field definition `OverlappingFieldsCanBeMergedChecker` attaches to a selected field
    (`_collect_fields_and_fragments`): the field of the object / interface parent, and `__typename: String!` on every
    composite parent (bug-hunt finding C06/3: before the fix only `field_map` was consulted, so `__typename` took no
    part in the response-shape comparison) -/
def ovFieldOf (s : SchemaD) (parent name : String) : Option FieldD :=
  if isComposite s parent && name == "__typename" then some typenameField else fieldOf s parent name

/-- `_get_field_def(schema, parent_type, field)` for a known parent type name -/
def getFieldDef (s : SchemaD) (parent name : String) : Option FieldD :=
  if s.query == some parent && name == "__schema" then some schemaField
  else if s.query == some parent && name == "__type" then some typeField
  else if isComposite s parent && name == "__typename" then some typenameField
  else fieldOf s parent name

def rootType (s : SchemaD) (op : String) : Option String :=
  let r := match op with
    | "query" => s.query | "mutation" => s.mutation | "subscription" => s.subscription | _ => none
  r.bind fun n => if isObject s n then some n else none

def findDirective (s : SchemaD) (n : String) : Option DirectiveD := s.directives.find? (·.name == n)

/-- `InputValue.required` -/
def ArgD.required (a : ArgD) : Bool := a.type.isNonNull && !a.hasDefault

def inputFields (s : SchemaD) (n : String) : List ArgD :=
  match s.findType n with | some t => if t.kind == .input then t.inputFields else [] | none => []

def enumHas (s : SchemaD) (n v : String) : Bool :=
  match s.findType n with | some t => t.values.any (·.name == v) | none => false

end PyGql.Validate

/-
  THE VALIDATOR WITH THE MEMOISED OVERLAP SEARCH (what /repo runs since 7e75356), for the driver.
  `OverlappingFieldsCanBeMergedChecker` never raises SkipNode and reads only `TypeInfoVisitor.parent_type`, so its
  errors are those of `find_conflicts_within_selection_set` at every selection set, in visiting order, on one shared
  context: `overlapMemoRun` folds the memoised search (`Validate/OverlapMemo.lean`) over the typed enumeration
  `Spec.typedNodes` (node, static view inside the node), with the recursion budget `memoFuel d` that
  `Props/C06_overlap_memo.lean: overlap_memo_terminates` proves sufficient on every document.
  (`overlapMemoRun` is the rule ALONE - all selection sets; the theorems of Props/C06_overlap_memo.lean are about it.
  In a chain, a rule raising `SkipNode` above a selection set hides it from every member: the driver therefore runs the
  memoised search inside the chain itself, `runM` of `Validate/ChainPar.lean`.)
  `runMemo`: the chain as modelled (`run`, UN-memoised search - the one the theorems are about); where that one
  exhausts its fuel (fragment cycles below fields: the code before the memo recursed forever), the other rules' errors
  come from the chain without the overlap rule and the overlap rule's from the memoised run; on UNRANKED documents
  (`rankOkB` false: fragment cycles - outside every theorem about the un-memoised search) the un-memoised search is
  not run at all (it exhausts its fuel, possibly after exponentially many steps). Both overlap counts are
  returned so that the correspondence can CROSS-CHECK "memoised verdict = un-memoised verdict whenever the latter does
  not crash" on every document (standing in for the verdict-neutrality theorem, which is open).
-/
import PyGqlModel.Validate.Chain
import PyGqlModel.Validate.ChainPar
import PyGqlModel.Validate.OverlapMemo
import PyGqlModel.Validate.OverlapRank
import PyGqlModel.Validate.WfIds
namespace PyGql.Validate
open PyGql PyGql.Validate.Spec

/-- all (selection set, fragment, flag) triples of the document -/
def keysFF (d : Doc) : List (Nat × String × Bool) :=
  (selSetIds d).flatMap fun i => ((fragTable d).map (·.1)).flatMap fun g => [(i, g, true), (i, g, false)]
/-- all (fragment, fragment, flag) triples of the document -/
def keysFR (d : Doc) : List (String × String × Bool) :=
  ((fragTable d).map (·.1)).flatMap fun a => ((fragTable d).map (·.1)).flatMap fun b => [(a, b, true), (a, b, false)]

/-- bound on the recursion depth of the memoised search -/
def fuelBound (d : Doc) (R : Nat) : Nat := ((keysFF d).length + (keysFR d).length) * (2 * R + 7) + 2 * R + 7

/-- the recursion budget given to the memoised search: `fuelBound` at the document's maximal syntactic rank -/
def memoFuel (d : Doc) : Nat := fuelBound d (maxRank (synRanks d))

/-- the overlap rule with the memoised search: (number of errors, final context) -/
def overlapMemoRun (s : SchemaD) (fx : Fixes) (d : Doc) : Nat × OCtx :=
  (typedNodes s d).foldl (fun (acc : Nat × OCtx) p =>
    match p.1 with
    | .selectionSet i sels =>
      if acc.2.crash.isSome then acc else
      let r := withinSelectionSetM s fx (memoFuel d) p.2.parent i sels acc.2
      (acc.1 + r.1, r.2)
    | _ => acc) (0, ({ frags := fragTable d } : OCtx))

structure MemoAnswer where
  /-- the model's verdict -/
  outcome : Outcome
  /-- the un-memoised chain crashed and the overlap rule's count was supplied by the memoised run -/
  supplied : Bool
  /-- un-memoised chain: crash class, else the overlap rule's error count (if the rule was run) -/
  plainCrash : Option String
  plainOverlap : Option Nat
  /-- memoised run of the overlap rule (if the rule was run): error count, crash class -/
  memoOverlap : Option Nat
  memoCrash : Option String

private def overlapOf : Outcome → Option Nat
  | .errors l => (l.find? (·.1 == Rule.overlappingFieldsCanBeMerged)).map (·.2)
  | .crash _ => none
private def crashOf : Outcome → Option String
  | .crash e => some e
  | .errors _ => none

/-- The answer of the driver. `om` = the chain run with the memoised search INSIDE it (`runM`, `Validate/ChainPar.lean`:
    same traversal and `SkipNode` handling as the chain of the theorems, so the overlap rule sees exactly the
    selection sets it sees there - a rule raising `SkipNode` above a selection set hides it from all members).
    Ranked documents: the chain of the theorems `run` gives the verdict (if it crashes: `om`), and the two overlap
    counts are returned for the cross-check. Unranked documents (fragment cycles): `om` alone. -/
def runMemo (c : Cfg) (d : Doc) : MemoAnswer :=
  let ov := Rule.overlappingFieldsCanBeMerged
  if c.rules.contains ov then
    let om := runM (memoFuel d) c d
    if !rankOkB c.schema d (rankOf (computeRanks d)) then
      { outcome := om, supplied := true, plainCrash := some "not-run:unranked", plainOverlap := none,
        memoOverlap := overlapOf om, memoCrash := crashOf om }
    else
      let o1 := run c d
      match o1 with
      | .errors _ =>
        { outcome := o1, supplied := false, plainCrash := none, plainOverlap := overlapOf o1,
          memoOverlap := overlapOf om, memoCrash := crashOf om }
      | .crash e =>
        { outcome := om, supplied := true, plainCrash := some e, plainOverlap := none,
          memoOverlap := overlapOf om, memoCrash := crashOf om }
  else
    let o1 := run c d
    { outcome := o1, supplied := false, plainCrash := crashOf o1, plainOverlap := none, memoOverlap := none, memoCrash := none }

end PyGql.Validate

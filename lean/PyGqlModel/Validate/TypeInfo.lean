/-
  `TypeInfoVisitor` (validation/visitors.py): the five stacks and `directive`. `argument` and
  `enum_value` are set but never read by a rule and are not modelled.
  Python objects become by-name values: a type is a `Ty`, a composite parent its name.
  `leave_*` pop; a `SkipNode` raised by a rule AFTER `TypeInfoVisitor.enter` ran leaves the pushed
  entry on the stack for good (ledger V5) - that is what happens here too, because `leave` is
  simply not called by the walk (Chain.lean).
-/
import PyGqlModel.Validate.Ast
import PyGqlModel.Validate.Schema
namespace PyGql.Validate
open PyGql

structure TI where
  typeStack : List (Option Ty) := []
  parentStack : List (Option String) := []
  inputStack : List (Option Ty) := []
  fieldStack : List (Option FieldD) := []
  ivdStack : List (Option ArgD) := []
  directive : Option DirectiveD := none
  deriving Inhabited

namespace TI

/-- `_peek(lst, count)` -/
def peek {α} (l : List (Option α)) (count : Nat := 1) : Option α := (l[count - 1]?).join

def type (t : TI) : Option Ty := peek t.typeStack
def parentType (t : TI) : Option String := peek t.parentStack
def inputType (t : TI) : Option Ty := peek t.inputStack
def field (t : TI) : Option FieldD := peek t.fieldStack
def inputValueDef (t : TI) : Option ArgD := peek t.ivdStack

/-- `parent_input_type`; with fix V9 the type is unwrapped before the isinstance test -/
def parentInputType (s : SchemaD) (fx : Fixes) (t : TI) : Option String :=
  match peek t.inputStack 2 with
  | some ty =>
    if fx.v9 then (if isInputObject s ty.base then some ty.base else none)
    else match ty with
      | .named n => if isInputObject s n then some n else none
      | _ => none
  | none => none

def outOnly (s : SchemaD) (t : Option Ty) : Option Ty := t.bind fun x => if isOutputTy s x then some x else none
def inOnly (s : SchemaD) (t : Option Ty) : Option Ty := t.bind fun x => if isInputTy s x then some x else none

def enterSelectionSet (s : SchemaD) (t : TI) : TI :=
  let named := t.type.map (·.base)
  { t with parentStack := (named.bind fun n => if isComposite s n then some n else none) :: t.parentStack }
def leaveSelectionSet (t : TI) : TI := { t with parentStack := t.parentStack.drop 1 }

def enterField (s : SchemaD) (name : String) (t : TI) : TI :=
  let fd := t.parentType.bind fun p => getFieldDef s p name
  { t with fieldStack := fd :: t.fieldStack, typeStack := outOnly s (fd.map (·.type)) :: t.typeStack }
def leaveField (t : TI) : TI := { t with typeStack := t.typeStack.drop 1, fieldStack := t.fieldStack.drop 1 }

def enterDirective (s : SchemaD) (name : String) (t : TI) : TI := { t with directive := findDirective s name }
def leaveDirective (t : TI) : TI := { t with directive := none }

def enterOperation (s : SchemaD) (kind : String) (t : TI) : TI :=
  { t with typeStack := ((rootType s kind).map Ty.named) :: t.typeStack }
def popType (t : TI) : TI := { t with typeStack := t.typeStack.drop 1 }

def enterFragmentDef (s : SchemaD) (on : String) (t : TI) : TI :=
  { t with typeStack := outOnly s (typeFromAst s (.named on)) :: t.typeStack }

def enterInline (s : SchemaD) (on : Option String) (t : TI) : TI :=
  match on with
  | some n => { t with typeStack := outOnly s (typeFromAst s (.named n)) :: t.typeStack }
  | none => { t with typeStack := outOnly s t.type :: t.typeStack }

def enterVarDef (s : SchemaD) (ty : Ty) (t : TI) : TI :=
  { t with inputStack := inOnly s (typeFromAst s ty) :: t.inputStack }
def leaveVarDef (t : TI) : TI := { t with inputStack := t.inputStack.drop 1 }

def enterArgument (s : SchemaD) (name : String) (t : TI) : TI :=
  let args : Option (List ArgD) :=
    match t.directive with
    | some d => some d.args
    | none => t.field.map (·.args)
  match args with
  | some as =>
    let a := as.find? (·.name == name)
    { t with ivdStack := a :: t.ivdStack, inputStack := inOnly s (a.map (·.type)) :: t.inputStack }
  | none => { t with ivdStack := none :: t.ivdStack, inputStack := none :: t.inputStack }
def leaveInputValue (t : TI) : TI := { t with inputStack := t.inputStack.drop 1, ivdStack := t.ivdStack.drop 1 }

/-- `enter_list_value` (as of proposed_fixes/C06-enter-list-value.patch): the type expected of the ITEMS of a list
    literal: one non-null wrapper and one list level removed; at a non-list position the (nullable) type of the
    position is kept. (Before the fix: `unwrap_type`, the NAMED type whatever the nesting - ledger V8/V12.) -/
def itemOf (t : Ty) : Ty :=
  match (match t with | .nonNull x => x | x => x) with
  | .list i => i
  | x => x

def enterListValue (s : SchemaD) (t : TI) : TI :=
  let item : Option Ty := t.inputType.map itemOf
  { t with inputStack := inOnly s item :: t.inputStack, ivdStack := none :: t.ivdStack }

def enterObjectField (s : SchemaD) (name : String) (t : TI) : TI :=
  match t.inputType.map (·.base) with
  | some n =>
    if isInputObject s n then
      let fd := (inputFields s n).find? (·.name == name)
      { t with ivdStack := fd :: t.ivdStack, inputStack := inOnly s (fd.map (·.type)) :: t.inputStack }
    else { t with ivdStack := none :: t.ivdStack, inputStack := none :: t.inputStack }
  | none => { t with ivdStack := none :: t.ivdStack, inputStack := none :: t.inputStack }

end TI
end PyGql.Validate

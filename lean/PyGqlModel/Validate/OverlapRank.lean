/-
  A static RANK CHECK on a document under which the search of `OverlappingFieldsCanBeMergedChecker` never exhausts the
  model's fuel (`overlapFuel` = Python's recursion limit): every selection set carries a rank that exceeds by 2 the
  ranks of the sub-selections of its fields and of the bodies of the fragments it spreads, and twice the rank (+2)
  stays within the fuel. Computable: `computeRanks` proposes ranks, `rankOkB` checks them (soundness of the check is
  all that is proved: `Props/C06_overlap_hyps3.lean`).
-/
import PyGqlModel.Spec.ValidSpecOverlap
namespace PyGql.Validate
open PyGql PyGql.Validate.Spec

def rankOf (l : List (Nat × Nat)) (i : Nat) : Nat := ((l.find? (·.1 == i)).map (·.2)).getD 0

/-- rank of a field: that of its sub-selection -/
def entryRank (ρ : Nat → Nat) (e : FEntry) : Nat := if e.hasSub then ρ e.ssid else 0

/-- rank of a fragment: that of its body -/
def fragRank (ρ : Nat → Nat) (d : Doc) (g : String) : Nat :=
  match AL.get? (fragTable d) g with
  | some (_, fid, _) => ρ fid
  | none => 0

def nodeRankOk (s : SchemaD) (d : Doc) (ρ : Nat → Nat) : Node → Bool
  | .selectionSet i sels =>
    let r := collectSels s none sels ([], [])
    decide (2 ≤ ρ i) && decide (2 * ρ i + 2 ≤ overlapFuel) &&
      r.1.all (fun q => q.2.all fun e => decide (entryRank ρ e + 2 ≤ ρ i)) &&
      r.2.all (fun g => decide (fragRank ρ d g + 2 ≤ ρ i))
  | _ => true

/-- the check -/
def rankOkB (s : SchemaD) (d : Doc) (ρ : Nat → Nat) : Bool := (nodes d).all (nodeRankOk s d ρ)

/-! a proposal for the ranks: longest nesting / spread path, by ROUNDS over a table (each round linear in the document;
    following the spreads recursively is exponential on cyclic documents). On a cyclic document the table never settles
    and the proposal fails the check, as it must. -/

mutual
def rankSel (d : Doc) (tbl : List (Nat × Nat)) : Sel → Nat
  | .field _ _ _ _ hasSub ssid _ => if hasSub then rankOf tbl ssid + 2 else 2
  | .spread name _ =>
    match AL.get? (fragTable d) name with
    | some (_, fid, _) => rankOf tbl fid + 2
    | none => 2
  | .inline _ _ _ sub => rankSels d tbl sub
def rankSels (d : Doc) (tbl : List (Nat × Nat)) : List Sel → Nat
  | [] => 2
  | x :: xs => max (rankSel d tbl x) (rankSels d tbl xs)
end

def rankRound (d : Doc) (tbl : List (Nat × Nat)) : List (Nat × Nat) :=
  (nodes d).filterMap fun
    | .selectionSet i sels => some (i, rankSels d tbl sels)
    | _ => none

def rankRounds (d : Doc) : Nat → List (Nat × Nat) → List (Nat × Nat)
  | 0, tbl => tbl
  | n + 1, tbl => rankRounds d n (rankRound d tbl)

/-- ranks above `overlapFuel / 2` fail the check anyway: that many rounds (at most one per selection set) suffice -/
def computeRanks (d : Doc) : List (Nat × Nat) :=
  rankRounds d (min ((selSetCount d) + 1) (overlapFuel / 2 + 2)) []
where selSetCount (d : Doc) : Nat := ((nodes d).filter fun | .selectionSet _ _ => true | _ => false).length

end PyGql.Validate

namespace PyGql.Validate
open PyGql PyGql.Validate.Spec

/-! syntactic ranks only (no condition on fragment spreads, no bound by the fuel): what the termination of the
    MEMOISED search (`Validate/OverlapMemo.lean`) rests on; `R` bounds all ranks -/
def nodeRankSyn (s : SchemaD) (ρ : Nat → Nat) (R : Nat) : Node → Bool
  | .selectionSet i sels =>
    decide (2 ≤ ρ i) && decide (ρ i ≤ R) &&
      (collectSels s none sels ([], [])).1.all (fun q => q.2.all fun e => decide (entryRank ρ e + 2 ≤ ρ i))
  | _ => true

def rankSynB (s : SchemaD) (d : Doc) (ρ : Nat → Nat) (R : Nat) : Bool := (nodes d).all (nodeRankSyn s ρ R)

mutual
/-- twice the syntactic nesting height (+2) of a selection list; spreads are not followed -/
def synRankSel : Sel → Nat
  | .field _ _ _ _ hasSub _ sub => if hasSub then synRankSels sub + 2 else 2
  | .spread _ _ => 2
  | .inline _ _ _ sub => synRankSels sub
def synRankSels : List Sel → Nat
  | [] => 2
  | x :: xs => max (synRankSel x) (synRankSels xs)
end

def synRanks (d : Doc) : List (Nat × Nat) :=
  (nodes d).filterMap fun
    | .selectionSet i sels => some (i, synRankSels sels)
    | _ => none

def maxRank (l : List (Nat × Nat)) : Nat := l.foldl (fun m p => max m p.2) 2

end PyGql.Validate

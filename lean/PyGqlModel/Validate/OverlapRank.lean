/-
  A static RANK CHECK on a document under which the search of `OverlappingFieldsCanBeMergedChecker` never exhausts the
  model's fuel (`overlapFuel` = Python's recursion limit): every selection set carries a rank that exceeds by 2 the
  ranks of the sub-selections of its fields and of the bodies of the fragments it spreads, and twice the rank (+2)
  stays within the fuel. Computable: `computeRanks` proposes ranks, `rankOkB` checks them (soundness of the check is
  all that is proved: `Props/C06_overlap_hyps3.lean`).
-/
import PyGqlModel.Spec.ValidSpecOverlap
namespace PyGql.Validate
open PyGql PyGql.Validate.Spec

def rankOf (l : List (Nat × Nat)) (i : Nat) : Nat := ((l.find? (·.1 == i)).map (·.2)).getD 0

/-- rank of a field: that of its sub-selection -/
def entryRank (ρ : Nat → Nat) (e : FEntry) : Nat := if e.hasSub then ρ e.ssid else 0

/-- rank of a fragment: that of its body -/
def fragRank (ρ : Nat → Nat) (d : Doc) (g : String) : Nat :=
  match AL.get? (fragTable d) g with
  | some (_, fid, _) => ρ fid
  | none => 0

def nodeRankOk (s : SchemaD) (d : Doc) (ρ : Nat → Nat) : Node → Bool
  | .selectionSet i sels =>
    let r := collectSels s none sels ([], [])
    decide (2 ≤ ρ i) && decide (2 * ρ i + 2 ≤ overlapFuel) &&
      r.1.all (fun q => q.2.all fun e => decide (entryRank ρ e + 2 ≤ ρ i)) &&
      r.2.all (fun g => decide (fragRank ρ d g + 2 ≤ ρ i))
  | _ => true

/-- the check -/
def rankOkB (s : SchemaD) (d : Doc) (ρ : Nat → Nat) : Bool := (nodes d).all (nodeRankOk s d ρ)

/-! a proposal for the ranks (longest nesting / spread path, computed with fuel) -/

mutual
def rankSel (d : Doc) : Nat → Sel → Nat
  | 0, _ => 0
  | n + 1, .field _ _ _ _ hasSub _ sub => if hasSub then rankSels d n sub + 2 else 2
  | n + 1, .spread name _ =>
    match AL.get? (fragTable d) name with
    | some (_, _, fsels) => rankSels d n fsels + 2
    | none => 2
  | n + 1, .inline _ _ _ sub => rankSels d n sub
def rankSels (d : Doc) : Nat → List Sel → Nat
  | 0, _ => 2
  | _ + 1, [] => 2
  | n + 1, x :: xs => max (rankSel d n x) (rankSels d n xs)
end

def computeRanks (d : Doc) : List (Nat × Nat) :=
  (nodes d).filterMap fun
    | .selectionSet i sels => some (i, rankSels d (2 * (nodes d).length + 2) sels)
    | _ => none

end PyGql.Validate

namespace PyGql.Validate
open PyGql PyGql.Validate.Spec

/-! syntactic ranks only (no condition on fragment spreads, no bound by the fuel): what the termination of the
    MEMOISED search (`Validate/OverlapMemo.lean`) rests on; `R` bounds all ranks -/
def nodeRankSyn (s : SchemaD) (ρ : Nat → Nat) (R : Nat) : Node → Bool
  | .selectionSet i sels =>
    decide (2 ≤ ρ i) && decide (ρ i ≤ R) &&
      (collectSels s none sels ([], [])).1.all (fun q => q.2.all fun e => decide (entryRank ρ e + 2 ≤ ρ i))
  | _ => true

def rankSynB (s : SchemaD) (d : Doc) (ρ : Nat → Nat) (R : Nat) : Bool := (nodes d).all (nodeRankSyn s ρ R)

mutual
/-- twice the syntactic nesting height (+2) of a selection list; spreads are not followed -/
def synRankSel : Sel → Nat
  | .field _ _ _ _ hasSub _ sub => if hasSub then synRankSels sub + 2 else 2
  | .spread _ _ => 2
  | .inline _ _ _ sub => synRankSels sub
def synRankSels : List Sel → Nat
  | [] => 2
  | x :: xs => max (synRankSel x) (synRankSels xs)
end

def synRanks (d : Doc) : List (Nat × Nat) :=
  (nodes d).filterMap fun
    | .selectionSet i sels => some (i, synRankSels sels)
    | _ => none

def maxRank (l : List (Nat × Nat)) : Nat := l.foldl (fun m p => max m p.2) 2

end PyGql.Validate

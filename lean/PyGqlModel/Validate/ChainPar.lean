/-
  `Validate/Chain.lean` with the rules' enter function as a PARAMETER (generated from it by renaming: same traversal,
  same `SkipNode` handling), so that the chain can be run with the memoised overlap search (`enterRuleM`,
  /repo 7e75356) while `Chain.lean` - the chain of the theorems - stays as it is. `visitDocumentPar enterRule = visitDocument`
  (proved: `Lemmas/ValidateChainParEq.lean: visitDocumentPar_eq`; the correspondence also cross-checks both chains on every
  ranked document).
-/
import PyGqlModel.Validate.Chain
import PyGqlModel.Validate.OverlapMemo
namespace PyGql.Validate
open PyGql

abbrev ER := SchemaD → Fixes → Rule → Node → TI → RS → RS × Bool

/-- the rules' part of `ChainedVisitor.enter`: every rule enters; the flag says whether some rule raised `SkipNode` -/
def enterRulesPar (er : ER) (c : Cfg) (n : Node) (ti : TI) : List Rule → RS → RS × Bool
  | [], rs => (rs, false)
  | r :: rest, rs =>
    let (rs, skip) := er c.schema c.fixes r n ti rs
    let (rs', skip') := enterRulesPar er c n ti rest rs
    (rs', skip || skip')

/-- the rules that raised `SkipNode` in `enterRules` (same threading of the rule state) -/
def raisedRulesPar (er : ER) (c : Cfg) (n : Node) (ti : TI) : List Rule → RS → List Rule
  | [], _ => []
  | r :: rest, rs =>
    let (rs', skip) := er c.schema c.fixes r n ti rs
    if skip then r :: raisedRulesPar er c n ti rest rs' else raisedRulesPar er c n ti rest rs'

def enterPar (er : ER) (c : Cfg) (n : Node) (st : St) : St × Bool :=
  let ti := tiEnter c.schema n st.ti
  let (rs, skip) := enterRulesPar er c n ti c.rules st.rs
  ({ ti, rs }, skip)

def leavePar (er : ER) (c : Cfg) (n : Node) (st : St) : St :=
  let rs := c.rules.reverse.foldl (fun rs r => leaveRule c.schema c.fixes r n st.ti rs) st.rs
  { ti := tiLeave n st.ti, rs }

/-- after a `SkipNode`: `st0` is the state before `enter`, `st1` the state after it. The members that entered
    without raising are left in reverse order, `TypeInfoVisitor` last -/
def leaveSkippedPar (er : ER) (c : Cfg) (n : Node) (st0 st1 : St) : St :=
  let raised := raisedRulesPar er c n st1.ti c.rules st0.rs
  let rs := (c.rules.filter fun r => !raised.contains r).reverse.foldl
    (fun rs r => leaveRule c.schema c.fixes r n st1.ti rs) st1.rs
  { ti := tiLeave n st1.ti, rs }

/-- `_visit_method` wrapper -/
@[inline] def visitNodePar (er : ER) (c : Cfg) (n : Node) (body : St → St) (st : St) : St :=
  let (st1, skip) := enterPar er c n st
  if skip then leaveSkippedPar er c n st st1 else leavePar er c n (body st1)

mutual
def visitValuePar (er : ER) (c : Cfg) : Value → St → St
  | v, st =>
    visitNodePar er c (.value v) (fun st =>
      match v with
      | .list vs => visitValuesPar er c vs st
      | .obj fs => visitObjFieldsPar er c fs st
      | _ => st) st
def visitValuesPar (er : ER) (c : Cfg) : List Value → St → St
  | [], st => st
  | v :: vs, st => visitValuesPar er c vs (visitValuePar er c v st)
def visitObjFieldPar (er : ER) (c : Cfg) : ObjField → St → St
  | .mk name v, st => visitNodePar er c (.objField name) (visitValuePar er c v) st
def visitObjFieldsPar (er : ER) (c : Cfg) : List ObjField → St → St
  | [], st => st
  | f :: fs, st => visitObjFieldsPar er c fs (visitObjFieldPar er c f st)
end

def visitArgumentPar (er : ER) (c : Cfg) (a : Arg) (st : St) : St := visitNodePar er c (.argument a) (visitValuePar er c a.value) st
def visitArgumentsPar (er : ER) (c : Cfg) (as : List Arg) (st : St) : St := as.foldl (fun st a => visitArgumentPar er c a st) st
def visitDirectivePar (er : ER) (c : Cfg) (d : Dir) (st : St) : St := visitNodePar er c (.directive d) (visitArgumentsPar er c d.args) st
def visitDirectivesPar (er : ER) (c : Cfg) (ds : List Dir) (st : St) : St := ds.foldl (fun st d => visitDirectivePar er c d st) st

mutual
def visitSelPar (er : ER) (c : Cfg) : Sel → St → St
  | .field _ name args dirs hasSub ssid sub, st =>
    visitNodePar er c (.field name args dirs hasSub) (fun st =>
      let st := visitDirectivesPar er c dirs (visitArgumentsPar er c args st)
      if hasSub then visitNodePar er c (.selectionSet ssid sub) (visitSelsPar er c sub) st else st) st
  | .spread name dirs, st => visitNodePar er c (.spread name dirs) (visitDirectivesPar er c dirs) st
  | .inline on dirs ssid sub, st =>
    visitNodePar er c (.inline on dirs) (fun st =>
      visitNodePar er c (.selectionSet ssid sub) (visitSelsPar er c sub) (visitDirectivesPar er c dirs st)) st
def visitSelsPar (er : ER) (c : Cfg) : List Sel → St → St
  | [], st => st
  | x :: xs, st => visitSelsPar er c xs (visitSelPar er c x st)
end

def visitVarDefPar (er : ER) (c : Cfg) (v : VarDef) (st : St) : St :=
  visitNodePar er c (.varDef v) (fun st =>
    let st := match v.default with | some d => visitValuePar er c d st | none => st
    visitDirectivesPar er c v.dirs (visitNodePar er c (.typeNode v.type) id st)) st

def visitDefPar (er : ER) (c : Cfg) (d : Def) (st : St) : St :=
  match d with
  | .op kind name vars dirs ssid sels =>
    visitNodePar er c (.operation kind name vars dirs sels) (fun st =>
      let st := vars.foldl (fun st v => visitVarDefPar er c v st) st
      let st := visitDirectivesPar er c dirs st
      visitNodePar er c (.selectionSet ssid sels) (visitSelsPar er c sels) st) st
  | .frag name on dirs ssid sels =>
    visitNodePar er c (.fragmentDef name on dirs) (fun st =>
      visitNodePar er c (.selectionSet ssid sels) (visitSelsPar er c sels) (visitDirectivesPar er c dirs st)) st
  | .ts .. => visitNodePar er c .tsDef id st

def visitDocumentPar (er : ER) (c : Cfg) (d : Doc) (st : St) : St :=
  visitNodePar er c (.document d) (fun st => d.defs.foldl (fun st x => visitDefPar er c x st) st) st


/-- `enterRule` with the memoised overlap search and a recursion budget of `fuel` frames -/
def enterRuleM (fuel : Nat) : ER := fun s fx r n ti st =>
  match r, n with
  | .overlappingFieldsCanBeMerged, .selectionSet ssid sels =>
    let res := withinSelectionSetM s fx fuel ti.parentType ssid sels st.octx
    let st := { st with octx := res.2 }
    let st := match res.2.crash with | some e => { st with crash := some e } | none => st
    (st.errN r res.1, false)
  | _, _ => enterRule s fx r n ti st

/-- `run` with the memoised overlap search -/
def runM (fuel : Nat) (c : Cfg) (d : Doc) : Outcome :=
  let st := visitDocumentPar (enterRuleM fuel) c d {}
  match st.rs.crash with
  | some e => .crash e
  | none => .errors (c.rules.map fun r => (r, countOf st.rs.errs r))

end PyGql.Validate

/-
  Executable-document AST for the validation model (C05/C06). Own, small AST: the Python side parses
  with the real parser and sends a JSON derived from `Node.to_dict()` (harness/corr/C06_model.py).
  Selection sets carry the start offset of their node (`ssid`): the field-merge rule caches per
  selection-set NODE and compares field maps by identity.  Import-free (core + Ty).
-/
import PyGqlModel.Ty
namespace PyGql.Validate
open PyGql

mutual
inductive Value where
  | var (name : String)
  | int (s : String)
  | float (s : String)
  | str (s : String)
  | bool (b : Bool)
  | null
  | enum (s : String)
  | list (vs : List Value)
  | obj (fs : List ObjField)
  deriving Repr, Inhabited
inductive ObjField where
  | mk (name : String) (value : Value)
  deriving Repr, Inhabited
end

mutual
/-- a variable occurs somewhere in the value -/
def Value.hasVar : Value → Bool
  | .var _ => true
  | .list vs => Value.hasVarL vs
  | .obj fs => Value.hasVarF fs
  | _ => false
def Value.hasVarL : List Value → Bool
  | [] => false
  | v :: vs => v.hasVar || Value.hasVarL vs
def Value.hasVarF : List ObjField → Bool
  | [] => false
  | .mk _ v :: fs => v.hasVar || Value.hasVarF fs
end

def ObjField.name : ObjField → String | .mk n _ => n
def ObjField.value : ObjField → Value | .mk _ v => v

structure Arg where
  name : String
  value : Value
  deriving Repr, Inhabited

structure Dir where
  name : String
  args : List Arg
  deriving Repr, Inhabited

inductive Sel where
  | field (alias : Option String) (name : String) (args : List Arg) (dirs : List Dir)
          (hasSub : Bool) (ssid : Nat) (sub : List Sel)
  | spread (name : String) (dirs : List Dir)
  | inline (on : Option String) (dirs : List Dir) (ssid : Nat) (sub : List Sel)
  deriving Repr, Inhabited

/-- no variable in the arguments: `Directives[Const]` of the grammar -/
def Dir.isConst (d : Dir) : Bool := d.args.all fun a => !a.value.hasVar

structure VarDef where
  name : String
  type : Ty
  default : Option Value
  /-- `Directives[Const]` of the definition (visited after the type since /repo 370692d) -/
  dirs : List Dir := []
  /-- the parser reads them with `parse_directives(const=True)`: a variable there is a syntax error -/
  dirsConst : dirs.all Dir.isConst = true := by rfl

instance : Inhabited VarDef := ⟨{ name := "", type := .named "", default := none }⟩
instance : Repr VarDef := ⟨fun v _ => "VarDef(" ++ repr v.name ++ ", " ++ repr v.type ++ ", " ++ repr v.default ++ ", " ++ repr v.dirs ++ ")"⟩

inductive Def where
  | op (kind : String) (name : Option String) (vars : List VarDef) (dirs : List Dir) (ssid : Nat) (sels : List Sel)
  | frag (name : String) (on : String) (dirs : List Dir) (ssid : Nat) (sels : List Sel)
  /-- a type-system definition or extension: opaque (`isSchema`: schema definition/extension) -/
  | ts (isSchema : Bool) (name : String)
  deriving Repr, Inhabited

structure Doc where
  defs : List Def
  deriving Repr, Inhabited

def Def.isExecutable : Def → Bool | .ts .. => false | _ => true
def Def.isOp : Def → Bool | .op .. => true | _ => false
def Def.isFrag : Def → Bool | .frag .. => true | _ => false
/-- an operation definition without a name -/
def Def.isAnonOp : Def → Bool | .op _ none .. => true | _ => false

/-- Variants of six places of the validator. `true` (the default) = the code of /repo HEAD (fix commits
    160f78c, 84a8250, 05e5ea5, 0368e7b, 874f2dd); `false` = the code before that fix, kept so that the
    refutation theorems of Props/C06_witness.lean can be stated about the unfixed variant (ledger V3, V4, V7,
    V9, V10, V11). The harness probes the tree under test and passes what it finds. -/
structure Fixes where
  v3 : Bool := true
  v4 : Bool := true
  v7 : Bool := true
  v9 : Bool := true
  v10 : Bool := true
  v11 : Bool := true
  deriving Repr, Inhabited, DecidableEq

def Fixes.all : Fixes := {}
/-- the validator as it was in the snapshot 2541ded -/
def Fixes.unfixed : Fixes := ⟨false, false, false, false, false, false⟩

/-! association lists with `OrderedDict` behaviour (update in place, new keys at the end) -/
abbrev AL (α : Type) := List (String × α)

namespace AL
variable {α : Type}
def get? (m : AL α) (k : String) : Option α := (m.find? (·.1 == k)).map (·.2)
def getD (m : AL α) (k : String) (d : α) : α := (get? m k).getD d
def has (m : AL α) (k : String) : Bool := m.any (·.1 == k)
def set (m : AL α) (k : String) (v : α) : AL α :=
  if has m k then m.map (fun p => if p.1 == k then (k, v) else p) else m ++ [(k, v)]
def modify (m : AL α) (k : String) (d : α) (f : α → α) : AL α := set m k (f (getD m k d))
/-- `DefaultOrderedDict.__getitem__`: creates the key -/
def touch (m : AL α) (k : String) (d : α) : AL α := if has m k then m else m ++ [(k, d)]
def keys (m : AL α) : List String := m.map (·.1)
end AL

end PyGql.Validate

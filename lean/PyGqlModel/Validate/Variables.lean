/-
  `VariablesCollector` (validation/visitors.py) with its per-name usage maps and
  `_flatten_fragments`, and the three `leave_document` bodies built on it:
  `NoUndefinedVariablesChecker`, `NoUnusedVariablesChecker`, `VariablesInAllowedPositionChecker`.
  Unfixed tree: one usage per (scope, variable name) - the last one wins (ledger V3) - and a one-pass
  flattening in definition order (ledger V4). `Fixes.v3` / `Fixes.v4` switch to the proposed repairs.
-/
import PyGqlModel.Validate.TypeInfo
namespace PyGql.Validate
open PyGql

/-- `(node, input_type, input_value_def)` without the node -/
structure Usage where
  inputType : Option Ty
  /-- `input_value_def is not None and input_value_def.has_default_value` -/
  locDefault : Bool
  deriving Repr, Inhabited

structure VC where
  op : Option String := none
  frag : Option String := none
  inVarDef : Bool := false
  opVars : AL (AL (List Usage)) := []
  opDefined : AL (AL VarDef) := []
  opFrags : AL (List String) := []
  fragVars : AL (AL (List Usage)) := []
  fragFrags : AL (List String) := []
  deriving Inhabited

namespace VC

def enterOperation (name : Option String) (c : VC) : VC := { c with op := some (name.getD "") }
def leaveOperation (c : VC) : VC := { c with op := none }
def enterFragmentDef (name : String) (c : VC) : VC := { c with frag := some name }
def leaveFragmentDef (c : VC) : VC := { c with frag := none }

def enterSpread (name : String) (c : VC) : VC :=
  match c.op, c.frag with
  | some o, _ => { c with opFrags := AL.modify c.opFrags o [] (· ++ [name]) }
  | none, some f => if name != f then { c with fragFrags := AL.modify c.fragFrags f [] (· ++ [name]) } else c
  | none, none => c

def enterVarDef (v : VarDef) (c : VC) : VC :=
  let c := { c with inVarDef := true }
  match c.op with
  | some o => { c with opDefined := AL.modify c.opDefined o [] (fun m => AL.set m v.name v) }
  | none => c
def leaveVarDef (c : VC) : VC := { c with inVarDef := false }

def record (fx : Fixes) (m : AL (List Usage)) (var : String) (u : Usage) : AL (List Usage) :=
  if fx.v3 then AL.modify m var [] (· ++ [u]) else AL.set m var [u]

def enterVariable (fx : Fixes) (var : String) (ti : TI) (c : VC) : VC :=
  let u : Usage := { inputType := ti.inputType, locDefault := (ti.inputValueDef.map (·.hasDefault)).getD false }
  if c.inVarDef then c
  else match c.op, c.frag with
    | some o, _ => { c with opVars := AL.modify c.opVars o [] (fun m => record fx m var u) }
    | none, some f => { c with fragVars := AL.modify c.fragVars f [] (fun m => record fx m var u) }
    | none, none => c

/-- unfixed `_flatten_fragments`: ONE pass over `_fragment_fragments` in insertion order -/
def flattenOnePass (c : VC) : VC :=
  let step (opFrags : AL (List String)) (pc : String × List String) : AL (List String) :=
    pc.2.eraseDups.foldl (fun ofs child =>
      ofs.map fun (o, fs) => if fs.contains pc.1 then (o, fs ++ [child]) else (o, fs)) opFrags
  { c with opFrags := c.fragFrags.foldl step c.opFrags }

/-- fixed (V4): breadth-first closure per operation; `fuel` bounds the queue length -/
def closure (ff : AL (List String)) : Nat → List String → List String → List String
  | 0, _, acc => acc
  | _, [], acc => acc
  | fuel+1, parent :: queue, acc =>
    let new := ((AL.getD ff parent []).eraseDups).filter fun ch => !acc.contains ch
    closure ff fuel (queue ++ new) (acc ++ new)

def flattenClosure (c : VC) : VC :=
  let bound := (c.fragFrags.foldl (fun n p => n + p.2.length + 1) 1) + c.opFrags.foldl (fun n p => n + p.2.length + 1) 1
  { c with opFrags := c.opFrags.map fun (o, fs) => (o, closure c.fragFrags bound fs fs) }

def flatten (fx : Fixes) (c : VC) : VC := if fx.v4 then flattenClosure c else flattenOnePass c

/-- number of errors of `NoUndefinedVariablesChecker.leave_document` -/
def undefinedErrors (c : VC) : Nat :=
  let a := c.opFrags.foldl (fun n (o, frags) =>
    let defined := AL.getD c.opDefined o []
    frags.eraseDups.foldl (fun n f =>
      (AL.getD c.fragVars f []).foldl (fun n (var, _) => if AL.has defined var then n else n + 1) n) n) 0
  c.opVars.foldl (fun n (o, vars) =>
    let defined := AL.getD c.opDefined o []
    vars.foldl (fun n (var, _) => if AL.has defined var then n else n + 1) n) a

/-- number of errors of `NoUnusedVariablesChecker.leave_document` -/
def unusedErrors (c : VC) : Nat :=
  c.opDefined.foldl (fun n (o, defined) =>
    let fromFrags := ((AL.getD c.opFrags o []).eraseDups).flatMap fun f => AL.keys (AL.getD c.fragVars f [])
    let used := fromFrags ++ AL.keys (AL.getD c.opVars o [])
    defined.foldl (fun n (var, _) => if used.contains var then n else n + 1) n) 0

/-- the test made for one usage by `VariablesInAllowedPositionChecker`; `true` = an error is added -/
def usageBad (s : SchemaD) (vd : VarDef) (u : Usage) : Bool :=
  match u.inputType with
  | none => false
  | some it =>
    match typeFromAst s vd.type with
    | none => false
    | some vt =>
      match it, vt.isNonNull with
      | .nonNull inner, false =>
        let nonNullVarDefault := match vd.default with | none => false | some .null => false | some _ => true
        (!nonNullVarDefault && !u.locDefault) || !isSubtype s vt inner
      | _, _ => !isSubtype s vt it

/-- number of errors of `VariablesInAllowedPositionChecker.leave_document` -/
def positionErrors (s : SchemaD) (c : VC) : Nat :=
  c.opDefined.foldl (fun n (o, vardefs) =>
    let direct : List (String × Usage) := (AL.getD c.opVars o []).flatMap fun (v, us) => us.map fun u => (v, u)
    let viaFrags : List (String × Usage) := (AL.getD c.opFrags o []).flatMap fun f =>
      (AL.getD c.fragVars f []).flatMap fun (v, us) => us.map fun u => (v, u)
    (direct ++ viaFrags).foldl (fun n (v, u) =>
      match AL.get? vardefs v with
      | some vd => if usageBad s vd u then n + 1 else n
      | none => n) n) 0

end VC
end PyGql.Validate

/-
  Well-formedness of the node identities of a document: every selection-set node carries a different identity.
  The harness (`corr/C06_model.py: _sub`) uses the START OFFSET of the `SelectionSet` node, so every document it sends
  satisfies this; the driver can CHECK it (`wfIdsB`, computable, no Mathlib).
-/
import PyGqlModel.Spec.ValidSpec
namespace PyGql.Validate
open PyGql PyGql.Validate.Spec

def ssidOf? : Node → Option Nat
  | .selectionSet i _ => some i
  | _ => none

/-- identities of the selection-set nodes of a list of nodes, in order, with multiplicity -/
def idsOf (ns : List Node) : List Nat := ns.filterMap ssidOf?

/-- identities of all selection-set nodes of the document -/
def selSetIds (d : Doc) : List Nat := idsOf (nodes d)

def distinctB : List Nat → Bool
  | [] => true
  | x :: xs => !xs.contains x && distinctB xs

/-- the check the driver runs -/
def wfIdsB (d : Doc) : Bool := distinctB (selSetIds d)

/-- **the selection-set nodes of the document have pairwise different identities** -/
def WfIds (d : Doc) : Prop := (selSetIds d).Nodup

theorem distinctB_iff (l : List Nat) : distinctB l = true ↔ l.Nodup := by
  induction l with
  | nil => simp [distinctB]
  | cons x xs ih => simp [distinctB, ih]

theorem wfIdsB_iff (d : Doc) : wfIdsB d = true ↔ WfIds d := distinctB_iff _

end PyGql.Validate

/-
  C14 — `extend_schema`: every type is REBUILT (`ASTTypeBuilder.extend_type` + `_extend_*`);
  which attributes the rebuilt objects keep is what `Cfg.ext*` says (read from the source).
  References are resolved by name through `_extended_cache` (one new object per name).
-/
import PyGqlModel.Heap

namespace PyGql.Heap

/-- type expression of an extension document (by name) -/
inductive TN where
  | named (n : String)
  | list (t : TN)
  | nonNull (t : TN)
  deriving Repr, Inhabited

structure ExtArg where
  name : String
  ty : TN
  deriving Repr, Inhabited

structure ExtField where
  name : String
  ty : TN
  args : List ExtArg
  /-- the resolver a schema directive of the extension document gives the new field (`extend_schema(…, schema_directives=…)`,
      `extend type Query { b: String @wrap }`); `none`: the field is built without one -/
  res : Option Nat := none
  deriving Repr, Inhabited

structure Ext where
  /-- new object types -/
  newTypes : List (String × List ExtField)
  /-- `extend type T { … }` / `extend interface T { … }` -/
  fields : List (String × List ExtField)
  inputFields : List (String × List ExtArg)
  members : List (String × List String)
  values : List (String × List String)
  newDirs : List (String × List ExtArg × List String)
  /-- `type Zed implements Pet & Named { … }`: the interfaces an object type DEFINED by the document declares (by name) -/
  newIfaces : List (String × List String) := []
  deriving Repr, Inhabited

def placeholder (n : String) : Obj :=
  .type { kind := .object, name := n, desc := none, fields := [], ifaces := [], members := [], dres := none,
          rtype := none, values := [], prot := false }

def allocPlaceholders : Heap → List String → Heap × List (String × Addr)
  | h, [] => (h, [])
  | h, n :: ns =>
    let r := h.alloc (placeholder n)
    let rs := allocPlaceholders r.1 ns
    (rs.1, (n, r.2) :: rs.2)

def repoint (N : List (String × Addr)) : TRef → TRef
  | .named r => .named ⟨r.name, (lookup N r.name).getD r.addr⟩
  | .list t => .list (repoint N t)
  | .nonNull t => .nonNull (repoint N t)

def repointRefs (N : List (String × Addr)) (rs : List Ref) : List Ref :=
  rs.map fun r => ⟨r.name, (lookup N r.name).getD r.addr⟩

def tnRef (N : List (String × Addr)) : TN → TRef
  | .named n => .named ⟨n, (lookup N n).getD 0⟩
  | .list t => .list (tnRef N t)
  | .nonNull t => .nonNull (tnRef N t)

/-- `_extend_argument` / the `InputField(...)` of `_extend_input_object_type` -/
def extendArgs (keepPy : Bool) (N : List (String × Addr)) : Heap → List Addr → Heap × List Addr
  | h, [] => (h, [])
  | h, a :: as =>
    match h.readArg a with
    | some g =>
      let r := h.alloc (.arg { g with ty := repoint N g.ty, py := if keepPy then g.py else g.name })
      let rs := extendArgs keepPy N r.1 as
      (rs.1, r.2 :: rs.2)
    | none => extendArgs keepPy N h as

/-- `_build_argument` / `_build_input_field` for a definition of the extension document -/
def buildArgs (N : List (String × Addr)) : Heap → List ExtArg → Heap × List Addr
  | h, [] => (h, [])
  | h, g :: gs =>
    let r := h.alloc (.arg { name := g.name, ty := tnRef N g.ty, py := g.name, dflt := none, desc := none })
    let rs := buildArgs N r.1 gs
    (rs.1, r.2 :: rs.2)

/-- `_extend_field` -/
def extendFields (cfg : Cfg) (N : List (String × Addr)) : Heap → List Addr → Heap × List Addr
  | h, [] => (h, [])
  | h, a :: as =>
    match h.readField a with
    | some f =>
      let ra := extendArgs cfg.extArgPy N h f.args
      let r := ra.1.alloc (.field { f with ty := repoint N f.ty, args := ra.2,
                                           sub := if cfg.extFieldSub then f.sub else none,
                                           py := if cfg.extFieldPy then f.py else f.name })
      let rs := extendFields cfg N r.1 as
      (rs.1, r.2 :: rs.2)
    | none => extendFields cfg N h as

/-- `_extend_field(_build_field(ext_field))` -/
def buildFields (N : List (String × Addr)) : Heap → List ExtField → Heap × List Addr
  | h, [] => (h, [])
  | h, f :: fs =>
    let ra := buildArgs N h f.args
    let r := ra.1.alloc (.field { name := f.name, ty := tnRef N f.ty, args := ra.2, desc := none, depr := none,
                                  res := f.res, sub := none, py := f.name })
    let rs := buildFields N r.1 fs
    (rs.1, r.2 :: rs.2)

def assocD {α} (l : List (String × List α)) (n : String) : List α := ((l.find? (·.1 == n)).map (·.2)).getD []

/-- the rebuilt members of a type: `_extend_field` / `_extend_argument` of the old ones, then the ones the extension adds -/
def extendKids (cfg : Cfg) (ext : Ext) (N Nin : List (String × Addr)) (h : Heap) (t : TypeO) : Heap × List Addr :=
  match t.kind with
  | .input =>
    let r1 := extendArgs cfg.extInputPy N h t.fields
    let r2 := buildArgs Nin r1.1 (assocD ext.inputFields t.name)
    (r2.1, r1.2 ++ r2.2)
  | .object | .interface =>
    let r1 := extendFields cfg N h t.fields
    let r2 := buildFields N r1.1 (assocD ext.fields t.name)
    (r2.1, r1.2 ++ r2.2)
  | _ => (h, [])

/-- the constructor call of `_extend_object_type` / `_extend_interface_type` / `_extend_union_type` /
    `_extend_enum_type` / `_extend_input_object_type` / `_extend_scalar_type`: which attributes are passed on -/
def rebuiltType (cfg : Cfg) (ext : Ext) (N : List (String × Addr)) (t : TypeO) (fields : List Addr) : TypeO :=
  { t with
    fields := fields
    ifaces := repointRefs N t.ifaces
    members := repointRefs N t.members ++ (assocD ext.members t.name).map fun m => ⟨m, (lookup N m).getD 0⟩
    desc := if t.kind == Kind.union && !cfg.extUnionDesc then none else t.desc
    rtype := match t.kind with
             | .interface => if cfg.extIfaceRtype then t.rtype else none
             | .union => if cfg.extUnionRtype then t.rtype else none
             | _ => t.rtype
    dres := if t.kind == Kind.object && !cfg.extObjDres then none else t.dres
    values := t.values ++ (assocD ext.values t.name).map fun v => v ++ "|None|None"
    cls := if (t.kind == Kind.scalar || t.kind == Kind.enum) && cfg.extLeafCopied then t.cls else none }

/-- the rebuilt object is written at the placeholder `na` of its name -/
def extendOne (cfg : Cfg) (ext : Ext) (N Nin : List (String × Addr)) (h : Heap) (t : TypeO) (na : Addr) : Heap :=
  let r := extendKids cfg ext N Nin h t
  r.1.write na (.type (rebuiltType cfg ext N t r.2))

def extendAll (cfg : Cfg) (ext : Ext) (N Nin P : List (String × Addr)) : Heap → Heap → List (String × Addr) → Heap
  | _, h, [] => h
  | h0, h, (n, a) :: rest =>
    if isProtected n then extendAll cfg ext N Nin P h0 h rest else
    match h0.readType a, lookup P n with
    | some t, some na => extendAll cfg ext N Nin P h0 (extendOne cfg ext N Nin h t na) rest
    | _, _ => extendAll cfg ext N Nin P h0 h rest

def buildNewTypes (N P : List (String × Addr)) : Heap → List (String × List ExtField) → Heap
  | h, [] => h
  | h, (n, fs) :: rest =>
    let r := buildFields N h fs
    let h' := match lookup P n with
      | some na => r.1.write na (.type { kind := .object, name := n, desc := none, fields := r.2, ifaces := [], members := [],
                                          dres := none, rtype := none, values := [], prot := false })
      | none => r.1
    buildNewTypes N P h' rest

/-- `extend_directive` -/
def extendDirs (cfg : Cfg) (N : List (String × Addr)) : Heap → List (String × Addr) → Heap × List (String × Addr)
  | h, [] => (h, [])
  | h, (n, a) :: rest =>
    match h.readDir a with
    | some d =>
      let ra := extendArgs cfg.extArgPy N h d.args
      let r := ra.1.alloc (.dir { d with args := ra.2 })
      let rs := extendDirs cfg N r.1 rest
      (rs.1, (n, r.2) :: rs.2)
    | none => extendDirs cfg N h rest

def buildNewDirs (cfg : Cfg) (N : List (String × Addr)) : Heap → List (String × List ExtArg × List String) → Heap × List (String × Addr)
  | h, [] => (h, [])
  | h, (n, args, locs) :: rest =>
    let ra := buildArgs N h args
    -- `extend_directive(build_directive(d))`: the arguments are rebuilt once more by `_extend_argument`
    let rb := extendArgs cfg.extArgPy N ra.1 ra.2
    let r := rb.1.alloc (.dir { name := n, args := rb.2, locs := locs, desc := none })
    let rs := buildNewDirs cfg N r.1 rest
    (rs.1, (n, r.2) :: rs.2)

/-- `extend_schema` (without `validate()`) -/
def extend (cfg : Cfg) (ext : Ext) (s : Schema) (h : Heap) : Heap × Schema :=
  let srcNames := (s.types.filter fun e => !isProtected e.1).map (·.1)
  let newNames := ext.newTypes.map (·.1)
  let p := allocPlaceholders h (srcNames ++ newNames)
  let N := (s.types.filter fun e => isProtected e.1) ++ p.2
  -- `_build_input_field(ext_field)` resolves names through `_cache` (= the types of the schema being extended)
  let Nin := if cfg.extInputFieldExtended then N else s.types ++ N
  let h1 := extendAll cfg ext N Nin p.2 h p.1 s.types
  let h2 := buildNewTypes N p.2 h1 ext.newTypes
  let d1 := extendDirs cfg N h2 s.dirs
  let d2 := buildNewDirs cfg N d1.1 ext.newDirs
  let h3 := d2.1
  let dirs := d1.2 ++ d2.2
  let targets := ext.fields.map (·.1) ++ ext.inputFields.map (·.1) ++ ext.members.map (·.1) ++ ext.values.map (·.1)
  let q := reRoot N s.query
  let m := reRoot N s.mutation
  let su := reRoot N s.subscription
  let types : List (String × Addr) :=
    if cfg.extKeepAll then N
    else
      let starts := (s.types.filter fun e => targets.contains e.1 && !isProtected e.1).filterMap (fun e => lookup N e.1)
        ++ newNames.filterMap (lookup N)
        ++ ([q, m, su].filterMap fun r => r.map (·.addr))
        ++ (dirs.map (·.2))
      let reached := (buildTypeMap h3 (reachFuel h3 starts) starts).filter fun e => !isProtected e.1
      (s.types.filter fun e => isProtected e.1) ++ reached
  (h3, { types := types, dirs := dirs, query := q, mutation := m, subscription := su,
         dres := if cfg.extSchemaDres then s.dres else none })


/-- the ORDER of the `types` dict of `extend_schema`'s result. `extend_schema` ends in
    `Schema(types=[extend_type(t) for t in schema.types.values()] + [the types the document defines], query_type=…, …)`, and
    `Schema.__init__` registers, after the specified scalars, the types in the order a DEPTH-FIRST walk from that list (then
    the root operation types) first meets them (`_register_types`: a type, then its union members / interfaces, then field by
    field the field's type and its argument types). `T = r.types` is the registry `extend` computed (same entries). -/
def extendOrder (s : Schema) (newNames : List String) (h : Heap) (r : Schema) : List (String × Addr) :=
  let starts := (s.types.filterMap fun e => lookup r.types e.1) ++ newNames.filterMap (lookup r.types) ++ rootAddrs r
  let walked := (buildTypeMap h (reachFuel h starts) starts).filter fun e => !isProtected e.1
  let ordered := walked.filterMap fun e => (lookup r.types e.1).map fun a => (e.1, a)
  ((r.types.filter fun e => isProtected e.1) ++ ordered ++ r.types).foldl
    (fun reg e => if (lookup reg e.1).isSome then reg else reg ++ [e]) []

/-- the `interfaces` of the object types the document DEFINES (`_build_object_type`: `interfaces=[self.build_type(i) …]`, then
    `_extend_object_type` re-points them): resolved BY NAME through the registry of the result, like every other reference
    (`healedRefs`: the object registered under the name). Only names of `newNames` are written: objects the call allocated. -/
def setNewIfaces (reg : List (String × Addr)) (newNames : List String) : Heap → List (String × List String) → Heap
  | h, [] => h
  | h, (n, ms) :: rest =>
    if newNames.contains n then
      match lookup reg n with
      | some na =>
        match h.readType na with
        | some t => setNewIfaces reg newNames (h.write na (.type { t with ifaces := healedRefs reg (ms.map fun m => ⟨m, 0⟩) })) rest
        | none => setNewIfaces reg newNames h rest
      | none => setNewIfaces reg newNames h rest
    else setNewIfaces reg newNames h rest

/-- `extend_schema` as the code performs it: `extend`, the interfaces of the object types the document defines, and the `types`
    dict in the order of `Schema.__init__` (same entries, same directives and roots) -/
def extendO (cfg : Cfg) (ext : Ext) (s : Schema) (h : Heap) : Heap × Schema :=
  let r := extend cfg ext s h
  let h' := setNewIfaces r.2.types (ext.newTypes.map (·.1)) r.1 ext.newIfaces
  (h', { r.2 with types := extendOrder s (ext.newTypes.map (·.1)) h' r.2 })

end PyGql.Heap

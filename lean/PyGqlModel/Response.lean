/-
  C10 — MODEL of the response side of py-gql (import-free, executable):

  * `_string_utils.index_to_loc`                              → `indexToLoc` (+ loop)
  * `_string_utils.stringify_path`                            → `stringifyPath`
  * `exc.*.to_dict` (GraphQLSyntaxError, GraphQLLocatedError,
     ResolverError, ExecutionError)                           → `Err.toDict`
  * `execution/wrappers.GraphQLResult.response`               → `Result.response`
  * `_graphql.process_graphql_query` with its `_abort` paths  → `processQuery` (over abstract stage outcomes)
  * `execution/executor` error capture (`resolve_field`'s `fail`, `complete_value`,
    `complete_list_value`, `_handle_non_nullable_value`, `execute_fields`)
                                                              → `completeInner` / `completeList` / `executeFields`

  Key names and the `data=None` arguments of the `_abort` calls come from
  `Generated/ResponseKeys.lean`, rewritten from the source on every run.

  JSON values are `PyGql.J`; a float is the object `{"$float": "<repr>"|"nan"|"inf"|"-inf"}`.
-/
import PyGqlModel.Json
import PyGqlModel.Ty
import PyGqlModel.Token
import PyGqlModel.Generated.ResponseKeys

namespace PyGql.Response
open PyGql PyGql.Generated.ResponseKeys

/-! ### `index_to_loc` -/

/-- the `for offset, char in enumerate(body)` loop; the second argument counts down
    `position - offset`, `lines`/`cols` are the loop variables. Falling out of the loop
    (`position == len(body)`) returns `(lines + 1, cols + 1)` as well. -/
def indexToLocLoop : Text → Nat → Nat → Nat → Nat × Nat
  | [], _, lines, cols => (lines + 1, cols + 1)
  | _ :: _, 0, lines, cols => (lines + 1, cols + 1)
  | c :: rest, p + 1, lines, cols =>
    if c = 10 then indexToLocLoop rest p (lines + 1) 0
    else if c = 13 then
      -- a lone CR ends the line, the CR of a CRLF pair has no width
      if rest.head? = some 10 then indexToLocLoop rest p lines cols
      else indexToLocLoop rest p (lines + 1) 0
    else indexToLocLoop rest p lines (cols + 1)

/-- `index_to_loc(body, position)`; `none` = `IndexError` (a negative position cannot be
    written: positions are offsets of the lexer / of node spans). -/
def indexToLoc (body : Text) (position : Nat) : Option (Nat × Nat) :=
  if body.isEmpty && position == 0 then some (1, 1)
  else if position > body.length then none
  else some (indexToLocLoop body position 0 0)

/-! ### response paths -/

inductive Seg where
  | key (s : String)
  | idx (i : Nat)
  deriving DecidableEq, Repr, Inhabited

abbrev Path := List Seg

def Seg.toJ : Seg → J
  | .key s => .str s
  | .idx i => J.ofNat i

/-- `stringify_path` -/
def stringifyPath (p : Path) : String :=
  let s := p.foldl (fun acc e => match e with
    | .idx i => acc ++ "[" ++ toString i ++ "]"
    | .key k => acc ++ "." ++ k) ""
  String.ofList (s.toList.dropWhile (· == '.'))

/-! ### error objects and `to_dict` -/

/-- the response-error classes, reduced to what `to_dict` reads.
    `nodes`: `node.loc[0]` of every node that has `loc` and `source` (`none` otherwise). -/
inductive Err where
  /-- `GraphQLSyntaxError`: `msg` is `str(self)` (message + highlighted location, opaque here) -/
  | syntax (msg : String) (position : Nat)
  /-- `GraphQLLocatedError` (ValidationError, VariableCoercionError, CoercionError, …) -/
  | located (msg : String) (nodes : List (Option Nat)) (path : Option Path)
  /-- `ResolverError` and subclasses -/
  | resolver (msg : String) (nodes : List (Option Nat)) (path : Option Path) (ext : Option (List (String × J)))
  /-- `ExecutionError` (InvalidOperationError) -/
  | execution (msg : String)
  deriving Inhabited

def locJ (lineKey colKey : String) (lc : Nat × Nat) : J :=
  .obj [(lineKey, J.ofNat lc.1), (colKey, J.ofNat lc.2)]

/-- `GraphQLLocatedError.to_dict`: the `kv` triple filtered by truthiness
    (`message` kept unconditionally iff the source says so). -/
def locatedDict (text : Text) (msg : String) (nodes : List (Option Nat)) (path : Option Path) :
    Option (List (String × J)) :=
  match (nodes.filterMap id).mapM (indexToLoc text) with
  | none => none                                   -- IndexError out of index_to_loc
  | some locs =>
    let pathTruthy := match path with | some (_ :: _) => true | _ => false
    some ((if msg != "" || locatedKeepsEmptyMessage then [("message", J.str msg)] else [])
      ++ (if locs.isEmpty then [] else [("locations", J.arr (locs.map (locJ locatedLineKey locatedColKey)))])
      ++ (if pathTruthy then [("path", J.arr ((path.getD []).map Seg.toJ))] else []))

def Err.toDict (text : Text) : Err → Option J
  | .syntax msg position =>
    match indexToLoc text position with
    | none => none
    | some lc => some (.obj [("message", .str msg), ("locations", .arr [locJ syntaxLineKey syntaxColKey lc])])
  | .located msg nodes path => (locatedDict text msg nodes path).map J.obj
  | .resolver msg nodes path ext =>
    (locatedDict text msg nodes path).map fun kvs =>
      match ext with
      | some (e :: es) => J.obj (kvs ++ [(resolverExtKey, J.obj (e :: es))])   -- `if self.extensions:`
      | _ => J.obj kvs
  | .execution msg => some (.obj [("message", .str msg)])

/-! ### `GraphQLResult` -/

structure Result where
  /-- `none` = `_UNSET` -/
  data : Option J
  errors : List Err
  /-- `GraphQLExtension`s added with `add_extension`: (name, payload) -/
  extensions : List (String × J) := []
  deriving Inhabited

/-- `GraphQLResult.response()`; `none` = an exception out of some `to_dict` -/
def Result.response (text : Text) (r : Result) : Option J :=
  match r.errors.mapM (Err.toDict text) with
  | none => none
  | some errs =>
    some (.obj ((if errs.isEmpty then [] else [("errors", J.arr errs)])
      ++ (match r.data with | some d => [("data", d)] | none => [])
      ++ (if r.extensions.isEmpty then [] else [("extensions", J.obj r.extensions)])))

/-! ### `process_graphql_query` over abstract stage outcomes -/

structure Stages where
  /-- `some (str(err), err.position)` when `parse` raised `GraphQLSyntaxError` -/
  parse : Option (String × Nat)
  /-- `validate_ast(...).errors` -/
  validate : List Err
  /-- message of the `InvalidOperationError` of `get_operation_with_type` (or of `execute`) -/
  getOp : Option String
  /-- `VariablesCoercionError.errors` -/
  coerce : List Err
  /-- `GraphQLResult(data=data, errors=executor.errors)` of `execute` -/
  exec : J × List Err
  deriving Inhabited

/-- `_abort(...)`: `GraphQLResult(*args, **kwargs)`; `data=None` iff the call site passes it -/
def abort (passesData : Bool) (errors : List Err) : Result :=
  { data := if passesData then some .null else none, errors := errors }

def processQuery (s : Stages) : Result :=
  match s.parse with
  | some (m, p) => abort abortSyntaxPassesData [.syntax m p]
  | none =>
    if !s.validate.isEmpty then abort abortValidationPassesData s.validate
    else match s.getOp with
      | some m => abort abortExecutionPassesData [.execution m]
      | none =>
        if !s.coerce.isEmpty then abort abortCoercionPassesData s.coerce
        else { data := some s.exec.1, errors := s.exec.2 }

/-- which stage failed (for the statement about `data`) -/
def Stages.documentRejected (s : Stages) : Bool := s.parse.isSome || !s.validate.isEmpty

/-! ### the executor's error capture -/

mutual
/-- what the resolvers / serialisers produced below one field (typed by the schema) -/
inductive Out where
  /-- resolver (or a serialiser) returned `None` -/
  | null
  /-- serialised leaf value (scalar / enum) -/
  | leaf (v : J)
  | list (items : OutList)
  /-- object value: the executed sub-fields in execution order -/
  | obj (fields : FldList)
  /-- the field's resolver raised `ResolverError(msg, extensions=ext)`, or its ARGUMENTS failed to coerce at
      execution time (`CoercionError`, `ext = none`): both go through `fail` of `resolve_field`
      (only directly below a field). Error objects are VALUES here: aliasing of one exception object
      between registrations (finding X6, the seeded cache-of-failures change) is visible only to the
      correspondence and the direct oracle. -/
  | raised (msg : String) (ext : Option (List (String × J)))
inductive OutList where
  | nil
  | cons (o : Out) (rest : OutList)
/-- response key, field type, `loc[0]` of the field nodes grouped under the key, outcome -/
inductive FldList where
  | nil
  | cons (key : String) (ty : Ty) (nodes : List Nat) (o : Out) (rest : FldList)
end

instance : Inhabited Out := ⟨.null⟩
instance : Inhabited OutList := ⟨.nil⟩
instance : Inhabited FldList := ⟨.nil⟩

/-- the type below one non-null wrapper -/
def innerTy : Ty → Ty
  | .nonNull t => t
  | t => t

def nonNullMessage (path : Path) : String := "Field \"" ++ stringifyPath path ++ "\" is not nullable"

/-- `_handle_non_nullable_value` applied to the completed inner value (when the type is non-null) -/
def nonNullWrap (isNN : Bool) (nodes : List Nat) (path : Path) (r : Option (J × List Err)) : Option (J × List Err) :=
  match r with
  | none => none
  | some (v, es) =>
    if isNN && v.isNull then
      some (v, es ++ [.resolver (nonNullMessage path) (nodes.map some) (some path) none])
    else some (v, es)

def Out.isRaised : Out → Bool
  | .raised _ _ => true
  | _ => false

mutual
/-- `complete_value` below the non-null wrapper; with `atField = true` preceded by the resolver call
    of `resolve_field`: a raised `ResolverError` is recorded (`fail`) with the field's first node and
    path and the field is `None` — no completion, hence no second error.
    `none` = `RuntimeError` / not a value of the type (programming error, propagates by design). -/
def completeInner (atField : Bool) (t : Ty) (nodes : List Nat) (path : Path) : Out → Option (J × List Err)
  | .null => some (.null, [])
  | .raised msg ext =>
    if atField then some (J.null, [Err.resolver msg [nodes.head?] (some path) ext]) else none
  | .leaf v => match t with
    | .named _ => some (v, [])
    | _ => none
  | .list items => match t with
    | .list it => (completeList it nodes path 0 items).map fun (vs, es) => (J.arr vs, es)
    | _ => none
  | .obj fields => match t with
    | .named _ => (executeFields path fields).map fun (kvs, es) => (J.obj kvs, es)
    | _ => none
/-- `complete_list_value`: items in order, path `path + [index]` -/
def completeList (it : Ty) (nodes : List Nat) (path : Path) (i : Nat) : OutList → Option (List J × List Err)
  | .nil => some ([], [])
  | .cons o rest =>
    match nonNullWrap it.isNonNull nodes (path ++ [.idx i]) (completeInner false (innerTy it) nodes (path ++ [.idx i]) o) with
    | none => none
    | some (v, e1) =>
      match completeList it nodes path (i + 1) rest with
      | none => none
      | some (vs, e2) => some (v :: vs, e1 ++ e2)
/-- `execute_fields` + `resolve_field`, fields in execution order, path `path + [key]` -/
def executeFields (path : Path) : FldList → Option (List (String × J) × List Err)
  | .nil => some ([], [])
  | .cons key ty nodes o rest =>
    match nonNullWrap (ty.isNonNull && !o.isRaised) nodes (path ++ [.key key])
        (completeInner true (innerTy ty) nodes (path ++ [.key key]) o) with
    | none => none
    | some (v, e1) =>
      match executeFields path rest with
      | none => none
      | some (kvs, e2) => some ((key, v) :: kvs, e1 ++ e2)
end

/-- `complete_value(field_type, nodes, path, info, resolved_value)` -/
def completeValue (ty : Ty) (nodes : List Nat) (path : Path) (o : Out) : Option (J × List Err) :=
  nonNullWrap ty.isNonNull nodes path (completeInner false (innerTy ty) nodes path o)

/-- `execute(...)`'s `GraphQLResult(data=…, errors=executor.errors)` for the root selection -/
def execute (root : FldList) : Option (J × List Err) :=
  (executeFields [] root).map fun (kvs, es) => (J.obj kvs, es)

/-- `execute(...)` as a whole: the ROOT selection set is collected first. When that fails (an invalid
    `@skip` / `@include` condition at run time: `collect_fields` raises, re-raised as `ResolverError` with the
    directive's nodes) the answer is `GraphQLResult(data=None, errors=[err])`: `data` is null, ONE error, and the
    error has NO path (it is never passed through `add_error`). -/
def executeRequest (rootCollect : Option (String × List (Option Nat))) (root : FldList) : Option (J × List Err) :=
  match rootCollect with
  | some (msg, nodes) => some (J.null, [Err.resolver msg nodes none none])
  | none => execute root

def Err.path? : Err → Option Path
  | .located _ _ p => p
  | .resolver _ _ p _ => p
  | _ => none

/-- value reached in `data` by following a path (`none` = not reachable) -/
def dataAt : J → Path → Option J
  | v, [] => some v
  | .obj kvs, .key k :: rest => match kvs.find? (·.1 == k) with
    | some (_, v) => dataAt v rest
    | none => none
  | .arr vs, .idx i :: rest => match vs[i]? with
    | some v => dataAt v rest
    | none => none
  | _, _ => none

end PyGql.Response

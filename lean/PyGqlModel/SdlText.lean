/-
  C12 at TEXT level — the connection between the schema printer's text (`SdlPrint.printSchema`, strings) and the
  language front end (`Lex.lexAll`, `Parse.parseDocument`, code points):
    * `docToAst`  — the tree (`Ast.Document`, no positions) that an SDL document of the C11/C12 model (`Sdl.Doc`) denotes;
      descriptions are block strings (the schema printer always writes `"""…"""`);
    * `parseSdlText` — `parse(text, allow_type_system=True, no_location=True)` on a `String`;
    * `printedDoc` — the document `to_string` denotes IN PRINTING ORDER (schema block, directive definitions sorted by
      name, type definitions sorted by name): `schemaToDoc` of the schema with its lists sorted as the printer sorts them.
-/
import PyGqlModel.SdlPrintT
import PyGqlModel.ParseText
import PyGqlModel.Spec.Grammar
import PyGqlModel.Spec.Lexical
import PyGqlModel.Spec.BlockStringSpec
namespace PyGql.SdlText
open PyGql PyGql.Ast PyGql.Sdl PyGql.SdlPrint

abbrev T (s : String) : Text := SdlPrintT.T s
def nameOf (s : String) : Name := ⟨T s, none⟩
def namedOf (s : String) : NamedType := ⟨nameOf s, none⟩

def typeOf : Ty → TypeRef
  | .named n => .named (namedOf n)
  | .list t => .list (typeOf t) none
  | .nonNull t => .nonNull (typeOf t) none

mutual
/-- a constant literal; the `f` component (Python's `repr(float(text))`, used by `build` only) is not part of the tree -/
def valueOf : Lit → Value
  | .null => .null none
  | .int v _ => .int (T v) none
  | .float v _ => .float (T v) none
  | .str s => .string ⟨T s, false, none⟩
  | .bool b => .boolean b none
  | .enum s => .enum (T s) none
  | .list l => .list (valuesOf l) none
  | .obj fs => .object (fieldsOf fs) none
def valuesOf : List Lit → List Value
  | [] => []
  | v :: vs => valueOf v :: valuesOf vs
def fieldsOf : List (String × Lit) → List ObjectField
  | [] => []
  | (k, v) :: fs => .mk (nameOf k) (valueOf v) none :: fieldsOf fs
end

def argOf (a : String × Lit) : Argument := ⟨nameOf a.1, valueOf a.2, none⟩
def dirOf (d : DirApp) : Directive := ⟨nameOf d.name, d.args.map argOf, none⟩
/-- a description, as the schema printer writes it: a block string -/
def descOf (d : Option String) : Option StringValue := d.map fun x => ⟨T x, true, none⟩

def inputValOf (a : InputValDef) : InputValueDefinition :=
  ⟨descOf a.desc, nameOf a.name, typeOf a.type, a.default.map valueOf, a.dirs.map dirOf, none⟩
def fieldOf (f : FieldDef) : FieldDefinition :=
  ⟨descOf f.desc, nameOf f.name, f.args.map inputValOf, typeOf f.type, f.dirs.map dirOf, none⟩
def enumValOf (v : EnumValDef) : EnumValueDefinition := ⟨descOf v.desc, nameOf v.name, v.dirs.map dirOf, none⟩
def opTypeOf (o : String × String) : OperationTypeDefinition := ⟨T o.1, namedOf o.2, none⟩

def typeDefOf (t : TypeDef) : Definition :=
  match t.kind with
  | .scalar => .scalarTypeDefinition (descOf t.desc) (nameOf t.name) (t.dirs.map dirOf) none
  | .object => .objectTypeDefinition (descOf t.desc) (nameOf t.name) (t.interfaces.map namedOf) (t.dirs.map dirOf) (t.fields.map fieldOf) none
  | .interface => .interfaceTypeDefinition (descOf t.desc) (nameOf t.name) (t.dirs.map dirOf) (t.fields.map fieldOf) none
  | .union => .unionTypeDefinition (descOf t.desc) (nameOf t.name) (t.dirs.map dirOf) (t.members.map namedOf) none
  | .enum => .enumTypeDefinition (descOf t.desc) (nameOf t.name) (t.dirs.map dirOf) (t.values.map enumValOf) none
  | .input => .inputObjectTypeDefinition (descOf t.desc) (nameOf t.name) (t.dirs.map dirOf) (t.inputFields.map inputValOf) none

def typeExtOf (t : TypeDef) : Definition :=
  match t.kind with
  | .scalar => .scalarTypeExtension (nameOf t.name) (t.dirs.map dirOf) none
  | .object => .objectTypeExtension (nameOf t.name) (t.interfaces.map namedOf) (t.dirs.map dirOf) (t.fields.map fieldOf) none
  | .interface => .interfaceTypeExtension (nameOf t.name) (t.dirs.map dirOf) (t.fields.map fieldOf) none
  | .union => .unionTypeExtension (nameOf t.name) (t.dirs.map dirOf) (t.members.map namedOf) none
  | .enum => .enumTypeExtension (nameOf t.name) (t.dirs.map dirOf) (t.values.map enumValOf) none
  | .input => .inputObjectTypeExtension (nameOf t.name) (t.dirs.map dirOf) (t.inputFields.map inputValOf) none

def defOf : Def → Option Definition
  | .type t => some (typeDefOf t)
  | .ext t => some (typeExtOf t)
  | .directive d => some (.directiveDefinition (descOf d.desc) (nameOf d.name) (d.args.map inputValOf) (d.locations.map nameOf) none)
  | .schema s => some (.schemaDefinition (s.dirs.map dirOf) (s.ops.map opTypeOf) none)
  | .schemaExt s => some (.schemaExtension (s.dirs.map dirOf) (s.ops.map opTypeOf) none)
  | .other => none

/-- the location-free tree an SDL document denotes (`none`: the document contains an executable definition) -/
def docToAst (doc : Doc) : Option Document := (doc.mapM defOf).map fun ds => ⟨ds, none⟩

/-- `parse(text, allow_type_system=True, no_location=True)` -/
def parseSdlText (text : String) : Option Document :=
  Parse.parseText { noLocation := true, allowTypeSystem := true } (T text)

/-- the schema with its lists in the order the printer writes them -/
def printOrder (s : SchemaD) : SchemaD :=
  { s with directives := sortBy (·.name) s.directives, types := sortBy (·.name) s.types }

/-- the document `to_string` denotes, in the order the printer writes it -/
def printedDoc (s : SchemaD) : Doc := schemaToDoc (printOrder s)


/-- the same for the text of the total model -/
def parseSdlTextT (text : Text) : Option Document :=
  Parse.parseText { noLocation := true, allowTypeSystem := true } text

/-! ### `printTextWF`: the LEXICAL well-formedness a schema needs so that its printed text denotes it -/

open PyGql.SdlPrintT in
/-- a name is a `Name` lexeme -/
def nameOK (n : String) : Bool := Spec.Lexical.isName (T n)

def tyOK : Ty → Bool
  | .named n => nameOK n
  | .list t => tyOK t
  | .nonNull t => tyOK t && !t.isNonNull

mutual
/-- a printed literal consists of lexemes of its class -/
def litOK : Lit → Bool
  | .null => true
  | .int v _ => Spec.Lexical.isIntValue (T v)
  | .float v _ => Spec.Lexical.isFloatValue (T v)
  | .str _ => true
  | .bool _ => true
  | .enum v => nameOK v && Spec.notBoolNull (T v)
  | .list l => litsOK l
  | .obj fs => fieldsOK fs
def litsOK : List Lit → Bool
  | [] => true
  | v :: vs => litOK v && litsOK vs
def fieldsOK : List (String × Lit) → Bool
  | [] => true
  | (k, v) :: fs => nameOK k && litOK v && fieldsOK fs
end

/-- indentation of a line / blank line, by GraphQL white space (space, tab) -/
def lineIndent (l : Text) : Nat := (l.takeWhile Spec.isWhiteSpace).length
def lineBlank (l : Text) : Bool := l.all Spec.isWhiteSpace
/-- smallest indentation over the non-blank lines is 0 (`none`: no non-blank line) -/
def minIndentZero (ls : List Text) : Bool := (ls.filter (fun l => !lineBlank l)).any (fun l => lineIndent l == 0)

/-- a description survives `print_description` at the given indentation: block-string characters without CR, no line
    longer than the wrap width, first and last line not blank, and — by layout — no trailing backslash in the one-line
    form `"""x"""` (finding H5), smallest indentation 0 over the lines that the layout indents -/
def descTextOK (indentLen : Nat) (d : String) : Bool :=
  let t := T d
  let lines := SdlPrintT.splitLF t
  let first := lines.headD []
  let oneLine := lines.length == 1 && first.length < 70 && !(first.getLast? == some 34)
  let lead := first.length > (SdlPrintT.lstrip first).length
  !d.isEmpty && !t.isEmpty && t.all (fun c => (32 ≤ c || c == 9 || c == 10)) &&
  lines.all (fun l => l.length ≤ 120 - indentLen) &&
  !lineBlank first && !lineBlank (lines.getLastD []) &&
  (if oneLine then !(first.getLast? == some 92)
   else if lead then (lines.length == 1 || minIndentZero (lines.drop 1))
   else minIndentZero lines)

/-! #### over-long lines (finding H12): the same conditions asked of the WRAPPED lines (`Props/C12_wrap.lean`) -/

/-- the lines `print_description` lays out at the given indentation (`wrapped_lines(desc.split("\n"), 120 - len(indent))`) -/
def wrappedOf (indentLen : Nat) (d : String) : List Text := SdlPrintT.wrappedLines (SdlPrintT.splitLF (T d)) (120 - indentLen)

/-- `descTextOK` WITHOUT the width clause: the shape conditions are asked of the WRAPPED lines -/
def descWrapOK (indentLen : Nat) (d : String) : Bool :=
  let t := T d
  let lines := wrappedOf indentLen d
  let first := lines.headD []
  let oneLine := lines.length == 1 && first.length < 70 && !(first.getLast? == some 34)
  let lead := first.length > (SdlPrintT.lstrip first).length
  !d.isEmpty && !t.isEmpty && t.all (fun c => (32 ≤ c || c == 9 || c == 10)) &&
  !lineBlank first && !lineBlank (lines.getLastD []) &&
  (if oneLine then !(first.getLast? == some 92)
   else if lead then (lines.length == 1 || minIndentZero (lines.drop 1))
   else minIndentZero lines)

def descOKT (indentLen : Nat) (d : Option String) : Bool :=
  match d with | some x => x.isEmpty || descTextOK indentLen x | none => true

def argOKT (s : SchemaD) (indentLen : Nat) (a : ArgD) : Bool :=
  nameOK a.name && tyOK a.type && descOKT indentLen a.desc &&
  (if a.hasDefault then (match SdlPrint.valueLit s SdlPrint.valueFuel a.default a.type with | some l => litOK l | none => false) else true)

def fieldOKT (s : SchemaD) (w : Nat) (f : FieldD) : Bool :=
  nameOK f.name && tyOK f.type && descOKT w f.desc && f.args.all (argOKT s (2 * w))

def enumValOKT (w : Nat) (v : EnumValD) : Bool :=
  nameOK v.name && Spec.notBoolNull (T v.name) && descOKT w v.desc

def typeOKT (s : SchemaD) (w : Nat) (t : TypeD) : Bool :=
  nameOK t.name && descOKT 0 t.desc &&
  (match t.kind with
   | .scalar => true
   | .object => !t.fields.isEmpty && t.fields.all (fieldOKT s w) && t.interfaces.all nameOK
   | .interface => !t.fields.isEmpty && t.fields.all (fieldOKT s w)
   | .union => !t.members.isEmpty && t.members.all nameOK
   | .enum => !t.values.isEmpty && t.values.all (enumValOKT w)
   | .input => !t.inputFields.isEmpty && t.inputFields.all (argOKT s w))

def directiveOKT (s : SchemaD) (w : Nat) (d : DirectiveD) : Bool :=
  nameOK d.name && descOKT 0 d.desc && d.args.all (argOKT s w) && !d.locations.isEmpty &&
  d.locations.all (fun l => nameOK l && Generated.ParserTables.directiveLocations.contains (T l))

def rootOKT (r : Option String) : Bool := match r with | some n => nameOK n | none => true

/-- the names of the types are pairwise distinct and so are the names of the directives (`schema.types` and
    `schema.directives` are dictionaries) -/
def namesUnique (s : SchemaD) : Bool :=
  decide (s.types.map (·.name)).Nodup && decide (s.directives.map (·.name)).Nodup

/-- **printTextWF** — the lexical conditions under which the printed text denotes the schema: the indent is made of
    spaces / tabs and descriptions are printed; every name is a `Name` lexeme (enum values not `true`/`false`/`null`,
    directive locations from the table); type expressions have no `!!`; printed default values exist and consist of
    number / name lexemes; object, interface, enum, input and union types have at least one member; every description
    survives the printer's layout at its depth (`descTextOK`); the text is not empty and a printed `schema` block names at
    least one root; type names and directive names are pairwise distinct (`namesUnique`: used only for the independence
    of the order of the lists). -/
def printTextWF (o : SdlPrintT.OptsT) (s : SchemaD) : Bool :=
  o.descriptions && o.indent.all (fun c => c == 32 || c == 9) &&
  s.types.all (typeOKT s o.indent.length) && s.directives.all (directiveOKT s o.indent.length) &&
  rootOKT s.query && rootOKT s.mutation && rootOKT s.subscription &&
  (!s.types.isEmpty || !s.directives.isEmpty || SdlPrint.needsSchemaBlock s) &&
  (!SdlPrint.needsSchemaBlock s || !(SdlPrint.rootOps s).isEmpty) && namesUnique s

end PyGql.SdlText

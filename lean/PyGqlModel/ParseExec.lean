/-
  Token-level model of `py_gql/lang/parser.py` — part 2: executable definitions
  (variable definitions, selection sets, fields, fragments, operations, fragment definitions).
-/
import PyGqlModel.Parse
namespace PyGql.Parse
open PyGql PyGql.Ast

/-- `parse_variable_definition` -/
def parseVariableDefinition (fl : Flags) (fuel : Nat) : P VariableDefinition := do
  let start ← peek
  let var_ ← parseVariable fl
  let _ ← expect .colon
  let type_ ← parseTypeReference fl fuel
  let defaultValue ←
    (do if (← skip .equals) then do
          let v ← parseValueLiteral fl fuel true
          pure (some v)
        else pure none : P (Option Value))
  let directives ← parseDirectives fl fuel true
  pure { var := var_, type := type_, defaultValue := defaultValue, directives := directives,
         loc := ← mkLoc fl start }

/-- `parse_variable_definitions` -/
def parseVariableDefinitions (fl : Flags) (fuel : Nat) : P (List VariableDefinition) := do
  if (← peek).kind = .parenL then many fuel .parenL (parseVariableDefinition fl fuel) .parenR
  else pure []

/-- `parse_fragment_name` -/
def parseFragmentName (fl : Flags) : P Name := do
  let token ← peek
  if token.value = K.on then fail "Unexpected on"
  else parseName fl

/-- `parse_selection_set`, the recursive call abstracted as `psel` -/
def parseSelectionSetWith (fl : Flags) (fuel : Nat) (psel : P Selection) : P SelectionSet := do
  let start ← peek
  let selections ← many fuel .curlyL psel .curlyR
  pure (.mk selections (← mkLoc fl start))

/-- `parse_field`, the recursive call abstracted as `pss` -/
def parseFieldWith (fl : Flags) (fuel : Nat) (pss : P SelectionSet) : P Selection := do
  let start ← peek
  let nameOrAlias ← parseName fl
  let (alias_, name) ←
    (do if (← skip .colon) then do
          let name ← parseName fl
          pure (some nameOrAlias, name)
        else pure (none, nameOrAlias) : P (Option Name × Name))
  let arguments ← parseArguments fl fuel false
  let directives ← parseDirectives fl fuel false
  let selectionSet ←
    (do if (← peek).kind = .curlyL then do
          let ss ← pss
          pure (some ss)
        else pure none : P (Option SelectionSet))
  pure (.field alias_ name arguments directives selectionSet (← mkLoc fl start))

/-- `parse_fragment` (fragment spread or inline fragment); L5 fixed: `on` must be a `Name` token -/
def parseFragmentWith (fl : Flags) (fuel : Nat) (pss : P SelectionSet) : P Selection := do
  let start ← peek
  let _ ← expect .ellip
  let lead ← peek
  let hasTypeCondition : Bool := lead.kind = .name ∧ lead.value = K.on
  if lead.kind = .name ∧ ¬ hasTypeCondition then do
    let name ← parseFragmentName fl
    let directives ← parseDirectives fl fuel false
    pure (.fragmentSpread name directives (← mkLoc fl start))
  else do
    let typeCondition ←
      (do if hasTypeCondition then do
            let _ ← advance
            let t ← parseNamedType fl
            pure (some t)
          else pure none : P (Option NamedType))
    let directives ← parseDirectives fl fuel false
    let selectionSet ← pss
    pure (.inlineFragment typeCondition directives selectionSet (← mkLoc fl start))

/-- `parse_selection` (recursion through `parse_selection_set` on the first fuel) -/
def parseSelection (fl : Flags) (fuel : Nat) : Nat → P Selection
  | 0 => fail "fuel"
  | n + 1 => do
    let pss := parseSelectionSetWith fl fuel (parseSelection fl fuel n)
    if (← peek).kind = .ellip then parseFragmentWith fl fuel pss
    else parseFieldWith fl fuel pss

/-- `parse_selection_set` -/
def parseSelectionSet (fl : Flags) (fuel : Nat) : P SelectionSet :=
  parseSelectionSetWith fl fuel (parseSelection fl fuel fuel)

/-- `parse_operation_type` -/
def parseOperationType : P Text := do
  let token ← expect .name
  if token.value ∈ Generated.ParserTables.operationTypeTuple then pure token.value
  else failAt token "Unexpected operation type"

/-- `parse_operation_definition`; P4 fixed (`source`) is not visible in the model -/
def parseOperationDefinition (fl : Flags) (fuel : Nat) : P OperationDefinition := do
  let start ← peek
  if start.kind = .curlyL then do
    let selectionSet ← parseSelectionSet fl fuel
    pure { operation := K.query, name := none, variableDefinitions := [], directives := [],
           selectionSet := selectionSet, loc := ← mkLoc fl start }
  else do
    let operation ← parseOperationType
    let name ←
      (do if (← peek).kind = .name then do
            let n ← parseName fl
            pure (some n)
          else pure none : P (Option Name))
    let variableDefinitions ← parseVariableDefinitions fl fuel
    let directives ← parseDirectives fl fuel false
    let selectionSet ← parseSelectionSet fl fuel
    pure { operation := operation, name := name, variableDefinitions := variableDefinitions,
           directives := directives, selectionSet := selectionSet, loc := ← mkLoc fl start }

/-- `parse_fragment_definition` -/
def parseFragmentDefinition (fl : Flags) (fuel : Nat) : P FragmentDefinition := do
  let start ← peek
  let _ ← expectKeyword K.fragment
  let name ← parseFragmentName fl
  let variableDefinitions ←
    (if fl.experimentalFragmentVariables then parseVariableDefinitions fl fuel else pure [] : P _)
  let _ ← expectKeyword K.on
  let typeCondition ← parseNamedType fl
  let directives ← parseDirectives fl fuel false
  let selectionSet ← parseSelectionSet fl fuel
  pure { name := name, variableDefinitions := variableDefinitions, typeCondition := typeCondition,
         directives := directives, selectionSet := selectionSet, loc := ← mkLoc fl start }

/-- `parse_executable_definition` -/
def parseExecutableDefinition (fl : Flags) (fuel : Nat) : P Definition := do
  let start ← peek
  if start.kind = .name then
    if start.value ∈ Generated.ParserTables.operationTypesKeywords then do
      let d ← parseOperationDefinition fl fuel
      pure (.operation d)
    else if start.value = K.fragment then do
      let d ← parseFragmentDefinition fl fuel
      pure (.fragment d)
    else fail "Unexpected token"
  else if start.kind = .curlyL then do
    let d ← parseOperationDefinition fl fuel
    pure (.operation d)
  else fail "Unexpected token"

end PyGql.Parse

/-
  `py_gql.lang.parse(text)` as the composition of the two models: `lexAll` (Lex.lean, LANG-1) then the token-level
  parser (ParseDoc.lean, LANG-2).  The lexer's error type and the parser's differ; both are "syntax error".
-/
import PyGqlModel.Lex
import PyGqlModel.ParseDoc
namespace PyGql.Parse
open PyGql PyGql.Ast

/-- `parse(text, **flags)`: `none` = `GraphQLSyntaxError` (from the lexer or from the parser) -/
def parseText (fl : Flags) (s : Text) : Option Document :=
  match Lex.lexAll s with
  | .ok toks => (parseDocument fl toks).toOption
  | .error _ => none

/-- `parse_value(text)` -/
def parseValueText (fl : Flags) (s : Text) : Option Value :=
  match Lex.lexAll s with
  | .ok toks => (parseValue fl toks).toOption
  | .error _ => none

/-- `parse_type(text)` -/
def parseTypeText (fl : Flags) (s : Text) : Option TypeRef :=
  match Lex.lexAll s with
  | .ok toks => (parseType fl toks).toOption
  | .error _ => none

end PyGql.Parse

namespace PyGql.Parse
open PyGql PyGql.Ast

/-- a `GraphQLSyntaxError` of the composed pipeline: raised by the lexer or by the parser -/
inductive TextErr where
  | lex (e : Lex.SynErr)
  | parse (e : SynErr)
  deriving Repr

/-- `GraphQLSyntaxError.position` -/
def TextErr.pos : TextErr → Nat
  | .lex e => e.pos
  | .parse e => e.pos

/-- run the lexer, then a token-level entry point, keeping the error.
    (The real `Parser` pulls tokens lazily: for a text with BOTH a lexical error and an earlier grammatical error it
    reports the grammatical one, this composition the lexical one.  Either way the text is rejected; the position
    statements below hold for both.) -/
def withLexer {α} (p : List Tok → Except SynErr α) (s : Text) : Except TextErr α :=
  match Lex.lexAll s with
  | .ok toks =>
    match p toks with
    | .ok a => .ok a
    | .error e => .error (.parse e)
  | .error e => .error (.lex e)

/-- `parse(text, **flags)` with its error -/
def parseTextE (fl : Flags) (s : Text) : Except TextErr Document := withLexer (parseDocument fl) s
/-- `parse_value(text)` with its error -/
def parseValueTextE (fl : Flags) (s : Text) : Except TextErr Value := withLexer (parseValue fl) s
/-- `parse_type(text)` with its error -/
def parseTypeTextE (fl : Flags) (s : Text) : Except TextErr TypeRef := withLexer (parseType fl) s

end PyGql.Parse

/-
  `py_gql.lang.parse(text)` as the composition of the two models: `lexAll` (Lex.lean, LANG-1) then the token-level
  parser (ParseDoc.lean, LANG-2).  The lexer's error type and the parser's differ; both are "syntax error".
-/
import PyGqlModel.Lex
import PyGqlModel.ParseDoc
namespace PyGql.Parse
open PyGql PyGql.Ast

/-- `parse(text, **flags)`: `none` = `GraphQLSyntaxError` (from the lexer or from the parser) -/
def parseText (fl : Flags) (s : Text) : Option Document :=
  match Lex.lexAll s with
  | .ok toks => (parseDocument fl toks).toOption
  | .error _ => none

/-- `parse_value(text)` -/
def parseValueText (fl : Flags) (s : Text) : Option Value :=
  match Lex.lexAll s with
  | .ok toks => (parseValue fl toks).toOption
  | .error _ => none

/-- `parse_type(text)` -/
def parseTypeText (fl : Flags) (s : Text) : Option TypeRef :=
  match Lex.lexAll s with
  | .ok toks => (parseType fl toks).toOption
  | .error _ => none

end PyGql.Parse

/-
  C08 — `gather_futures.on_finish` AS SHIPPED since fix 6013951 (runtime/threadpool.py), callbacks of `n` pending futures
  running on any number of pool workers at the same time:

      def on_finish(d):
          nonlocal done
          with lock:                     -- COUNT: `done += 1; count = done` — every access to `done` is inside this region,
              done += 1                  --        so the region is one step w.r.t. the other workers (they wait at the lock)
              count = done               --        `start → counted count`
          try: d.result() ...            -- (successful `d`: nothing)
          if count == target_count:      -- TEST: reads the worker's OWN copy            `counted c → finished`
              outer.set_result([...])

  `RuntimeRace.lean` has the pre-fix machine (`step`: LOAD / STORE / TEST on the shared counter) and the machine of the
  patch as first proposed (`lstep`: the same micro-steps under a lock, TEST re-reading the shared counter). Which variant
  the tree has is re-extracted on every run (`Generated/GatherLock.lean`).
-/
namespace PyGql.AsyncExec.RaceShipped

inductive PC where
  | start
  | counted (c : Nat)
  | finished
  deriving DecidableEq, Repr

structure St where
  done : Nat
  target : Nat
  sets : Nat := 0            -- successful `outer.set_result` calls
  swallowed : Nat := 0       -- InvalidStateError inside a callback (outer already set)
  pcs : List PC
  deriving DecidableEq, Repr

def St.init (plain n : Nat) : St := { done := plain, target := plain + n, pcs := List.replicate n .start }

def St.allFinished (s : St) : Bool := s.pcs.all (· == .finished)

/-- one step of worker `i` -/
def step (s : St) (i : Nat) : St :=
  match s.pcs[i]? with
  | some .start => { s with done := s.done + 1, pcs := s.pcs.set i (.counted (s.done + 1)) }
  | some (.counted c) =>
    if c == s.target then
      if s.sets == 0 then { s with sets := 1, pcs := s.pcs.set i .finished }
      else { s with swallowed := s.swallowed + 1, pcs := s.pcs.set i .finished }
    else { s with pcs := s.pcs.set i .finished }
  | _ => s

def run (s : St) : List Nat → St
  | [] => s
  | i :: rest => run (step s i) rest

end PyGql.AsyncExec.RaceShipped

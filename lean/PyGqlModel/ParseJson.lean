/-
  JSON encoder of the AST into the shape of the real `Node.to_dict()`:
  `{"loc": [a, b] | null, <slots…>, "__kind__": "<ClassName>"}`; every Python `str` travels as an array of
  code points (Python canonicaliser: `corr/C01_parse.py: canon`).  Protocol glue, not part of the model.
-/
import PyGqlModel.Json
import PyGqlModel.Ast
namespace PyGql.Ast
open PyGql

def Loc.toJson : Loc → J
  | none => .null
  | some (a, b) => .arr [J.ofNat a, J.ofNat b]

private def node (kind : String) (loc : Loc) (fields : List (String × J)) : J :=
  .obj (("loc", Loc.toJson loc) :: fields ++ [("__kind__", .str kind)])

private def opt (f : α → J) : Option α → J
  | none => .null
  | some a => f a

private def lst (f : α → J) (l : List α) : J := .arr (l.map f)

def Name.toJson (n : Name) : J := node "Name" n.loc [("value", J.ofText n.value)]

def NamedType.toJson (t : NamedType) : J := node "NamedType" t.loc [("name", t.name.toJson)]

def TypeRef.toJson : TypeRef → J
  | .named t => t.toJson
  | .list t loc => node "ListType" loc [("type", t.toJson)]
  | .nonNull t loc => node "NonNullType" loc [("type", t.toJson)]

def Variable.toJson (v : Variable) : J := node "Variable" v.loc [("name", v.name.toJson)]

def StringValue.toJson (s : StringValue) : J :=
  node "StringValue" s.loc [("value", J.ofText s.value), ("block", .bool s.block)]

mutual
def Value.toJson : Value → J
  | .var v => v.toJson
  | .int v loc => node "IntValue" loc [("value", J.ofText v)]
  | .float v loc => node "FloatValue" loc [("value", J.ofText v)]
  | .string s => s.toJson
  | .boolean b loc => node "BooleanValue" loc [("value", .bool b)]
  | .null loc => node "NullValue" loc []
  | .enum v loc => node "EnumValue" loc [("value", J.ofText v)]
  | .list vs loc => node "ListValue" loc [("values", .arr (valuesToJson vs))]
  | .object fs loc => node "ObjectValue" loc [("fields", .arr (fieldsToJson fs))]
def valuesToJson : List Value → List J
  | [] => []
  | v :: vs => v.toJson :: valuesToJson vs
def ObjectField.toJson : ObjectField → J
  | .mk name value loc => node "ObjectField" loc [("name", name.toJson), ("value", value.toJson)]
def fieldsToJson : List ObjectField → List J
  | [] => []
  | f :: fs => f.toJson :: fieldsToJson fs
end

def Argument.toJson (a : Argument) : J :=
  node "Argument" a.loc [("name", a.name.toJson), ("value", a.value.toJson)]

def Directive.toJson (d : Directive) : J :=
  node "Directive" d.loc [("name", d.name.toJson), ("arguments", lst Argument.toJson d.arguments)]

def VariableDefinition.toJson (d : VariableDefinition) : J :=
  node "VariableDefinition" d.loc
    [("variable", d.var.toJson), ("type", d.type.toJson), ("default_value", opt Value.toJson d.defaultValue),
     ("directives", lst Directive.toJson d.directives)]

mutual
def Selection.toJson : Selection → J
  | .field alias_ name args dirs ss loc =>
    node "Field" loc
      [("name", name.toJson), ("alias", opt Name.toJson alias_), ("arguments", lst Argument.toJson args),
       ("directives", lst Directive.toJson dirs),
       ("selection_set", match ss with | none => .null | some s => s.toJson)]
  | .fragmentSpread name dirs loc =>
    node "FragmentSpread" loc [("name", name.toJson), ("directives", lst Directive.toJson dirs)]
  | .inlineFragment tc dirs ss loc =>
    node "InlineFragment" loc
      [("type_condition", opt NamedType.toJson tc), ("directives", lst Directive.toJson dirs),
       ("selection_set", ss.toJson)]
def SelectionSet.toJson : SelectionSet → J
  | .mk sels loc => node "SelectionSet" loc [("selections", .arr (selectionsToJson sels))]
def selectionsToJson : List Selection → List J
  | [] => []
  | s :: ss => s.toJson :: selectionsToJson ss
end

def OperationDefinition.toJson (d : OperationDefinition) : J :=
  node "OperationDefinition" d.loc
    [("operation", J.ofText d.operation), ("name", opt Name.toJson d.name),
     ("variable_definitions", lst VariableDefinition.toJson d.variableDefinitions),
     ("directives", lst Directive.toJson d.directives), ("selection_set", d.selectionSet.toJson)]

def FragmentDefinition.toJson (d : FragmentDefinition) : J :=
  node "FragmentDefinition" d.loc
    [("name", d.name.toJson), ("variable_definitions", lst VariableDefinition.toJson d.variableDefinitions),
     ("type_condition", d.typeCondition.toJson), ("directives", lst Directive.toJson d.directives),
     ("selection_set", d.selectionSet.toJson)]

def OperationTypeDefinition.toJson (d : OperationTypeDefinition) : J :=
  node "OperationTypeDefinition" d.loc [("operation", J.ofText d.operation), ("type", d.type.toJson)]

def InputValueDefinition.toJson (d : InputValueDefinition) : J :=
  node "InputValueDefinition" d.loc
    [("description", opt StringValue.toJson d.description), ("name", d.name.toJson), ("type", d.type.toJson),
     ("default_value", opt Value.toJson d.defaultValue), ("directives", lst Directive.toJson d.directives)]

def FieldDefinition.toJson (d : FieldDefinition) : J :=
  node "FieldDefinition" d.loc
    [("description", opt StringValue.toJson d.description), ("name", d.name.toJson),
     ("arguments", lst InputValueDefinition.toJson d.arguments), ("type", d.type.toJson),
     ("directives", lst Directive.toJson d.directives)]

def EnumValueDefinition.toJson (d : EnumValueDefinition) : J :=
  node "EnumValueDefinition" d.loc
    [("description", opt StringValue.toJson d.description), ("name", d.name.toJson),
     ("directives", lst Directive.toJson d.directives)]

def Definition.toJson : Definition → J
  | .operation d => d.toJson
  | .fragment d => d.toJson
  | .schemaDefinition dirs ops loc =>
    node "SchemaDefinition" loc
      [("directives", lst Directive.toJson dirs), ("operation_types", lst OperationTypeDefinition.toJson ops)]
  | .scalarTypeDefinition desc name dirs loc =>
    node "ScalarTypeDefinition" loc
      [("description", opt StringValue.toJson desc), ("name", name.toJson), ("directives", lst Directive.toJson dirs)]
  | .objectTypeDefinition desc name ifs dirs fields loc =>
    node "ObjectTypeDefinition" loc
      [("description", opt StringValue.toJson desc), ("name", name.toJson),
       ("interfaces", lst NamedType.toJson ifs), ("directives", lst Directive.toJson dirs),
       ("fields", lst FieldDefinition.toJson fields)]
  | .interfaceTypeDefinition desc name dirs fields loc =>
    node "InterfaceTypeDefinition" loc
      [("description", opt StringValue.toJson desc), ("name", name.toJson),
       ("directives", lst Directive.toJson dirs), ("fields", lst FieldDefinition.toJson fields)]
  | .unionTypeDefinition desc name dirs types loc =>
    node "UnionTypeDefinition" loc
      [("description", opt StringValue.toJson desc), ("name", name.toJson),
       ("directives", lst Directive.toJson dirs), ("types", lst NamedType.toJson types)]
  | .enumTypeDefinition desc name dirs values loc =>
    node "EnumTypeDefinition" loc
      [("description", opt StringValue.toJson desc), ("name", name.toJson),
       ("directives", lst Directive.toJson dirs), ("values", lst EnumValueDefinition.toJson values)]
  | .inputObjectTypeDefinition desc name dirs fields loc =>
    node "InputObjectTypeDefinition" loc
      [("description", opt StringValue.toJson desc), ("name", name.toJson),
       ("directives", lst Directive.toJson dirs), ("fields", lst InputValueDefinition.toJson fields)]
  | .directiveDefinition desc name args locations loc =>
    node "DirectiveDefinition" loc
      [("description", opt StringValue.toJson desc), ("name", name.toJson),
       ("arguments", lst InputValueDefinition.toJson args), ("locations", lst Name.toJson locations)]
  | .schemaExtension dirs ops loc =>
    node "SchemaExtension" loc
      [("directives", lst Directive.toJson dirs), ("operation_types", lst OperationTypeDefinition.toJson ops)]
  | .scalarTypeExtension name dirs loc =>
    node "ScalarTypeExtension" loc [("name", name.toJson), ("directives", lst Directive.toJson dirs)]
  | .objectTypeExtension name ifs dirs fields loc =>
    node "ObjectTypeExtension" loc
      [("name", name.toJson), ("interfaces", lst NamedType.toJson ifs), ("directives", lst Directive.toJson dirs),
       ("fields", lst FieldDefinition.toJson fields)]
  | .interfaceTypeExtension name dirs fields loc =>
    node "InterfaceTypeExtension" loc
      [("name", name.toJson), ("directives", lst Directive.toJson dirs), ("fields", lst FieldDefinition.toJson fields)]
  | .unionTypeExtension name dirs types loc =>
    node "UnionTypeExtension" loc
      [("name", name.toJson), ("directives", lst Directive.toJson dirs), ("types", lst NamedType.toJson types)]
  | .enumTypeExtension name dirs values loc =>
    node "EnumTypeExtension" loc
      [("name", name.toJson), ("directives", lst Directive.toJson dirs),
       ("values", lst EnumValueDefinition.toJson values)]
  | .inputObjectTypeExtension name dirs fields loc =>
    node "InputObjectTypeExtension" loc
      [("name", name.toJson), ("directives", lst Directive.toJson dirs),
       ("fields", lst InputValueDefinition.toJson fields)]

def Document.toJson (d : Document) : J :=
  node "Document" d.loc [("definitions", lst Definition.toJson d.definitions)]

end PyGql.Ast

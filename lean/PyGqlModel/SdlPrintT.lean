/-
  C12 — a SECOND, TOTAL model of `py_gql.sdl.ASTSchemaPrinter` (ast_schema_printer.py) on `Text` (code points), written
  for proofs: every function is total and list-based (`litText` is a structural mutual definition over `Lit`; the
  description layout uses list-level helpers with equations instead of `String.splitOn / replace / endsWith`).
  It covers `include_custom_schema_directives = False` (the default): no directive application is printed except
  `@deprecated`, hence no module-level state is read.  `printSchemaT` is compared on every run with the real printer's
  text AND with the first model `SdlPrint.printSchema` (driver op `printT`).
  Function names and structure follow `SdlPrint.lean` / the Python source.
  Imports model files only (SchemaDesc, Sdl, SdlPrint for `valueLit`/`sortBy`, PrintString for the string encoders).
-/
import PyGqlModel.SdlPrint
import PyGqlModel.PrintString
namespace PyGql.SdlPrintT
open PyGql PyGql.Sdl PyGql.PrintString

/-- a Python string as code points -/
def T (s : String) : Text := textOfString s

/-- the two options the text depends on when no custom directive is printed -/
structure OptsT where
  indent : Text := [32, 32, 32, 32]
  descriptions : Bool := true
  deriving Repr, DecidableEq, Inhabited

/-! ### `str` helpers -/

/-- `str.isspace` characters removed by `strip()` (as in `SdlPrint.isWs`) -/
def isWs (c : Nat) : Bool :=
  c == 32 || c == 9 || c == 10 || c == 13 || c == 11 || c == 12 || c == 0x1c || c == 0x1d || c == 0x1e || c == 0x1f ||
  c == 0x85 || c == 0xa0

def lstrip (s : Text) : Text := s.dropWhile isWs
def rstrip (s : Text) : Text := (s.reverse.dropWhile isWs).reverse
def strip (s : Text) : Text := lstrip (rstrip s)

/-- `sep.join(xs)` -/
def joinSep (sep : Text) : List Text → Text
  | [] => []
  | [x] => x
  | x :: xs => x ++ sep ++ joinSep sep xs

/-- `s.split("\n")`: at least one piece -/
def splitLF : Text → List Text
  | [] => [[]]
  | c :: t =>
    if c = 10 then [] :: splitLF t
    else match splitLF t with
      | l :: ls => (c :: l) :: ls
      | [] => [[c]]

def repeatText (s : Text) : Nat → Text
  | 0 => []
  | n + 1 => s ++ repeatText s n

/-! ### `_string_utils.wrapped_lines` -/

/-- `_split_words_with_boundaries(line, " -_")`; `stack` is reversed -/
def splitWords : Text → Text → List Text
  | [], stack => if stack.isEmpty then [] else [stack.reverse]
  | c :: cs, stack =>
    if c == 32 || c == 45 || c == 95 then
      (if stack.isEmpty then [] else [stack.reverse]) ++ [c] :: splitWords cs []
    else splitWords cs (c :: stack)

def wrapLine (maxLen : Nat) : List Text → Text → List Text
  | [], wrapped => if wrapped.isEmpty then [] else [wrapped]
  | e :: es, wrapped =>
    if (wrapped ++ e).length > maxLen then
      wrapped :: wrapLine maxLen es (if e != [32] then e else [])
    else wrapLine maxLen es (if e != [32] || !wrapped.isEmpty then wrapped ++ e else wrapped)

def wrappedLines (lines : List Text) (maxLen : Nat) : List Text :=
  lines.flatMap fun l => if l.length ≤ maxLen then [l] else wrapLine maxLen (splitWords l []) []

/-! ### `print_description` -/

/-- the lines of the multi-line layout: the first line carries the opening line feed unless it starts with white space;
    every line but a white-space-led first one is indented -/
def descLines (indent : Text) (lead : Bool) : Nat → List Text → List Text
  | _, [] => []
  | i, l :: ls =>
    ((if i == 0 && !lead then [10] else []) ++ (if i > 0 || !lead then indent else []) ++ escapeTripleQuotes l) ::
      descLines indent lead (i + 1) ls

/-- the text between the triple quotes -/
def descBody (indent : Text) (lines : List Text) : Text :=
  let first := lines.headD []
  if lines.length == 1 && first.length < 70 && !(first.getLast? == some 34) then escapeTripleQuotes first
  else
    let lead := first.length > (lstrip first).length
    joinSep [10] (descLines indent lead 0 lines) ++ [10] ++ indent

/-- a line of white space only (`not line.strip(" \t")`) -/
def isBlankLine (l : Text) : Bool := l.all (fun c => c == 32 || c == 9)
/-- the line starts with a space or a tab -/
def startsWs (l : Text) : Bool := match l with | c :: _ => c == 32 || c == 9 | [] => false

/-- no block string denotes the description (fix D1): the first line starts with white space, so it stays on the line of the
    opening quotes, and every other non-blank line is indented too, so their common indentation would be removed -/
def needsQuoted (lines : List Text) : Bool :=
  let rest := (lines.drop 1).filter (fun l => !isBlankLine l)
  startsWs (lines.headD []) && !rest.isEmpty && rest.all startsWs

/-- `print_description(definition, depth, first_in_block)`; a description with a carriage return (fix D3) or of the shape
    `needsQuoted` (fix D1) is printed as a quoted string, every other one as a block string -/
def printDescription (o : OptsT) (desc : Option String) (depth : Nat := 0) (firstInBlock : Bool := true) : Text :=
  match desc with
  | none => []
  | some d =>
    if !o.descriptions || d.isEmpty then [] else
    let indent := repeatText o.indent depth
    let lines := wrappedLines (splitLF (T d)) (120 - indent.length)
    if (T d).contains 13 || needsQuoted lines then
      (if !indent.isEmpty && !firstInBlock then [10] else []) ++ indent ++ jsonDumps (T d) ++ [10]
    else
    (if !indent.isEmpty && !firstInBlock then [10] else []) ++ indent ++ [34, 34, 34] ++ descBody indent lines ++ [34, 34, 34, 10]

/-! ### literals: `print_ast(ast_node_from_value(...))` -/

mutual
/-- `print_ast` of a literal node (total) -/
def litText : Lit → Text
  | .null => T "null"
  | .int v _ => T v
  | .float v _ => T v
  | .str x => jsonDumps (T x)
  | .bool b => if b then T "true" else T "false"
  | .enum v => T v
  | .list l => 91 :: (joinSep [44, 32] (litTexts l) ++ [93])
  | .obj fs => 123 :: (joinSep [44, 32] (fieldTexts fs) ++ [125])
def litTexts : List Lit → List Text
  | [] => []
  | v :: vs => litText v :: litTexts vs
def fieldTexts : List (String × Lit) → List Text
  | [] => []
  | (k, v) :: fs => (T k ++ [58, 32] ++ litText v) :: fieldTexts fs
end

/-- text of the default value; `none` = `ast_node_from_value` raises (printed as `<ValueError>` by the first model) -/
def valueText (s : SchemaD) (v : J) (ty : Ty) : Text :=
  match SdlPrint.valueLit s SdlPrint.valueFuel v ty with
  | some l => litText l
  | none => T "<ValueError>"

def renderTy : Ty → Text
  | .named n => T n
  | .list t => 91 :: (renderTy t ++ [93])
  | .nonNull t => renderTy t ++ [33]

/-- `print_deprecated` -/
def printDeprecated (r : Option String) : Text :=
  match r with
  | none => []
  | some x =>
    if x.isEmpty || x == SdlPrint.DEFAULT_DEPRECATION then T " @deprecated"
    else T " @deprecated(reason: " ++ jsonDumps (T x) ++ [41]

/-! ### members -/

/-- `print_input_value` (no custom directives) -/
def printInputValue (s : SchemaD) (a : ArgD) : Text :=
  let base := T a.name ++ [58, 32] ++ renderTy a.type
  strip (if a.hasDefault then base ++ [32, 61, 32] ++ valueText s a.default a.type else base)

/-- does `print_arguments` write one argument per line? (some argument has a description that is printed) -/
def multiArgs (o : OptsT) (args : List ArgD) : Bool :=
  o.descriptions && args.any (fun a => match a.desc with | some d => !d.isEmpty | none => false)

def printArgs (s : SchemaD) (o : OptsT) (depth : Nat) (multi : Bool) : Nat → List ArgD → List Text
  | _, [] => []
  | i, a :: as =>
    (if multi then printDescription o a.desc (depth + 1) (i == 0) ++ o.indent ++ repeatText o.indent depth ++ printInputValue s a
     else printInputValue s a) :: printArgs s o depth multi (i + 1) as

/-- `print_arguments(args, depth)` -/
def printArguments (s : SchemaD) (o : OptsT) (args : List ArgD) (depth : Nat) : Text :=
  let indent := repeatText o.indent depth
  let multi := multiArgs o args
  let r := printArgs s o depth multi 0 args
  if args.isEmpty then []
  else if multi then indent ++ [40, 10] ++ joinSep [10] r ++ [10] ++ indent ++ [41]
  else 40 :: (joinSep [44, 32] r ++ [41])

def printField (s : SchemaD) (o : OptsT) (i : Nat) (f : FieldD) : Text :=
  rstrip (printDescription o f.desc 1 (i == 0) ++ o.indent ++ T f.name ++ printArguments s o f.args 1 ++ [58, 32] ++
    renderTy f.type ++ printDeprecated f.deprecated)

def printFields (s : SchemaD) (o : OptsT) : Nat → List FieldD → List Text
  | _, [] => []
  | i, f :: fs => printField s o i f :: printFields s o (i + 1) fs

def printEnumValue (o : OptsT) (i : Nat) (v : EnumValD) : Text :=
  rstrip (printDescription o v.desc 1 (i == 0) ++ o.indent ++ T v.name ++ printDeprecated v.deprecated)

def printEnumValues (o : OptsT) : Nat → List EnumValD → List Text
  | _, [] => []
  | i, v :: vs => printEnumValue o i v :: printEnumValues o (i + 1) vs

def printInputField (s : SchemaD) (o : OptsT) (i : Nat) (f : ArgD) : Text :=
  printDescription o f.desc 1 (i == 0) ++ o.indent ++ printInputValue s f

def printInputFields (s : SchemaD) (o : OptsT) : Nat → List ArgD → List Text
  | _, [] => []
  | i, f :: fs => printInputField s o i f :: printInputFields s o (i + 1) fs

/-! ### definitions -/

/-- `{⏎ lines ⏎}` -/
def braces (lines : List Text) : Text := [32, 123, 10] ++ joinSep [10] lines ++ [10, 125]

def printType (s : SchemaD) (o : OptsT) (t : TypeD) : Text :=
  let desc := printDescription o t.desc
  match t.kind with
  | .scalar => desc ++ T "scalar " ++ T t.name
  | .enum => desc ++ T "enum " ++ T t.name ++ braces (printEnumValues o 0 t.values)
  | .union => desc ++ T "union " ++ T t.name ++ [32, 61, 32] ++ joinSep [32, 124, 32] (t.members.map T)
  | .object =>
    let impl := if t.interfaces.isEmpty then [] else T " implements " ++ joinSep [32, 38, 32] (t.interfaces.map T)
    desc ++ T "type " ++ T t.name ++ impl ++ braces (printFields s o 0 t.fields)
  | .interface => desc ++ T "interface " ++ T t.name ++ braces (printFields s o 0 t.fields)
  | .input => desc ++ T "input " ++ T t.name ++ braces (printInputFields s o 0 t.inputFields)

def printDirectiveDefinition (s : SchemaD) (o : OptsT) (d : DirectiveD) : Text :=
  printDescription o d.desc ++ T "directive @" ++ T d.name ++ printArguments s o d.args 0 ++ T " on " ++
    joinSep [32, 124, 32] (d.locations.map T)

def rootLines (o : OptsT) (s : SchemaD) : List Text :=
  (match s.query with | some q => [o.indent ++ T "query: " ++ T q] | none => []) ++
  (match s.mutation with | some q => [o.indent ++ T "mutation: " ++ T q] | none => []) ++
  (match s.subscription with | some q => [o.indent ++ T "subscription: " ++ T q] | none => [])

/-- `print_schema_definition` (no schema-level directive applications) -/
def printSchemaDefinition (o : OptsT) (s : SchemaD) : Text :=
  if SdlPrint.needsSchemaBlock s then T "schema" ++ braces (rootLines o s) else []

/-- `ASTSchemaPrinter.__call__` (`include_introspection = False`, `include_custom_schema_directives = False`) -/
def printSchemaT (o : OptsT) (s : SchemaD) : Text :=
  let parts := (printSchemaDefinition o s ::
      (SdlPrint.sortBy (·.name) s.directives).map (printDirectiveDefinition s o) ++
      (SdlPrint.sortBy (·.name) s.types).map (printType s o)).filter (fun p => !p.isEmpty)
  if parts.isEmpty then [] else joinSep [10, 10] parts ++ [10]

end PyGql.SdlPrintT

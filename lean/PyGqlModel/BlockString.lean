/-
  MODEL of `py_gql._string_utils.parse_block_string` (with proposed fix C02-B1-B2:
  `LINE_SEPARATOR.split` instead of `str.splitlines`, `lstrip(" \t")` instead of `lstrip()`).
  Text is `List Nat` (code points). Import-free apart from `Token` (for `Text`).
-/
import PyGqlModel.Token

namespace PyGql.BlockString

/-- `LINE_SEPARATOR = re.compile(r"\r\n|[\n\r]")`, `LINE_SEPARATOR.split(body)`:
    always at least one piece; a CR directly followed by LF is one separator
    (`afterCR` = the previous character was a CR that already ended the line). -/
def splitLinesAux (afterCR : Bool) : Text → List Text
  | [] => [[]]
  | c :: t =>
    if c = 10 then (if afterCR then splitLinesAux false t else [] :: splitLinesAux false t)
    else if c = 13 then [] :: splitLinesAux true t
    else
      match splitLinesAux false t with
      | l :: ls => (c :: l) :: ls
      | [] => [[c]]   -- unreachable (`splitLinesAux_ne_nil`)

def splitLines (body : Text) : List Text := splitLinesAux false body

/-- the characters removed by `lstrip(" \t")` -/
def isBlankChar (c : Nat) : Bool := c == 32 || c == 9

/-- `line.lstrip(" \t")` -/
def lstrip (line : Text) : Text := line.dropWhile isBlankChar

/-- one step of `for line in lines[1:]` — `none` is the initial `sys.maxsize` -/
def indentStep (acc : Option Nat) (line : Text) : Option Nat :=
  let innerLen := (lstrip line).length
  if innerLen ≠ 0 then
    let ind := line.length - innerLen
    match acc with
    | none => some ind
    | some m => some (min m ind)
  else acc

/-- the first loop: `common_indent` over `lines[1:]` -/
def commonIndent (lines : List Text) : Option Nat := (lines.drop 1).foldl indentStep none

/-- `while lines and not lines[0].lstrip(" \t"): lines.pop(0)` -/
def popLeading : List Text → List Text
  | [] => []
  | l :: ls => if (lstrip l).isEmpty then popLeading ls else l :: ls

/-- `while lines and not lines[-1].lstrip(" \t"): lines.pop()` -/
def popTrailing : List Text → List Text
  | [] => []
  | l :: ls =>
    match popTrailing ls with
    | [] => if (lstrip l).isEmpty then [] else [l]
    | r => l :: r

/-- `"\n".join(lines)` -/
def joinLF : List Text → Text
  | [] => []
  | [l] => l
  | l :: ls => l ++ 10 :: joinLF ls

/-- `parse_block_string(raw_string)` -/
def parseBlockString (raw : Text) : Text :=
  let lines := splitLines raw
  let lines :=
    match commonIndent lines with
    | some k => lines.take 1 ++ (lines.drop 1).map (fun l => l.drop k)
    | none => lines
  joinLF (popTrailing (popLeading lines))

end PyGql.BlockString

/-
  C12 — the total, `Text`-based model of `py_gql.sdl.ASTSchemaPrinter` WITH APPLIED SCHEMA DIRECTIVES
  (`include_custom_schema_directives` = `True` or a whitelist of names): `SdlPrintT` extended by `print_directives` at
  every position the printer calls it (schema block, the six kinds of types, fields, arguments, input fields, enum
  values, directive arguments).  The module-level state is the frozenset of fix H1 (`print_pure`: it never changes), so
  `include_custom_schema_directive(name)` is the pure predicate `keepP`.  A directive application is printed by
  `print_ast(directive_node)`, i.e. by the language printer of C03 (`Print.printDirective`) on the node (`SdlText.dirOf`).
  The applications live, as in the first model `SdlPrint`, in `Apps` (path ↦ the directives of the AST nodes attached to
  the schema element; paths `""`, `T`, `T.f`, `T.f.a`, `@d.a`).
  Quirk kept: when an element has directive nodes but none of them is printed (`@deprecated` only, or none on the
  whitelist) `print_directives` returns a single space — it survives on type headers (`type T  {`, `scalar S `), is
  stripped from members, and makes `print_schema_definition` write the `schema` block even when every root is implied.
  Also here: `schemaToDocA`, the document the printed text denotes (applied directives after `@deprecated`).
  Compared on every run with the real printer's text and with the first model (driver op `printTA`).
-/
import PyGqlModel.SdlText
import PyGqlModel.Print
namespace PyGql.SdlPrintTA
open PyGql PyGql.Sdl PyGql.SdlPrintT
open PyGql.SdlPrint (Apps onWhitelist sortBy needsSchemaBlock rootOps deprDirs descToDoc argToDef)

/-- the options of a call with `include_custom_schema_directives` -/
structure OptsA where
  base : OptsT := {}
  /-- truthiness of `include_custom_schema_directives` (`False` and `[]` print no directive at all) -/
  custom : Bool := true
  /-- `include_custom_schema_directives` given as a list of names (`none`: a boolean was given) -/
  whitelist : Option (List String) := none
  deriving Repr, Inhabited

/-- `include_custom_schema_directive(name)` for the frozenset state of fix H1 -/
def keepP (wl : Option (List String)) (d : DirApp) : Bool :=
  !specifiedDirectives.contains d.name && onWhitelist wl d.name

/-- `directives_nodes` of `print_directives` (`[]` when the option is falsy) -/
def nodesAt (c : OptsA) (apps : Apps) (path : String) : List DirApp := if c.custom then apps.get path else []

/-- the nodes that are printed -/
def keptAt (c : OptsA) (apps : Apps) (path : String) : List DirApp := (nodesAt c apps path).filter (keepP c.whitelist)

/-- `print_ast(directive_node)` -/
def dirText (d : DirApp) : Text := Print.printDirective Print.mkCfg (SdlText.dirOf d)

/-- `print_directives(definition)` -/
def printDirectives (c : OptsA) (apps : Apps) (path : String) : Text :=
  if (nodesAt c apps path).isEmpty then [] else 32 :: joinSep [32] ((keptAt c apps path).map dirText)

/-! ### members -/

def printInputValue (s : SchemaD) (c : OptsA) (apps : Apps) (path : String) (a : ArgD) : Text :=
  let base := T a.name ++ [58, 32] ++ renderTy a.type
  strip ((if a.hasDefault then base ++ [32, 61, 32] ++ valueText s a.default a.type else base) ++
    printDirectives c apps (path ++ "." ++ a.name))

def printArgs (s : SchemaD) (c : OptsA) (apps : Apps) (path : String) (depth : Nat) (multi : Bool) : Nat → List ArgD → List Text
  | _, [] => []
  | i, a :: as =>
    (if multi then printDescription c.base a.desc (depth + 1) (i == 0) ++ c.base.indent ++ repeatText c.base.indent depth ++
        printInputValue s c apps path a
     else printInputValue s c apps path a) :: printArgs s c apps path depth multi (i + 1) as

/-- `print_arguments(args, depth)` -/
def printArguments (s : SchemaD) (c : OptsA) (apps : Apps) (path : String) (args : List ArgD) (depth : Nat) : Text :=
  let indent := repeatText c.base.indent depth
  let multi := multiArgs c.base args
  let r := printArgs s c apps path depth multi 0 args
  if args.isEmpty then []
  else if multi then indent ++ [40, 10] ++ joinSep [10] r ++ [10] ++ indent ++ [41]
  else 40 :: (joinSep [44, 32] r ++ [41])

def printField (s : SchemaD) (c : OptsA) (apps : Apps) (tname : String) (i : Nat) (f : FieldD) : Text :=
  let path := tname ++ "." ++ f.name
  rstrip (printDescription c.base f.desc 1 (i == 0) ++ c.base.indent ++ T f.name ++ printArguments s c apps path f.args 1 ++
    [58, 32] ++ renderTy f.type ++ printDeprecated f.deprecated ++ printDirectives c apps path)

def printFields (s : SchemaD) (c : OptsA) (apps : Apps) (tname : String) : Nat → List FieldD → List Text
  | _, [] => []
  | i, f :: fs => printField s c apps tname i f :: printFields s c apps tname (i + 1) fs

def printEnumValue (c : OptsA) (apps : Apps) (tname : String) (i : Nat) (v : EnumValD) : Text :=
  rstrip (printDescription c.base v.desc 1 (i == 0) ++ c.base.indent ++ T v.name ++ printDeprecated v.deprecated ++
    printDirectives c apps (tname ++ "." ++ v.name))

def printEnumValues (c : OptsA) (apps : Apps) (tname : String) : Nat → List EnumValD → List Text
  | _, [] => []
  | i, v :: vs => printEnumValue c apps tname i v :: printEnumValues c apps tname (i + 1) vs

def printInputField (s : SchemaD) (c : OptsA) (apps : Apps) (tname : String) (i : Nat) (f : ArgD) : Text :=
  printDescription c.base f.desc 1 (i == 0) ++ c.base.indent ++ printInputValue s c apps tname f

def printInputFields (s : SchemaD) (c : OptsA) (apps : Apps) (tname : String) : Nat → List ArgD → List Text
  | _, [] => []
  | i, f :: fs => printInputField s c apps tname i f :: printInputFields s c apps tname (i + 1) fs

/-! ### definitions -/

def printType (s : SchemaD) (c : OptsA) (apps : Apps) (t : TypeD) : Text :=
  let desc := printDescription c.base t.desc
  let d := printDirectives c apps t.name
  match t.kind with
  | .scalar => desc ++ T "scalar " ++ T t.name ++ d
  | .enum => desc ++ T "enum " ++ T t.name ++ d ++ braces (printEnumValues c apps t.name 0 t.values)
  | .union => desc ++ T "union " ++ T t.name ++ d ++ [32, 61, 32] ++ joinSep [32, 124, 32] (t.members.map T)
  | .object =>
    let impl := if t.interfaces.isEmpty then [] else T " implements " ++ joinSep [32, 38, 32] (t.interfaces.map T)
    desc ++ T "type " ++ T t.name ++ impl ++ d ++ braces (printFields s c apps t.name 0 t.fields)
  | .interface => desc ++ T "interface " ++ T t.name ++ d ++ braces (printFields s c apps t.name 0 t.fields)
  | .input => desc ++ T "input " ++ T t.name ++ d ++ braces (printInputFields s c apps t.name 0 t.inputFields)

def printDirectiveDefinition (s : SchemaD) (c : OptsA) (apps : Apps) (d : DirectiveD) : Text :=
  printDescription c.base d.desc ++ T "directive @" ++ T d.name ++ printArguments s c apps ("@" ++ d.name) d.args 0 ++ T " on " ++
    joinSep [32, 124, 32] (d.locations.map T)

/-- is the `schema` block written?  (`not directives and implied…`: a lone space counts as directives) -/
def needsSchemaBlockA (s : SchemaD) (c : OptsA) (apps : Apps) : Bool :=
  needsSchemaBlock s || !(nodesAt c apps "").isEmpty

/-- `print_schema_definition` -/
def printSchemaDefinition (s : SchemaD) (c : OptsA) (apps : Apps) : Text :=
  if needsSchemaBlockA s c apps then T "schema" ++ printDirectives c apps "" ++ braces (rootLines c.base s) else []

/-- `ASTSchemaPrinter.__call__` (`include_introspection = False`) -/
def printSchemaTA (c : OptsA) (s : SchemaD) (apps : Apps) : Text :=
  let parts := (printSchemaDefinition s c apps ::
      (sortBy (·.name) s.directives).map (printDirectiveDefinition s c apps) ++
      (sortBy (·.name) s.types).map (printType s c apps)).filter (fun p => !p.isEmpty)
  if parts.isEmpty then [] else joinSep [10, 10] parts ++ [10]

/-- `ASTSchemaPrinter.__call__` WITH the option `include_introspection` (Text level, as `SdlPrint.printSchemaX`): the
    definitions of the specified directives (the library's order, NOT sorted) before the schema's own directives, the
    introspection types sorted by name together with the schema's types.  Tied to the String model by proof
    (`Props/C12_models.lean: printSchemaXTA_eq_printSchemaX`). -/
def printSchemaXTA (c : OptsA) (intro : Bool) (b : SdlPrint.Builtins) (s : SchemaD) (apps : Apps) : Text :=
  let parts := ((printSchemaDefinition s c apps ::
      (if intro then b.specified else []).map (printDirectiveDefinition s c apps)) ++
      (sortBy (·.name) s.directives).map (printDirectiveDefinition s c apps) ++
      (sortBy (·.name) (s.types ++ (if intro then b.introspection else []))).map (printType s c apps)).filter (fun p => !p.isEmpty)
  if parts.isEmpty then [] else joinSep [10, 10] parts ++ [10]

/-! ### the document the printed text denotes -/

def argToDefA (s : SchemaD) (c : OptsA) (apps : Apps) (path : String) (a : ArgD) : InputValDef :=
  { argToDef s a with dirs := keptAt c apps (path ++ "." ++ a.name) }

def fieldToDefA (s : SchemaD) (c : OptsA) (apps : Apps) (tname : String) (f : FieldD) : FieldDef :=
  { name := f.name, desc := descToDoc f.desc, args := f.args.map (argToDefA s c apps (tname ++ "." ++ f.name)), type := f.type,
    dirs := deprDirs f.deprecated ++ keptAt c apps (tname ++ "." ++ f.name) }

def enumValToDefA (c : OptsA) (apps : Apps) (tname : String) (v : EnumValD) : EnumValDef :=
  { name := v.name, desc := descToDoc v.desc, dirs := deprDirs v.deprecated ++ keptAt c apps (tname ++ "." ++ v.name) }

def typeToDefA (s : SchemaD) (c : OptsA) (apps : Apps) (t : TypeD) : TypeDef :=
  { kind := t.kind, name := t.name, desc := descToDoc t.desc, interfaces := t.interfaces,
    fields := t.fields.map (fieldToDefA s c apps t.name), members := t.members, values := t.values.map (enumValToDefA c apps t.name),
    inputFields := t.inputFields.map (argToDefA s c apps t.name), dirs := keptAt c apps t.name }

def directiveToDefA (s : SchemaD) (c : OptsA) (apps : Apps) (d : DirectiveD) : DirDef :=
  { name := d.name, desc := descToDoc d.desc, args := d.args.map (argToDefA s c apps ("@" ++ d.name)), locations := d.locations }

/-- the document `to_string(include_custom_schema_directives=…)` denotes -/
def schemaToDocA (s : SchemaD) (c : OptsA) (apps : Apps) : Doc :=
  (if needsSchemaBlockA s c apps then [.schema { ops := rootOps s, dirs := keptAt c apps "" }] else []) ++
  s.directives.map (fun d => .directive (directiveToDefA s c apps d)) ++ s.types.map (fun t => .type (typeToDefA s c apps t))

/-- … in the order the printer writes it -/
def printedDocA (s : SchemaD) (c : OptsA) (apps : Apps) : Doc := schemaToDocA (SdlText.printOrder s) c apps

/-! ### erasure: without the applied custom directives it is the document of `schemaToDoc` -/

/-- an application of a specified directive (`@deprecated` is the only one the builder reads) -/
def isSpecified (d : DirApp) : Bool := specifiedDirectives.contains d.name

def eraseIV (a : InputValDef) : InputValDef := { a with dirs := a.dirs.filter isSpecified }
def eraseField (f : FieldDef) : FieldDef :=
  { f with args := f.args.map eraseIV, dirs := f.dirs.filter isSpecified }
def eraseEnumVal (v : EnumValDef) : EnumValDef := { v with dirs := v.dirs.filter isSpecified }
def eraseType (t : TypeDef) : TypeDef :=
  { t with fields := t.fields.map eraseField, values := t.values.map eraseEnumVal, inputFields := t.inputFields.map eraseIV,
           dirs := t.dirs.filter isSpecified }

/-- drop every application of a non-specified directive (and a `schema` block that only existed to carry them is kept:
    it names the same roots) -/
def eraseCustom : Def → Def
  | .type t => .type (eraseType t)
  | .ext t => .ext (eraseType t)
  | .directive d => .directive { d with args := d.args.map eraseIV }
  | .schema sd => .schema { sd with dirs := sd.dirs.filter isSpecified }
  | .schemaExt sd => .schemaExt { sd with dirs := sd.dirs.filter isSpecified }
  | .other => .other

/-! ### `printTextWFA`: the lexical well-formedness with applied directives -/

/-- a printed application consists of lexemes: its name and argument names are `Name`s, its argument values literals of
    their classes (`litOK`) -/
def dirAppOK (d : DirApp) : Bool := SdlText.nameOK d.name && d.args.all (fun a => SdlText.nameOK a.1 && SdlText.litOK a.2)

def appsOKAt (c : OptsA) (apps : Apps) (path : String) : Bool := (keptAt c apps path).all dirAppOK

def argAppsOK (c : OptsA) (apps : Apps) (path : String) (a : ArgD) : Bool := appsOKAt c apps (path ++ "." ++ a.name)

def fieldAppsOK (c : OptsA) (apps : Apps) (tname : String) (f : FieldD) : Bool :=
  appsOKAt c apps (tname ++ "." ++ f.name) && f.args.all (argAppsOK c apps (tname ++ "." ++ f.name))

def typeAppsOK (c : OptsA) (apps : Apps) (t : TypeD) : Bool :=
  appsOKAt c apps t.name && t.fields.all (fieldAppsOK c apps t.name) &&
  t.values.all (fun v => appsOKAt c apps (t.name ++ "." ++ v.name)) && t.inputFields.all (argAppsOK c apps t.name)

def directiveAppsOK (c : OptsA) (apps : Apps) (d : DirectiveD) : Bool := d.args.all (argAppsOK c apps ("@" ++ d.name))

/-- **printTextWFA** — `printTextWF` of the schema, every PRINTED directive application consists of lexemes, and a
    `schema` block that is written (also when only a directive node forces it) names at least one root -/
def printTextWFA (c : OptsA) (s : SchemaD) (apps : Apps) : Bool :=
  SdlText.printTextWF c.base s && appsOKAt c apps "" && s.types.all (typeAppsOK c apps) &&
  s.directives.all (directiveAppsOK c apps) && (!needsSchemaBlockA s c apps || !(rootOps s).isEmpty)

end PyGql.SdlPrintTA

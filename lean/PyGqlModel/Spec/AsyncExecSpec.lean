/-
  C08 — SPECIFICATION of the response data of an operation in the simplified form, independent of any
  executor, runtime or schedule.  `none` = the execution fails as a whole (an unexpected resolver
  exception or a value `complete_value` rejects occurs somewhere in the operation).

  Readable against GraphQL June 2018 §6.4 (CompleteValue / ExecuteSelectionSet) *as py-gql implements
  it*: a resolver error nulls the field; a null in a non-null position is reported but NOT propagated
  to the parent (py-gql's `_handle_non_nullable_value` returns the null).
-/
import PyGqlModel.ExecOp

namespace PyGql.AsyncExec

mutual
def denComp : Comp → Option V
  | .null => some .null
  | .leaf v => some (.leaf v)
  | .bad => none
  | .nonNull c => denComp c
  | .list items => match denItems items with
    | some vs => some (.list vs)
    | none => none
  | .obj fs => match denFlds fs with
    | some kvs => some (.obj kvs)
    | none => none
def denItems : Comps → Option (List V)
  | .nil => some []
  | .cons c cs => match denComp c, denItems cs with
    | some v, some vs => some (v :: vs)
    | _, _ => none
def denFlds : Flds → Option (List (String × V))
  | .nil => some []
  | .cons key _ out rest => match denOut out, denFlds rest with
    | some v, some kvs => some ((key, v) :: kvs)
    | _, _ => none
def denOut : ROut → Option V
  | .ok c => denComp c
  | .rerr => some .null
  | .exc => none
end

end PyGql.AsyncExec

namespace PyGql.AsyncExec

/-! ### SPECIFICATION of the field errors (for operations that do not fail as a whole), in the order the
    blocking executor reports them: a `ResolverError` at the field's path, a null in a non-null position
    at that position's path. -/
mutual
def errsComp (path : Path) : Comp → List Err
  | .nonNull c => errsComp path c ++ (match denComp c with | some .null => [⟨path, .nonNull⟩] | _ => [])
  | .list items => errsItems path 0 items
  | .obj fs => errsFlds path fs
  | .null => []
  | .leaf _ => []
  | .bad => []
def errsItems (path : Path) (i : Nat) : Comps → List Err
  | .nil => []
  | .cons c cs => errsComp (path ++ [.idx i]) c ++ errsItems path (i + 1) cs
def errsFlds (path : Path) : Flds → List Err
  | .nil => []
  | .cons key _ out rest => errsOut (path ++ [.key key]) out ++ errsFlds path rest
def errsOut (p : Path) : ROut → List Err
  | .ok c => errsComp p c
  | .rerr => [⟨p, .resolver⟩]
  | .exc => []
end

end PyGql.AsyncExec

/-
  C08 — SPECIFICATION of the response data of an operation in the simplified form, independent of any
  executor, runtime or schedule.  `none` = the execution fails as a whole (an unexpected resolver
  exception or a value `complete_value` rejects occurs somewhere in the operation).

  Readable against GraphQL June 2018 §6.4 (CompleteValue / ExecuteSelectionSet) *as py-gql implements
  it*: a resolver error nulls the field; a null in a non-null position is reported but NOT propagated
  to the parent (py-gql's `_handle_non_nullable_value` returns the null).
-/
import PyGqlModel.ExecOp

namespace PyGql.Exec

mutual
def denComp : Comp → Option V
  | .null => some .null
  | .leaf v => some (.leaf v)
  | .bad => none
  | .nonNull c => denComp c
  | .list items => match denItems items with
    | some vs => some (.list vs)
    | none => none
  | .obj fs => match denFlds fs with
    | some kvs => some (.obj kvs)
    | none => none
def denItems : Comps → Option (List V)
  | .nil => some []
  | .cons c cs => match denComp c, denItems cs with
    | some v, some vs => some (v :: vs)
    | _, _ => none
def denFlds : Flds → Option (List (String × V))
  | .nil => some []
  | .cons key _ out rest => match denOut out, denFlds rest with
    | some v, some kvs => some ((key, v) :: kvs)
    | _, _ => none
def denOut : ROut → Option V
  | .ok c => denComp c
  | .rerr => some .null
  | .exc => none
end

end PyGql.Exec

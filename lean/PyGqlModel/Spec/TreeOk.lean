/-
  C10 — admissible outcome trees (hypothesis of `executed_response_wellformed`), evaluated by the
  driver on every tree recorded from the real executor.
-/
import PyGqlModel.Response
import PyGqlModel.Spec.ResponseSpec

namespace PyGql.Spec.TreeOk
open PyGql PyGql.Response PyGql.Spec.Response

mutual
/-- admissible outcome tree for a text of length `n`: field-node offsets `≤ n`, serialised leaves and
    extensions strict JSON, response keys are names (never the float tag `$float`) -/
def treeOk (n : Nat) : Out → Bool
  | .null => true
  | .leaf v => strict v
  | .list items => treeOkList n items
  | .obj fields => treeOkFields n fields
  | .raised _ ext => match ext with
    | some kvs => strict (.obj kvs)
    | none => true
def treeOkList (n : Nat) : OutList → Bool
  | .nil => true
  | .cons o rest => treeOk n o && treeOkList n rest
def treeOkFields (n : Nat) : FldList → Bool
  | .nil => true
  | .cons key _ nodes o rest => (key != "$float") && nodes.all (fun p => decide (p ≤ n)) && treeOk n o && treeOkFields n rest
end


mutual
/-- the outcome is a value of type `t` (`t` = the field / item type below its non-null wrapper); `atField`: a resolver
    sits directly above (only there an error can have been raised) -/
def typedInner (atField : Bool) (t : Ty) : Out → Bool
  | .null => true
  | .raised _ _ => atField
  | .leaf _ => match t with | .named _ => true | _ => false
  | .list items => match t with | .list it => typedList it items | _ => false
  | .obj fields => match t with | .named _ => typedFields fields | _ => false
def typedList (it : Ty) : OutList → Bool
  | .nil => true
  | .cons o rest => typedInner false (innerTy it) o && typedList it rest
def typedFields : FldList → Bool
  | .nil => true
  | .cons _ ty _ o rest => typedInner true (innerTy ty) o && typedFields rest
end


end PyGql.Spec.TreeOk

/-
  SPECIFICATION side of C06, rule 5.3.2 "Field selection merging", as the CODE computes it but without its search
  order, fuel, and caches: which fields a selection set contains (`Coll`: directly, through inline fragments and -
  transitively - through fragment spreads, each with the PARENT TYPE it is selected on), when two fields of the
  same response name conflict (`Conf` = the specification's FieldsInSetCanMerge / SameResponseShape in the shape of
  graphql-js' `findConflict`: parents mutually exclusive ⇒ only the response shapes must agree), and the clause:
  no selection set of the document contains two conflicting fields.

  Parent types. The code computes the parent type of a selection set along three routes (`Adm`): the type
  `TypeInfoVisitor` shows when the visitor enters the set, the type condition of the fragment whose body it is, the
  type of the field whose sub-selection it is; it caches the FIRST one per selection-set node and uses it from then
  on. On documents on which the routes agree (every otherwise valid document without `__schema` / `__type`
  sub-selections) `Adm i` is a single type; in general the clause quantifies over the admissible ones.
-/
import PyGqlModel.Spec.TypedNodes
namespace PyGql.Validate.Spec
open PyGql PyGql.Validate

/-- `ctx.fragments`: name ↦ (type condition, selection-set node, selections); the last definition of a name wins -/
def fragTable (d : Doc) : AL (String × Nat × List Sel) := (fragDefs d).foldl (fun m f => AL.set m f.1 f.2) []

/-- the response name of a field -/
def responseName (alias : Option String) (name : String) : String :=
  match alias with | some a => if a != "" then a else name | none => name

/-- parent type inside an inline fragment: its type condition if there is one (and the type exists) -/
def inlineParent (s : SchemaD) (parent : Option String) (on : Option String) : Option String :=
  match on with
  | some n => (typeFromAst s (.named n)).map (·.base)
  | none => parent

/-- parent type inside a fragment definition: its type condition (if the type exists) -/
def fragParent (s : SchemaD) (on : String) : Option String := (typeFromAst s (.named on)).map (·.base)

/-- the selection set with node identity `i` and selections `sels` occurs in the document -/
def SelSet (d : Doc) (i : Nat) (sels : List Sel) : Prop := Node.selectionSet i sels ∈ nodes d

/-- fields a selection set contains DIRECTLY: its own fields and those of its inline fragments -/
inductive CollD (s : SchemaD) : Option String → List Sel → String → FEntry → Prop where
  | field {parent : Option String} {sels : List Sel} {alias : Option String} {name : String} {args : List Arg}
      {dirs : List Dir} {hasSub : Bool} {ssid : Nat} {sub : List Sel} :
      Sel.field alias name args dirs hasSub ssid sub ∈ sels →
      CollD s parent sels (responseName alias name)
        { parent, name, args, hasSub, ssid, sub, fdef := parent.bind fun p => ovFieldOf s p name }
  | inline {parent : Option String} {sels : List Sel} {on : Option String} {dirs : List Dir} {id : Nat}
      {sub : List Sel} {rn : String} {e : FEntry} :
      Sel.inline on dirs id sub ∈ sels → CollD s (inlineParent s parent on) sub rn e → CollD s parent sels rn e

/-- fragments a selection set spreads directly (also inside its inline fragments) -/
inductive SpreadD : List Sel → String → Prop where
  | spread {sels : List Sel} {name : String} {dirs : List Dir} : Sel.spread name dirs ∈ sels → SpreadD sels name
  | inline {sels : List Sel} {on : Option String} {dirs : List Dir} {id : Nat} {sub : List Sel} {name : String} :
      Sel.inline on dirs id sub ∈ sels → SpreadD sub name → SpreadD sels name

/-- `Adm s d i p`: `p` is a parent type the code may use for the selection set with node identity `i` -/
inductive Adm (s : SchemaD) (d : Doc) : Nat → Option String → Prop where
  /-- what `TypeInfoVisitor.parent_type` shows inside the set -/
  | walk {i : Nat} {sels : List Sel} {v : View} : (Node.selectionSet i sels, v) ∈ typedNodes s d → Adm s d i v.parent
  /-- the type condition of the fragment whose body the set is -/
  | frag {name on : String} {i : Nat} {sels : List Sel} :
      AL.get? (fragTable d) name = some (on, i, sels) → Adm s d i (fragParent s on)
  /-- the (unwrapped) type of the field whose sub-selection the set is -/
  | sub {i : Nat} {sels : List Sel} {p : Option String} {rn : String} {e : FEntry} :
      Adm s d i p → SelSet d i sels → CollD s p sels rn e → e.hasSub = true →
      Adm s d e.ssid ((e.fdef.map (·.type)).map (·.base))

/-- the fields of fragment `name`, including those of the fragments it spreads, transitively -/
inductive CollF (s : SchemaD) (d : Doc) : String → String → FEntry → Prop where
  | here {name on : String} {fid : Nat} {fsels : List Sel} {p : Option String} {rn : String} {e : FEntry} :
      AL.get? (fragTable d) name = some (on, fid, fsels) → Adm s d fid p → CollD s p fsels rn e → CollF s d name rn e
  | there {name on g : String} {fid : Nat} {fsels : List Sel} {rn : String} {e : FEntry} :
      AL.get? (fragTable d) name = some (on, fid, fsels) → SpreadD fsels g → CollF s d g rn e → CollF s d name rn e

/-- **CollectFields with parent types**: all fields of a selection set selected on `parent` -/
def Coll (s : SchemaD) (d : Doc) (parent : Option String) (sels : List Sel) (rn : String) (e : FEntry) : Prop :=
  CollD s parent sels rn e ∨ ∃ g, SpreadD sels g ∧ CollF s d g rn e

/-- both parent types are known object types and differ: the two fields can never be selected on the same object -/
def exclusiveParents (s : SchemaD) (f1 f2 : FEntry) : Bool :=
  let isObj (p : Option String) : Bool := match p with | some n => isObject s n | none => false
  f1.parent != f2.parent && isObj f1.parent && isObj f2.parent

/-- **two fields with the same response name conflict** (`pme`: the enclosing fields were already mutually
    exclusive): they are not mutually exclusive and differ in name or arguments; or their types have different
    response shapes (`_types_conflict`); or both have sub-selections containing two conflicting fields -/
inductive Conf (s : SchemaD) (d : Doc) : Bool → FEntry → FEntry → Prop where
  | args {pme : Bool} {f1 f2 : FEntry} :
      (pme || exclusiveParents s f1 f2) = false →
      (f1.name ≠ f2.name ∨ sameArguments f1.args f2.args = some false) → Conf s d pme f1 f2
  | types {pme : Bool} {f1 f2 : FEntry} {t1 t2 : Ty} :
      f1.fdef.map (·.type) = some t1 → f2.fdef.map (·.type) = some t2 → typesConflict s t1 t2 = true →
      Conf s d pme f1 f2
  | sub {pme : Bool} {f1 f2 : FEntry} {p1 p2 : Option String} {rn : String} {e1 e2 : FEntry} :
      f1.hasSub = true → f2.hasSub = true → Adm s d f1.ssid p1 → Adm s d f2.ssid p2 →
      Coll s d p1 f1.sub rn e1 → Coll s d p2 f2.sub rn e2 →
      Conf s d (pme || exclusiveParents s f1 f2) e1 e2 → Conf s d pme f1 f2
  /-- the same with the two sub-fields compared in the other order (the search compares the fields of one
      sub-selection with the fragments of the other in both directions) -/
  | subSwap {pme : Bool} {f1 f2 : FEntry} {p1 p2 : Option String} {rn : String} {e1 e2 : FEntry} :
      f1.hasSub = true → f2.hasSub = true → Adm s d f1.ssid p1 → Adm s d f2.ssid p2 →
      Coll s d p1 f1.sub rn e1 → Coll s d p2 f2.sub rn e2 →
      Conf s d (pme || exclusiveParents s f1 f2) e2 e1 → Conf s d pme f1 f2

/-- **5.3.2 Field selection merging**: in no selection set of the document do two fields of the same response name
    conflict -/
def overlappingFieldsCanBeMerged (s : SchemaD) (d : Doc) : Prop :=
  ∀ i sels, SelSet d i sels → ∀ p, Adm s d i p →
    ∀ rn e1 e2, Coll s d p sels rn e1 → Coll s d p sels rn e2 → ¬ Conf s d false e1 e2

/-- the three routes to the parent type of a selection set agree -/
def ParentsAgree (s : SchemaD) (d : Doc) : Prop := ∀ i p q, Adm s d i p → Adm s d i q → p = q

end PyGql.Validate.Spec

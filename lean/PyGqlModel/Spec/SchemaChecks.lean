/-
  C05 / C04 — COMPUTABLE forms of the schema hypotheses of the soundness chain (`SchemaOk`, `SchemaWf`, `RootsAreObjects`,
  `TypesWf`): facts of a VALID schema (schema validation is C13's), evaluated by the driver on every schema a request is
  executed against and reported with the answer (`schema_checks`). Sound for the declarative hypotheses:
  `Props/C05_schema.lean`.
-/
import PyGqlModel.ExecTypes
import PyGqlModel.Validate.WfSchema

namespace PyGql.Spec
open PyGql PyGql.Exec

/-- every field of every type has a known type that is not an input object -/
def schemaKindsB (s : SchemaD) : Bool :=
  s.types.all fun t => t.fields.all fun fd =>
    match kindOf s fd.type.base with
    | some k => k != .input
    | none => false

def underB (s : SchemaD) (rt T : String) : Bool := rt == T || isPossibleType s T rt

/-- every runtime type under `B'` is under `B` (finite: `B'` itself and its possible types) -/
def subUnderB (s : SchemaD) (B' B : String) : Bool :=
  underB s B' B && (possibleTypes s B').all fun rt => underB s rt B

/-- possible types define every field of the abstract type, at a type whose runtime types are runtime types of the
    abstract field's type (covariance) -/
def schemaCovB (s : SchemaD) : Bool :=
  s.types.all fun ti => (possibleTypes s ti.name).all fun o => ti.fields.all fun fd =>
    match fieldOf s o fd.name with
    | some fd' => subUnderB s fd'.type.base fd.type.base
    | none => false

/-- the root operation types the schema names are object types -/
def rootsObjectsB (s : SchemaD) : Bool :=
  [s.query, s.mutation, s.subscription].all fun r =>
    match r with
    | some n => Validate.isObject s n
    | none => true

def typesWfB (s : SchemaD) : Bool := s.types.all fun t => t.fields.all fun fd => fd.type.wf

/-- only object and interface types carry fields (hypothesis `FieldOwners` of `Props/C05_overlap.lean`) -/
def fieldOwnersB (s : SchemaD) : Bool :=
  s.types.all fun t => t.fields.isEmpty || t.kind == .object || t.kind == .interface

def schemaChecksB (s : SchemaD) : Bool :=
  schemaKindsB s && schemaCovB s && rootsObjectsB s && Validate.schemaOutputsB s && Validate.isLeaf s "String" && typesWfB s

/-- the schema description WITH the five built-in scalars listed (as the validator's dump lists them; the executor's
    accessors treat a missing built-in as a scalar anyway: `Exec.kindOf`). The bridge theorems use ONE description for
    validator and executor: they are about descriptions of this form. -/
def withBuiltins (s : SchemaD) : SchemaD :=
  { s with types := s.types ++ (builtinScalars.filter fun n => (s.findType n).isNone).map fun n => { kind := .scalar, name := n } }

/-- the executor-side checks only (they read the schema through `Exec.kindOf` / `fieldOf` / `possibleTypes`) -/
def schemaChecksExecB (s : SchemaD) : Bool := schemaKindsB s && schemaCovB s && typesWfB s

end PyGql.Spec

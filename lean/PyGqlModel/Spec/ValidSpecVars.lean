/-
  SPECIFICATION side of C06, the four VARIABLE rules of §5.8 of the June-2018 specification, as predicates over
  (schema, document); nothing here mentions visitors, stacks or accumulators.

  One deliberate deviation from the letter of the specification, because it is what the CODE implements:
  `VariablesCollector` identifies an operation by its NAME (`""` for the anonymous one) and a fragment by its name.
  Two operations with the same name (which 5.2.1.1 / 5.2.2.1 forbid) therefore share their variable definitions
  and usages, and several definitions of one fragment name (5.5.1.1 forbids them) are merged. The clauses below
  are written per operation KEY and per fragment NAME; on documents with unique names they are the clauses of
  the specification (`*_per_operation` in Props/C06_vars.lean).
-/
import PyGqlModel.Spec.TypedNodes
namespace PyGql.Validate.Spec
open PyGql PyGql.Validate

/-- **5.8.1 Variable uniqueness**: the variables of every operation are pairwise distinct -/
def uniqueVariableNames (d : Doc) : Prop :=
  ∀ x ∈ d.defs, ∀ k n vs ds i ss, x = Def.op k n vs ds i ss → (vs.map (·.name)).Nodup

/-! ### where variables are used -/

mutual
/-- the variables occurring in a value -/
def varsOfValue : Value → List String
  | .var x => [x]
  | .list vs => varsOfValues vs
  | .obj fs => varsOfObjFields fs
  | _ => []
def varsOfValues : List Value → List String
  | [] => []
  | v :: vs => varsOfValue v ++ varsOfValues vs
def varsOfObjFields : List ObjField → List String
  | [] => []
  | .mk _ v :: fs => varsOfValue v ++ varsOfObjFields fs
end

/-- key under which `VariablesCollector` files an operation: its name, `""` for the anonymous operation -/
def _root_.PyGql.Validate.Def.opKey? : Def → Option String
  | .op _ name .. => some (name.getD "")
  | _ => none
def _root_.PyGql.Validate.Def.fragName? : Def → Option String
  | .frag name .. => some name
  | _ => none
def _root_.PyGql.Validate.Def.vars : Def → List VarDef
  | .op _ _ vars .. => vars
  | _ => []

/-- variables used in a definition: in the value of an argument of a field or of a directive (anywhere in the
    definition, nested selections included; default values of variable definitions are not usages) -/
def defVarUses (x : Def) : List String :=
  (defNodes x).flatMap fun | .argument a => varsOfValue a.value | _ => []
/-- fragments spread in a definition (at any depth) -/
def defSpreads (x : Def) : List String :=
  (defNodes x).flatMap fun | .spread f _ => [f] | _ => []

/-- operation `o` declares variable `x` -/
def DefinedIn (d : Doc) (o x : String) : Prop := ∃ df ∈ d.defs, df.opKey? = some o ∧ x ∈ df.vars.map (·.name)
def UsedDirectly (d : Doc) (o x : String) : Prop := ∃ df ∈ d.defs, df.opKey? = some o ∧ x ∈ defVarUses df
def FragUses (d : Doc) (f x : String) : Prop := ∃ df ∈ d.defs, df.fragName? = some f ∧ x ∈ defVarUses df
def OpSpreads (d : Doc) (o g : String) : Prop := ∃ df ∈ d.defs, df.opKey? = some o ∧ g ∈ defSpreads df
def FragSpreads (d : Doc) (f g : String) : Prop := ∃ df ∈ d.defs, df.fragName? = some f ∧ g ∈ defSpreads df

/-- `FragReach d f h`: fragment `h` is `f` or is reached from `f` through fragment spreads -/
inductive FragReach (d : Doc) : String → String → Prop where
  | refl (f : String) : FragReach d f f
  | step {f g h : String} : FragSpreads d f g → FragReach d g h → FragReach d f h

/-- operation `o` spreads fragment `f`, directly or transitively -/
def OpReaches (d : Doc) (o f : String) : Prop := ∃ g, OpSpreads d o g ∧ FragReach d g f

/-- variable `x` is used by operation `o`: directly, or in a fragment the operation spreads (transitively) -/
def UsedIn (d : Doc) (o x : String) : Prop := UsedDirectly d o x ∨ ∃ f, OpReaches d o f ∧ FragUses d f x

/-- **5.8.3 All variable uses defined** -/
def noUndefinedVariables (d : Doc) : Prop := ∀ o x, UsedIn d o x → DefinedIn d o x
/-- **5.8.4 All variables used** -/
def noUnusedVariables (d : Doc) : Prop := ∀ o x, DefinedIn d o x → UsedIn d o x

/-! ### positions of variable usages (5.8.5) -/

/-- position of the items of a list value: the ITEM type of the list type expected (`TI.itemOf`: one non-null
    wrapper and one list level removed; before proposed_fixes/C06-enter-list-value.patch py-gql unwrapped down to the
    NAMED type, whatever the nesting); list items never have a default -/
def listItemPos (s : SchemaD) (p : Usage) : Usage :=
  { inputType := TI.inOnly s (p.inputType.map TI.itemOf), locDefault := false }

/-- position of the value of field `name` of an input-object value -/
def objFieldPos (s : SchemaD) (p : Usage) (name : String) : Usage :=
  match p.inputType.map (·.base) with
  | some n =>
    if isInputObject s n then
      let fd := (inputFields s n).find? (·.name == name)
      { inputType := TI.inOnly s (fd.map (·.type)), locDefault := (fd.map (·.hasDefault)).getD false }
    else { inputType := none, locDefault := false }
  | none => { inputType := none, locDefault := false }

/-- position of the value of argument `name` given to the enclosing directive, else to the enclosing field -/
def argPos (s : SchemaD) (v : View) (name : String) : Usage :=
  let args : Option (List ArgD) :=
    match v.directive with
    | some d => some d.args
    | none => v.field.map (·.args)
  match args with
  | some as =>
    let a := as.find? (·.name == name)
    { inputType := TI.inOnly s (a.map (·.type)), locDefault := (a.map (·.hasDefault)).getD false }
  | none => { inputType := none, locDefault := false }

mutual
/-- the variable usages inside a value standing at position `p`, each with its own position -/
def usesValue (s : SchemaD) : Usage → Value → List (String × Usage)
  | p, .var x => [(x, p)]
  | p, .list vs => usesValues s (listItemPos s p) vs
  | p, .obj fs => usesObjFields s p fs
  | _, _ => []
def usesValues (s : SchemaD) : Usage → List Value → List (String × Usage)
  | _, [] => []
  | p, v :: vs => usesValue s p v ++ usesValues s p vs
def usesObjFields (s : SchemaD) : Usage → List ObjField → List (String × Usage)
  | _, [] => []
  | p, .mk n v :: fs => usesValue s (objFieldPos s p n) v ++ usesObjFields s p fs
end

/-- usages of one (node, static context) pair: those in the value of an argument -/
def nodeUsages (s : SchemaD) : Node × View → List (String × Usage)
  | (.argument a, v) => usesValue s (argPos s v a.name) a.value
  | _ => []

/-- all variable usages of a definition with their positions -/
def defUsages (s : SchemaD) (x : Def) : List (String × Usage) := (tnDef s x).flatMap (nodeUsages s)

/-- variable `x` is used at position `u` by operation `o` (directly or through spread fragments) -/
def UsedAt (s : SchemaD) (d : Doc) (o x : String) (u : Usage) : Prop :=
  (∃ df ∈ d.defs, df.opKey? = some o ∧ (x, u) ∈ defUsages s df) ∨
  ∃ f, OpReaches d o f ∧ ∃ df ∈ d.defs, df.fragName? = some f ∧ (x, u) ∈ defUsages s df

/-- the definition of `$x` that operation `o` is checked against: the LAST one (relevant only when 5.8.1 or
    operation-name uniqueness is violated) -/
def varDefFor (d : Doc) (o x : String) : Option VarDef :=
  (d.defs.flatMap fun df => if df.opKey? = some o then df.vars else []).reverse.find? (·.name == x)

/-- the variable has a default value other than `null` -/
def _root_.PyGql.Validate.VarDef.hasNonNullDefault (vd : VarDef) : Bool :=
  match vd.default with | none => false | some .null => false | some _ => true

/-- what `VariablesInAllowedPositionChecker` accepts for a variable of declared type `vd.type` at a position
    expecting `it` (nothing is checked when the position has no known input type or the declared type is
    unknown): the declared type must be a subtype (`Schema.is_subtype`) of the expected type, except that a
    NULLABLE variable is accepted at a NON-NULL position `T!` when it is a subtype of `T` and either the variable
    has a non-null default or the position (argument / input field) has a default -/
def usageAllowed (s : SchemaD) (vd : VarDef) (u : Usage) : Prop :=
  ∀ it, u.inputType = some it → ∀ vt, typeFromAst s vd.type = some vt →
    match it, vt.isNonNull with
    | .nonNull inner, false => (vd.hasNonNullDefault = true ∨ u.locDefault = true) ∧ isSubtype s vt inner = true
    | _, _ => isSubtype s vt it = true

/-- **5.8.5 All variable usages are allowed** (as implemented) -/
def variablesInAllowedPosition (s : SchemaD) (d : Doc) : Prop :=
  ∀ o x u vd, UsedAt s d o x u → varDefFor d o x = some vd → usageAllowed s vd u

/-! ### the same clauses per operation DEFINITION (the wording of the specification); equivalent to the clauses
    above when operation names are unique (`Props/C06_vars.lean: *_per_operation`) -/

/-- variable `x` is used by the operation definition `df`: in its own directives / selections, or in a fragment
    reached from one of its spreads -/
def UsedByOp (d : Doc) (df : Def) (x : String) : Prop :=
  x ∈ defVarUses df ∨ ∃ f, (∃ g, g ∈ defSpreads df ∧ FragReach d g f) ∧ FragUses d f x

def noUndefinedVariablesPerOp (d : Doc) : Prop :=
  ∀ df ∈ d.defs, df.opKey?.isSome = true → ∀ x, UsedByOp d df x → x ∈ df.vars.map (·.name)
def noUnusedVariablesPerOp (d : Doc) : Prop :=
  ∀ df ∈ d.defs, df.opKey?.isSome = true → ∀ x ∈ df.vars.map (·.name), UsedByOp d df x

/-- operation keys (names, `""` for an anonymous operation) are pairwise distinct -/
def uniqueOpKeys (d : Doc) : Prop := (d.defs.filterMap Def.opKey?).Nodup

/-- variable `x` is used at position `u` by the operation definition `df` -/
def UsedAtByOp (s : SchemaD) (d : Doc) (df : Def) (x : String) (u : Usage) : Prop :=
  (x, u) ∈ defUsages s df ∨
  ∃ f, (∃ g, g ∈ defSpreads df ∧ FragReach d g f) ∧ ∃ df' ∈ d.defs, df'.fragName? = some f ∧ (x, u) ∈ defUsages s df'

/-- 5.8.5 per operation definition: every usage is allowed for THE definition of the variable -/
def variablesInAllowedPositionPerOp (s : SchemaD) (d : Doc) : Prop :=
  ∀ df ∈ d.defs, df.opKey?.isSome = true → ∀ x u, UsedAtByOp s d df x u →
    ∀ vd ∈ df.vars, vd.name = x → usageAllowed s vd u

end PyGql.Validate.Spec

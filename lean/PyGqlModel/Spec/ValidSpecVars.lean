/-
  SPECIFICATION side of C06, the four VARIABLE rules of §5.8 of the June-2018 specification, as predicates over
  (schema, document); nothing here mentions visitors, stacks or accumulators.

  One deliberate deviation from the letter of the specification, because it is what the CODE implements:
  `VariablesCollector` identifies an operation by its NAME (`""` for the anonymous one) and a fragment by its name.
  Two operations with the same name (which 5.2.1.1 / 5.2.2.1 forbid) therefore share their variable definitions
  and usages, and several definitions of one fragment name (5.5.1.1 forbids them) are merged. The clauses below
  are written per operation KEY and per fragment NAME; on documents with unique names they are the clauses of
  the specification (`*_of_unique` in Props/C06_vars.lean).
-/
import PyGqlModel.Spec.TypedNodes
namespace PyGql.Validate.Spec
open PyGql PyGql.Validate

/-- **5.8.1 Variable uniqueness**: the variables of every operation are pairwise distinct -/
def uniqueVariableNames (d : Doc) : Prop :=
  ∀ x ∈ d.defs, ∀ k n vs ds i ss, x = Def.op k n vs ds i ss → (vs.map (·.name)).Nodup

end PyGql.Validate.Spec

/-
  C11 — SPECIFICATION: the type-system rules a member of a type-system document has to satisfy for the builder
  (GraphQL spec §3 "Type System": every referenced type is defined or built-in; a default value is a constant of
  the declared input type; `@deprecated(reason: String = "No longer supported")`; enum values are unique and are not
  `true` / `false` / `null`).  Written as NAMED CLAUSES over the definitions — no `build*` function of the model is
  mentioned.  The only shared piece is the coercion of constants `valueFromAst` behind `CoercesTo` (its theorems
  against the declarative coercion specification belong to C07).

  `Props/C11_rules.lean` proves that the model's member builders succeed EXACTLY on the members that satisfy these
  clauses (`buildTypeDef_ok_iff`, `buildDirective_ok_iff`), so `SdlValid.declares` is equivalent to them
  (`declares_iff_rules`).
-/
import PyGqlModel.Sdl

namespace PyGql.SdlSpec
open PyGql PyGql.Sdl

/-- the name is known where the definitions are built: a specified type (built-in scalar, introspection type), a
    supplied type, or a type defined in the document -/
def Known (env : Env) (n : String) : Prop :=
  isDefaultName n = true ∨ (∃ t, env.findAdditional n = some t) ∨ (∃ d, env.findDef n = some d)

/-- the same for the by-name view of a list of definitions and supplied types: membership of the NAME -/
def KnownIn (defs : List TypeDef) (add : List TypeD) (n : String) : Prop :=
  isDefaultName n = true ∨ n ∈ add.map (·.name) ∨ n ∈ defs.map (·.name)

/-- the literal `lit` is a constant of the input type `ty`, with value `v` (shared coercion, see the header) -/
def CoercesTo (env : Env) (ty : Ty) (lit : Lit) (v : J) : Prop := valueFromAst env coerceFuel lit ty = some (some v)

/-- `@deprecated` (the first application counts) carries no `reason`, `reason: null` or a String literal -/
def DeprecatedOK (dirs : List DirApp) : Prop :=
  ∀ d, dirs.find? (·.name == "deprecated") = some d → ∀ l, lookupLast d.args "reason" = some l → l = .null ∨ ∃ s, l = .str s

/-- an argument / input field: its type is known and its default literal, if any, is a constant of that type -/
def ArgOK (env : Env) (a : InputValDef) : Prop :=
  Known env a.type.base ∧ ∀ l, a.default = some l → ∃ v, CoercesTo env a.type l v

def FieldOK (env : Env) (f : FieldDef) : Prop :=
  Known env f.type.base ∧ (∀ a ∈ f.args, ArgOK env a) ∧ DeprecatedOK f.dirs

def EnumValueOK (v : EnumValDef) : Prop := v.name ∉ reservedEnumNames ∧ DeprecatedOK v.dirs

/-- the rules of one (merged) type definition, by kind -/
def TypeDefOK (env : Env) (d : TypeDef) : Prop :=
  match d.kind with
  | .scalar => True
  | .object => (∀ f ∈ d.fields, FieldOK env f) ∧ ∀ i ∈ d.interfaces, Known env i
  | .interface => ∀ f ∈ d.fields, FieldOK env f
  | .union => ∀ m ∈ d.members, Known env m
  | .enum => (d.values.map (·.name)).Nodup ∧ ∀ v ∈ d.values, EnumValueOK v
  | .input => ∀ f ∈ d.inputFields, ArgOK env f

def DirDefOK (env : Env) (d : DirDef) : Prop := ∀ a ∈ d.args, ArgOK env a

end PyGql.SdlSpec

/-
  C10 — SPECIFICATION side of `null_error_bijection`: the response positions the statement talks
  about, read off the typed outcome tree WITHOUT running the executor model:

    * a field whose resolver raised the library's resolver error, and
    * a position of non-null type whose completed value is null
      (resolver returned `None`, or the serialiser produced `None`).

  Paths are relative to the node; children are visited in execution order.
-/
import PyGqlModel.Response

namespace PyGql.Spec.NullSites
open PyGql PyGql.Response

/-- the value completes to `null` (lists and objects never do) -/
def completesNull : Out → Bool
  | .null => true
  | .leaf v => v.isNull
  | .raised _ _ => true
  | _ => false

mutual
/-- sites strictly below a value of (non-null-stripped) type `t` -/
def sitesInner (t : Ty) : Out → List Path
  | .list items => (match t with
    | .list it => sitesList it 0 items
    | _ => [])
  | .obj fields => sitesFields fields
  | _ => []
def sitesList (it : Ty) (i : Nat) : OutList → List Path
  | .nil => []
  | .cons o rest =>
    ((sitesInner (innerTy it) o ++ (if it.isNonNull && completesNull o then [[]] else [])).map (Seg.idx i :: ·))
      ++ sitesList it (i + 1) rest
def sitesFields : FldList → List Path
  | .nil => []
  | .cons key ty _ o rest =>
    ((sitesInner (innerTy ty) o ++ (if o.isRaised || (ty.isNonNull && completesNull o) then [[]] else [])).map (Seg.key key :: ·))
      ++ sitesFields rest
end

/-- response keys are pairwise distinct in every executed object (the executor groups fields by
    response key) -/
def keysOf : FldList → List String
  | .nil => []
  | .cons k _ _ _ rest => k :: keysOf rest

mutual
def keysDistinct : Out → Bool
  | .list items => keysDistinctList items
  | .obj fields => decide (keysOf fields).Nodup && keysDistinctFields fields
  | _ => true
def keysDistinctList : OutList → Bool
  | .nil => true
  | .cons o rest => keysDistinct o && keysDistinctList rest
def keysDistinctFields : FldList → Bool
  | .nil => true
  | .cons _ _ _ o rest => keysDistinct o && keysDistinctFields rest
end

end PyGql.Spec.NullSites

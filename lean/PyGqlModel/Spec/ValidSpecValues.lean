/-
  SPECIFICATION side of C06, rule 5.6.1 "Values of correct type", in two forms:

  * `valuesOfCorrectType` - the clause the CODE implements, literal by literal, each literal looked at in its
    static INPUT CONTEXT (`IView`: expected type of the position and of the enclosing position), computed by
    plain recursion (`IView.enter`), no stacks. Deviation from the specification, stated explicitly (ledger V8):
    a LIST literal is never checked itself (`[1]` is accepted where `Int` is expected); its items are checked
    against the ITEM type of the expected list type (`listItemPos`, `TI.itemOf`; since
    proposed_fixes/C06-enter-list-value.patch `[null]` is reported where `[Int!]` is expected).
  * `valuesCoercible` - the clause of the specification (every literal argument value is coercible to the
    argument's type, June-2018 §3.9 / §5.6.1) - which the code does NOT implement:
    `Props/C06_values.lean: values_spec_clause_refuted`.
-/
import PyGqlModel.Spec.ValidSpecVars
import PyGqlModel.Spec.CtxNodes
namespace PyGql.Validate.Spec
open PyGql PyGql.Validate

/-- static input context of a node -/
structure IView where
  /-- output side: enclosing field / directive definitions (they determine the type of an argument) -/
  view : View := {}
  /-- the input type expected at this position, if known -/
  input : Option Ty := none
  /-- the input type expected at the ENCLOSING position (for the field of an object literal: of the literal) -/
  outer : Option Ty := none

/-- the context in which the children of `n` live and in which the rule looks at `n` itself -/
def IView.enter (s : SchemaD) (n : Node) (w : IView) : IView :=
  match n with
  | .varDef v => { view := View.enter s n w.view, input := TI.inOnly s (typeFromAst s v.type), outer := w.input }
  | .argument a => { view := View.enter s n w.view, input := (argPos s w.view a.name).inputType, outer := w.input }
  | .value (.list _) =>
    { view := View.enter s n w.view, input := (listItemPos s ⟨w.input, false⟩).inputType, outer := w.input }
  | .objField name =>
    { view := View.enter s n w.view, input := (objFieldPos s ⟨w.input, false⟩ name).inputType, outer := w.input }
  | _ => { w with view := View.enter s n w.view }

/-- every node below the document with its static input context -/
def inputNodes (s : SchemaD) (d : Doc) : List (Node × IView) := gnDoc (IView.enter s) {} d

/-- `TypeInfoVisitor.parent_input_type`: the input-object type of the enclosing position
    (before fix V9 only when that type is not wrapped in list / non-null) -/
def IView.outerObject (s : SchemaD) (fx : Fixes) (w : IView) : Option String :=
  match w.outer with
  | some ty =>
    if fx.v9 then (if isInputObject s ty.base then some ty.base else none)
    else match ty with
      | .named n => if isInputObject s n then some n else none
      | _ => none
  | none => none

/-- does the scalar's `parse_literal` accept the literal? Specified scalars: the table of `schema/scalars.py`
    (`Int` within 32 bits; `Float` takes ints; `ID` takes strings and ints). Custom scalars (built from SDL,
    `parse_literal = _untyped_literal`, /repo a2b8a10) take every literal: `null`, list and object literals included -/
def scalarAccepts (scalar : String) (v : Value) : Bool :=
  if specifiedScalars.contains scalar then
    match scalar, v with
    | "Int", .int str => intInRange str
    | "Float", .float _ => true
    | "Float", .int _ => true
    | "String", .str _ => true
    | "Boolean", .bool _ => true
    | "ID", .str _ => true
    | "ID", .int _ => true
    | _, _ => false
  else
    match v with
    | .var _ => false
    | _ => true

/-- a literal where a scalar is expected -/
def scalarLiteralOk (s : SchemaD) (w : IView) (v : Value) : Prop :=
  ∀ it, w.input = some it → isScalar s it.base = true ∧ scalarAccepts it.base v = true

/-- what the rule requires of one node in its context -/
def valueNodeOk (s : SchemaD) (fx : Fixes) : Node → IView → Prop
  | .value (.int x), w => scalarLiteralOk s w (.int x)
  | .value (.float x), w => scalarLiteralOk s w (.float x)
  | .value (.str x), w => scalarLiteralOk s w (.str x)
  | .value (.bool x), w => scalarLiteralOk s w (.bool x)
  /- `null` is rejected exactly where the expected type is non-null -/
  | .value .null, w => ∀ t, w.input ≠ some (.nonNull t)
  /- an enum literal: a value of the expected enum; where a scalar is expected, whatever the scalar accepts -/
  | .value (.enum x), w =>
    ∀ it, w.input = some it →
      (isEnum s it.base = true → enumHas s it.base x = true) ∧
      (isEnum s it.base = false → isScalar s it.base = true ∧ scalarAccepts it.base (.enum x) = true)
  /- an object literal: the expected type is an input object and every required field is given -/
  | .value (.obj fs), w =>
    ∀ it, w.input = some it →
      (isInputObject s it.base = true ∧
        ∀ fd ∈ inputFields s it.base, ArgD.required fd = true → fd.name ∈ fs.map (·.name)) ∨
      /- or a (custom) scalar that takes object literals -/
      (isInputObject s it.base = false ∧ isScalar s it.base = true ∧ scalarAccepts it.base (.obj fs) = true)
  /- a field of an object literal whose expected type is a known input object: the field is defined (with an
     input type) -/
  | .objField _, w => w.input = none → w.outerObject s fx = none
  /- list literals and variables are not checked here (ledger V8; variables: 5.8.5) -/
  | _, _ => True

/-- **5.6.1 Values of correct type, as implemented** -/
def valuesOfCorrectType (s : SchemaD) (fx : Fixes) (d : Doc) : Prop :=
  ∀ p ∈ inputNodes s d, valueNodeOk s fx p.1 p.2

/-! ### the clause of the specification (for the refutation) -/

/-- input coercion of a literal (June-2018 §3.9, §3.11, §3.12), decidable; structural in the expected type.
    (Object literals: only the presence of the required fields is asked - coarser than the specification, which
    makes the refutation below stronger, not weaker.) -/
def coercible (s : SchemaD) : Ty → Value → Bool
  | .nonNull t, v => (match v with | .null => false | _ => coercible s t v)
  | .list t, v =>
    (match v with
      | .var _ => true
      | .null => true
      | .list vs => vs.all fun x => coercible s t x
      | _ => coercible s t v)
  | .named n, v =>
    (match v with
      | .var _ => true
      | .null => true
      | .list _ => false
      | .obj fs =>
        isInputObject s n && (inputFields s n).all (fun fd => !ArgD.required fd || (fs.map (·.name)).contains fd.name)
      | .enum x => if isEnum s n then enumHas s n x else isScalar s n && scalarAccepts n (.enum x)
      | _ => isScalar s n && scalarAccepts n v)

/-- **5.6.1 as the specification has it** (restricted to the values of arguments whose type is known):
    the literal is coercible to the argument's type -/
def valuesCoercible (s : SchemaD) (d : Doc) : Prop :=
  ∀ p ∈ typedNodes s d, ∀ a, p.1 = Node.argument a →
    ∀ t, (argPos s p.2 a.name).inputType = some t → coercible s t a.value = true

end PyGql.Validate.Spec

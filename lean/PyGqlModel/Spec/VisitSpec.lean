/-
  C18 — SPECIFICATION: what a visit of a tree is supposed to do, independent of the traversal table.

  * `events t`  : enter/leave of EVERY non-name node, pre/post-order, siblings in attribute (= source) order;
  * `editAt p e t` : the tree with the node at path `p` deleted (list member removed / single child set to
                   `None`) or replaced.
-/
import PyGqlModel.Visit

namespace PyGql.Visit.Spec
open PyGql.Visit

mutual
def events : Node → List Ev
  | .mk k i a => if k == "Name" then [] else ⟨true, .mk k i a⟩ :: eventsAttrs a ++ [⟨false, .mk k i a⟩]
def eventsAttrs : List (String × Attr) → List Ev
  | [] => []
  | (_, a) :: r => eventsAttr a ++ eventsAttrs r
def eventsAttr : Attr → List Ev
  | .scalar _ => []
  | .one none => []
  | .one (some c) => events c
  | .many cs => eventsList cs
def eventsList : List Node → List Ev
  | [] => []
  | c :: r => events c ++ eventsList r
end

inductive Edit where
  | delete
  | replace (r : Node)

/-- a path is a list of (attribute, index in the list / `none` for a single child). `none` = no such position;
    `some none` = the node itself is deleted. -/
def editAt : List (String × Option Nat) → Edit → Node → Option (Option Node)
  | [], .delete, _ => some none
  | [], .replace r, _ => some (some r)
  | (a, none) :: p, e, n =>
    match n.getAttr a with
    | some (.one (some c)) => (editAt p e c).map fun c' => some (n.setAttr a (.one c'))
    | _ => none
  | (a, some i) :: p, e, n =>
    match n.getAttr a with
    | some (.many cs) =>
      match cs[i]? with
      | some c => (editAt p e c).map fun c' =>
          some (n.setAttr a (.many (match c' with | some x => cs.set i x | none => cs.eraseIdx i)))
      | none => none
    | _ => none

/-- the node at a path -/
def nodeAt : List (String × Option Nat) → Node → Option Node
  | [], n => some n
  | (a, none) :: p, n =>
    match n.getAttr a with
    | some (.one (some c)) => nodeAt p c
    | _ => none
  | (a, some i) :: p, n =>
    match n.getAttr a with
    | some (.many cs) => match cs[i]? with | some c => nodeAt p c | none => none
    | _ => none

end PyGql.Visit.Spec

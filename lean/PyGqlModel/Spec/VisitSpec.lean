/-
  C18 — SPECIFICATION: what a visit of a tree is supposed to do, independent of the traversal table.

  * `events t`  : enter/leave of EVERY non-name node, pre/post-order, siblings in attribute (= source) order;
  * `editAt p e t` : the tree with the node at path `p` deleted (list member removed / single child set to
                   `None`) or replaced.
-/
import PyGqlModel.Visit

namespace PyGql.Visit.Spec
open PyGql.Visit

mutual
def events : Node → List Ev
  | .mk k i a => if k == "Name" then [] else ⟨true, .mk k i a⟩ :: eventsAttrs a ++ [⟨false, .mk k i a⟩]
def eventsAttrs : List (String × Attr) → List Ev
  | [] => []
  | (_, a) :: r => eventsAttr a ++ eventsAttrs r
def eventsAttr : Attr → List Ev
  | .scalar _ => []
  | .one none => []
  | .one (some c) => events c
  | .many cs => eventsList cs
def eventsList : List Node → List Ev
  | [] => []
  | c :: r => events c ++ eventsList r
end

inductive Edit where
  | delete
  | replace (r : Node)

/-- a path is a list of (attribute, index in the list / `none` for a single child). `none` = no such position;
    `some none` = the node itself is deleted. -/
def editAt : List (String × Option Nat) → Edit → Node → Option (Option Node)
  | [], .delete, _ => some none
  | [], .replace r, _ => some (some r)
  | (a, none) :: p, e, n =>
    match n.getAttr a with
    | some (.one (some c)) => (editAt p e c).map fun c' => some (n.setAttr a (.one c'))
    | _ => none
  | (a, some i) :: p, e, n =>
    match n.getAttr a with
    | some (.many cs) =>
      match cs[i]? with
      | some c => (editAt p e c).map fun c' =>
          some (n.setAttr a (.many (match c' with | some x => cs.set i x | none => cs.eraseIdx i)))
      | none => none
    | _ => none

/-- the node at a path -/
def nodeAt : List (String × Option Nat) → Node → Option Node
  | [], n => some n
  | (a, none) :: p, n =>
    match n.getAttr a with
    | some (.one (some c)) => nodeAt p c
    | _ => none
  | (a, some i) :: p, n =>
    match n.getAttr a with
    | some (.many cs) => match cs[i]? with | some c => nodeAt p c | none => none
    | _ => none

/-! ### the IMPLEMENTED traversal, visitor-free

  `walk T m n`: `enter n`, then for every statement of method `m` (in the order of the source) the walks of the
  children held by that attribute, then `leave n` — i.e. the pre/post-order over the child relation that the
  table implements. Each node reachable through that relation contributes exactly one `enter` and one `leave`. -/

def walkList (g : Node → Res (List Ev)) : List Node → Res (List Ev)
  | [] => .ok []
  | c :: cs =>
    match g c with
    | .err e => .err e
    | .fuel => .fuel
    | .ok t1 =>
      match walkList g cs with
      | .err e => .err e
      | .fuel => .fuel
      | .ok t2 => .ok (t1 ++ t2)

def walkStep (call : Target → Node → Res (List Ev)) (st : Step) (n : Node) : Res (List Ev) :=
  if !st.applies n.kind then .ok [] else
  match n.getAttr st.attr with
  | none => .err "AttributeError"
  | some a =>
    match st.shape, a with
    | .one, .one none => if st.guard == .always then .err "NoneNode" else .ok []
    | .one, .one (some c) => call st.target c
    | .many, .many cs => walkList (call st.target) cs
    | _, _ => .err "ShapeError"

def walkSteps (call : Target → Node → Res (List Ev)) : List Step → Node → Res (List Ev)
  | [], _ => .ok []
  | st :: rest, n =>
    match walkStep call st n with
    | .err e => .err e
    | .fuel => .fuel
    | .ok t1 =>
      match walkSteps call rest n with
      | .err e => .err e
      | .fuel => .fuel
      | .ok t2 => .ok (t1 ++ t2)

def walkTarget (T : Table) (rec : String → Node → Res (List Ev)) (tgt : Target) (c : Node) : Res (List Ev) :=
  match resolve T tgt c.kind with
  | .ok m => rec m c
  | .error e => .err e

def walk (T : Table) : Nat → String → Node → Res (List Ev)
  | 0, _, _ => .fuel
  | fuel + 1, m, n =>
    match T.methods.lookup m with
    | none => .err "NoMethod"
    | some steps =>
      match walkSteps (walkTarget T (walk T fuel)) steps n with
      | .err e => .err e
      | .fuel => .fuel
      | .ok body => .ok (⟨true, n⟩ :: body ++ [⟨false, n⟩])

/-- the implemented events of a tree visited through `ASTVisitor.visit` -/
def implEvents (T : Table) (fuel : Nat) (n : Node) : Res (List Ev) :=
  match T.visit.lookup n.kind with
  | none => .err "TypeError"
  | some m => walk T fuel m n

end PyGql.Visit.Spec

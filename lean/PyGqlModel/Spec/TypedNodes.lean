/-
  SPECIFICATION side: every node of a document together with its STATIC CONTEXT, computed by plain
  structural recursion with explicit parameters (no stacks): the type in scope, the parent type of the
  enclosing selection set, the definition of the enclosing field and of the enclosing directive.
  This is what "field f is selected on parent type T" / "argument a is given to directive @d" mean.
-/
import PyGqlModel.Spec.ValidSpec
import PyGqlModel.Validate.TypeInfo
namespace PyGql.Validate.Spec
open PyGql PyGql.Validate

structure View where
  /-- the (possibly wrapped) output type in scope -/
  type : Option Ty := none
  /-- the composite type the enclosing selection set selects on -/
  parent : Option String := none
  /-- definition of the enclosing field -/
  field : Option FieldD := none
  /-- definition of the enclosing directive -/
  directive : Option DirectiveD := none

def compositeBase (s : SchemaD) (t : Option Ty) : Option String :=
  (t.map (·.base)).bind fun n => if isComposite s n then some n else none

/-- the context in which the CHILDREN of node `n` live, and in which rules look at `n` itself -/
def View.enter (s : SchemaD) (n : Node) (v : View) : View :=
  match n with
  | .selectionSet .. => { v with parent := compositeBase s v.type }
  | .field name .. =>
    let fd := v.parent.bind fun p => getFieldDef s p name
    { v with field := fd, type := TI.outOnly s (fd.map (·.type)) }
  | .directive d => { v with directive := findDirective s d.name }
  | .operation kind .. => { v with type := (rootType s kind).map Ty.named }
  | .fragmentDef _ on _ => { v with type := TI.outOnly s (typeFromAst s (.named on)) }
  | .inline (some on) _ => { v with type := TI.outOnly s (typeFromAst s (.named on)) }
  | .inline none _ => { v with type := TI.outOnly s v.type }
  | _ => v

def withView (v : View) (ns : List Node) : List (Node × View) := ns.map fun n => (n, v)

def tnDir (s : SchemaD) (v : View) (d : Dir) : List (Node × View) :=
  let v1 := View.enter s (.directive d) v
  (.directive d, v1) :: withView v1 (argsNodes d.args)
def tnDirs (s : SchemaD) (v : View) (ds : List Dir) : List (Node × View) := ds.flatMap (tnDir s v)

mutual
def tnSel (s : SchemaD) (v : View) : Sel → List (Node × View)
  | .field _ name args dirs hs id sub =>
    let v1 := View.enter s (.field name args dirs hs) v
    (.field name args dirs hs, v1) :: (withView v1 (argsNodes args) ++ tnDirs s v1 dirs ++
      (if hs then (.selectionSet id sub, View.enter s (.selectionSet id sub) v1) ::
        tnSels s (View.enter s (.selectionSet id sub) v1) sub else []))
  | .spread name dirs => (.spread name dirs, v) :: tnDirs s v dirs
  | .inline on dirs id sub =>
    let v1 := View.enter s (.inline on dirs) v
    (.inline on dirs, v1) :: (tnDirs s v1 dirs ++
      (.selectionSet id sub, View.enter s (.selectionSet id sub) v1) :: tnSels s (View.enter s (.selectionSet id sub) v1) sub)
def tnSels (s : SchemaD) (v : View) : List Sel → List (Node × View)
  | [] => []
  | x :: xs => tnSel s v x ++ tnSels s v xs
end

/-- a variable definition: its default value and its type live in the context of the operation, the arguments of its
    directives in the context of their directive -/
def tnVarDef (s : SchemaD) (v1 : View) (v : VarDef) : List (Node × View) :=
  withView v1 (.varDef v :: ((match v.default with | some d => valueNodes d | none => []) ++ [.typeNode v.type])) ++
    tnDirs s v1 v.dirs

def tnDef (s : SchemaD) : Def → List (Node × View)
  | .op kind name vars dirs id sels =>
    let n := Node.operation kind name vars dirs sels
    let v1 := View.enter s n {}
    (n, v1) :: (vars.flatMap (tnVarDef s v1) ++ tnDirs s v1 dirs ++
      (.selectionSet id sels, View.enter s (.selectionSet id sels) v1) :: tnSels s (View.enter s (.selectionSet id sels) v1) sels)
  | .frag name on dirs id sels =>
    let n := Node.fragmentDef name on dirs
    let v1 := View.enter s n {}
    (n, v1) :: (tnDirs s v1 dirs ++
      (.selectionSet id sels, View.enter s (.selectionSet id sels) v1) :: tnSels s (View.enter s (.selectionSet id sels) v1) sels)
  | .ts .. => [(.tsDef, {})]

/-- every node below the document node, with its static context -/
def typedNodes (s : SchemaD) (d : Doc) : List (Node × View) := d.defs.flatMap (tnDef s)

end PyGql.Validate.Spec

namespace PyGql.Validate.Spec
open PyGql PyGql.Validate

/-- **5.3.1 Field selections**: a field selected where a parent type is known is defined on that type
    (or is an allowed meta field) -/
def fieldsOnCorrectType (s : SchemaD) (d : Doc) : Prop :=
  ∀ p ∈ typedNodes s d, ∀ name args dirs hs, p.1 = Node.field name args dirs hs →
    p.2.parent.isSome = true → p.2.field.isSome = true

/-- **5.3.3 Leaf field selections**: a field of leaf type has no sub-selection, a field of composite type has one -/
def scalarLeafs (s : SchemaD) (d : Doc) : Prop :=
  ∀ p ∈ typedNodes s d, ∀ name args dirs hs, p.1 = Node.field name args dirs hs →
    ∀ t, p.2.type = some t → (isLeaf s t.base = true → hs = false) ∧ (isComposite s t.base = true → hs = true)

/-- **5.4.1 Argument names**: every argument given to a field / directive is defined by it -/
def knownArgumentNames (s : SchemaD) (d : Doc) : Prop :=
  (∀ p ∈ typedNodes s d, ∀ name args dirs hs, p.1 = Node.field name args dirs hs →
    ∀ fd, p.2.field = some fd → ∀ a ∈ args, ∃ ad ∈ fd.args, ad.name = a.name) ∧
  (∀ p ∈ typedNodes s d, ∀ dr, p.1 = Node.directive dr →
    ∀ dd, p.2.directive = some dd → ∀ a ∈ dr.args, ∃ ad ∈ dd.args, ad.name = a.name)

/-- **5.4.2.1 Required arguments**: every required argument (non-null type, no default) is given -/
def providedRequiredArguments (s : SchemaD) (d : Doc) : Prop :=
  (∀ p ∈ typedNodes s d, ∀ name args dirs hs, p.1 = Node.field name args dirs hs →
    ∀ fd, p.2.field = some fd → ∀ ad ∈ fd.args, ArgD.required ad = true → ∃ a ∈ args, a.name = ad.name) ∧
  (∀ p ∈ typedNodes s d, ∀ dr, p.1 = Node.directive dr →
    ∀ dd, p.2.directive = some dd → ∀ ad ∈ dd.args, ArgD.required ad = true → ∃ a ∈ dr.args, a.name = ad.name)

end PyGql.Validate.Spec

/-
  SPECIFICATION: the lexical grammar of GraphQL June 2018 (§2.1 Source Text) as independent, executable
  recognisers of *complete lexemes* (none of them scans: each looks at the whole candidate lexeme).

  SourceCharacter is taken as U+0009 | U+000A | U+000D | ≥ U+0020 (the June 2018 text stops at U+FFFF because it
  counts UTF-16 code units; an astral code point is two such units, each a SourceCharacter).
  The look-ahead restriction after numbers (no NameStart directly after a number) is the one pinned by
  tests/test_lang/test_lexer.py::test_useful_number_errors.
-/
import PyGqlModel.Token
import PyGqlModel.Spec.BlockStringSpec

namespace PyGql.Spec.Lexical

def isSourceChar (c : Nat) : Bool := c == 9 || c == 10 || c == 13 || 32 ≤ c
/-- LineTerminator characters -/
def isLineTerm (c : Nat) : Bool := c == 10 || c == 13
/-- Ignored single characters: UnicodeBOM, WhiteSpace, LineTerminator, Comma -/
def isIgnoredChar (c : Nat) : Bool := c == 0xFEFF || c == 9 || c == 32 || c == 10 || c == 13 || c == 44
/-- CommentChar :: SourceCharacter but not LineTerminator -/
def isCommentChar (c : Nat) : Bool := isSourceChar c && !isLineTerm c
def isDigit (c : Nat) : Bool := 48 ≤ c && c ≤ 57
def isNonZeroDigit (c : Nat) : Bool := 49 ≤ c && c ≤ 57
def isLetter (c : Nat) : Bool := (65 ≤ c && c ≤ 90) || (97 ≤ c && c ≤ 122)
/-- Name :: /[_A-Za-z][_0-9A-Za-z]*/ -/
def isNameStart (c : Nat) : Bool := c == 95 || isLetter c
def isNameCont (c : Nat) : Bool := isNameStart c || isDigit c
def isHexDigit (c : Nat) : Bool := isDigit c || (65 ≤ c && c ≤ 70) || (97 ≤ c && c ≤ 102)

/-- Punctuator :: one of ! $ ( ) ... : = @ [ ] { | } (June 2018) plus `&` (implements lists) -/
def punctuator : TokKind → Option Text := TokKind.constText

def isName (l : Text) : Bool :=
  match l with
  | c :: t => isNameStart c && t.all isNameCont
  | [] => false

def stripNegativeSign : Text → Text
  | 45 :: t => t
  | s => s

/-- IntegerPart :: NegativeSign? 0 | NegativeSign? NonZeroDigit Digit* -/
def isIntegerPart (l : Text) : Bool :=
  match stripNegativeSign l with
  | [] => false
  | d :: ds => (d == 48 && ds.isEmpty) || (isNonZeroDigit d && ds.all isDigit)

/-- IntValue :: IntegerPart -/
def isIntValue (l : Text) : Bool := isIntegerPart l

/-- FractionalPart :: . Digit+ -/
def isFractionalPart (l : Text) : Bool :=
  match l with
  | 46 :: d :: ds => isDigit d && ds.all isDigit
  | _ => false

def stripSign : Text → Text
  | 43 :: t => t
  | 45 :: t => t
  | s => s

/-- ExponentPart :: ExponentIndicator Sign? Digit+ -/
def isExponentPart (l : Text) : Bool :=
  match l with
  | i :: r => (i == 101 || i == 69) &&
    (match stripSign r with
     | d :: ds => isDigit d && ds.all isDigit
     | [] => false)
  | [] => false

/-- FloatValue :: IntegerPart FractionalPart | IntegerPart ExponentPart | IntegerPart FractionalPart ExponentPart -/
def isFloatValue (l : Text) : Bool :=
  let mant := l.takeWhile (fun c => !(c == 101 || c == 69))
  let exp := l.dropWhile (fun c => !(c == 101 || c == 69))
  let ip := mant.takeWhile (fun c => c != 46)
  let frac := mant.dropWhile (fun c => c != 46)
  isIntegerPart ip && (frac.isEmpty || isFractionalPart frac) && (exp.isEmpty || isExponentPart exp)
    && !(frac.isEmpty && exp.isEmpty)

/-- EscapedCharacter :: one of `"` `\` `/` b f n r t — and the character it denotes -/
def escapedCharacter (c : Nat) : Option Nat :=
  if c = 34 then some 34 else if c = 92 then some 92 else if c = 47 then some 47
  else if c = 98 then some 8 else if c = 102 then some 12 else if c = 110 then some 10
  else if c = 114 then some 13 else if c = 116 then some 9 else none

def hexValue (c : Nat) : Option Nat :=
  if isDigit c then some (c - 48)
  else if 65 ≤ c && c ≤ 70 then some (c - 55)
  else if 97 ≤ c && c ≤ 102 then some (c - 87)
  else none

/-- EscapedUnicode :: /[0-9A-Fa-f]{4}/ — the code unit it denotes -/
def escapedUnicode (a b c d : Nat) : Option Nat :=
  match hexValue a, hexValue b, hexValue c, hexValue d with
  | some x, some y, some z, some w => some (4096 * x + 256 * y + 16 * z + w)
  | _, _, _, _ => none

/-- `\uXXXX` denotes a UTF-16 CODE UNIT (§2.9.4 reads the escapes as code units): high / low surrogate units -/
def isHighUnit (u : Nat) : Bool := 0xD800 ≤ u && u ≤ 0xDBFF
def isLowUnit (u : Nat) : Bool := 0xDC00 ≤ u && u ≤ 0xDFFF

/-- the character a high unit directly followed by a low unit denotes -/
def combineUnits (hi lo : Nat) : Nat := 0x10000 + (hi - 0xD800) * 0x400 + (lo - 0xDC00)

/-- a high unit `hi` followed by the six characters `e1 e2 a b c d`: if they are a `\uXXXX` escape of a LOW unit,
    the character the pair denotes -/
def pairedUnits (hi e1 e2 a b c d : Nat) : Option Nat :=
  if isHighUnit hi ∧ e1 = 92 ∧ e2 = 117 then
    match escapedUnicode a b c d with
    | some lo => if isLowUnit lo then some (combineUnits hi lo) else none
    | none => none
  else none

/-- the text directly after a high unit `hi`: the character denoted if it starts with a `\uXXXX` LOW unit escape -/
def pairedAt (hi : Nat) : Text → Option Nat
  | e1 :: e2 :: a :: b :: c :: d :: _ => pairedUnits hi e1 e2 a b c d
  | _ => none

/-- StringCharacter* (the part of a quoted StringValue between the quotes) and its semantic value:
    SourceCharacter but not `"` or `\` or LineTerminator | `\u` EscapedUnicode | `\` EscapedCharacter.
    The value of a run of `\u` escapes is the text their code units form in UTF-16: a high-surrogate escape DIRECTLY
    followed by a low-surrogate escape is one (astral) character; an unpaired surrogate escape stays a lone code point;
    literal characters are never combined (reading recorded in ASSUMPTIONS of corr/C02_spans.py, hunter finding C02/1). -/
def stringCharacters : Text → Option Text
  | [] => some []
  | c :: t =>
    if c = 92 then
      match t with
      | [] => none
      | e :: t1 =>
        if e = 117 then
          -- `\u` EscapedUnicode
          match t1 with
          | a :: b :: c' :: d :: t2 =>
            match escapedUnicode a b c' d with
            | none => none
            | some u =>
              match pairedAt u t2 with
              | some cp =>
                -- surrogate pair: one character; the low escape (six characters) is consumed
                match t2 with
                | _ :: _ :: _ :: _ :: _ :: _ :: t3 => (stringCharacters t3).map (cp :: ·)
                | _ => none
              | none => (stringCharacters t2).map (u :: ·)
          | _ => none
        else
          -- `\` EscapedCharacter
          match escapedCharacter e, stringCharacters t1 with
          | some u, some v => some (u :: v)
          | _, _ => none
    else if c = 34 ∨ isLineTerm c ∨ !isSourceChar c then none
    else (stringCharacters t).map (c :: ·)

/-- StringValue :: `"` StringCharacter* `"` — semantic value of a complete quoted lexeme -/
def stringValue (l : Text) : Option Text :=
  match l with
  | 34 :: t =>
    if t.getLast? = some 34 then
      -- a lexeme `"…\"` is not closed: the final quote must not be the `"` of an escape
      stringCharacters t.dropLast
    else none
  | _ => none

/-- BlockStringCharacter* followed by the closing `"""`, and the raw value:
    SourceCharacter but not `"""` or `\"""` | `\"""` (denoting `"""`).
    The "but not" look-ahead has to see the closing quotes, so the closing `"""` is part of the
    argument: the first unescaped `"""` must be the end of the lexeme. -/
def blockStringCharacters : Nat → Text → Option Text
  | _, [] => none
  | k + 1, c :: t => (blockStringCharacters k t).map (c :: ·)
  | 0, c :: t =>
    if [34, 34, 34].isPrefixOf (c :: t) then (if t.length = 2 then some [] else none)
    else if c = 92 ∧ [34, 34, 34].isPrefixOf t then blockStringCharacters 3 t
    else if !isSourceChar c then none
    else (blockStringCharacters 0 t).map (c :: ·)

/-- raw value of a complete block-string lexeme `"""…"""` (before `BlockStringValue`) -/
def blockStringRaw (l : Text) : Option Text :=
  if [34, 34, 34].isPrefixOf l then blockStringCharacters 0 (l.drop 3) else none

/-! ### tokens, ignored runs and the tiling of a source text (§2.1.6–2.1.7) -/

/-- `lex` is a complete lexeme of token kind `k` and `value` is what the token carries:
    the lexeme itself for punctuators, names and numbers; the semantic value for strings. -/
def Lexeme (k : TokKind) (lex value : Text) : Prop :=
  match k with
  | .sof | .eof => False
  | .name => isName lex = true ∧ value = lex
  | .int => isIntValue lex = true ∧ value = lex
  | .float => isFloatValue lex = true ∧ value = lex
  | .string => stringValue lex = some value
  | .blockString => (blockStringRaw lex).map PyGql.Spec.BlockStringValue = some value
  | k => punctuator k = some lex ∧ value = lex

/-- first character of a text satisfies `p` (false at the end of the text) -/
def startsWith (p : Nat → Bool) : Text → Bool
  | [] => false
  | c :: _ => p c

/-- maximal munch / look-ahead: what may NOT directly follow a lexeme of kind `k` —
    a name continues as long as it can; a number is not followed by a digit or a NameStart (test-pinned look-ahead),
    an IntValue not by `.` either (it would have to be a FloatValue); `""` directly followed by `"` is a block string start -/
def Follow (k : TokKind) (lex rest : Text) : Prop :=
  match k with
  | .name => startsWith isNameCont rest = false
  | .int => startsWith (fun c => isDigit c || isNameStart c || c == 46) rest = false
  | .float => startsWith (fun c => isDigit c || isNameStart c) rest = false
  | .string => lex = [34, 34] → startsWith (· == 34) rest = false
  | _ => True

/-- a run of Ignored tokens (UnicodeBOM, WhiteSpace, LineTerminator, Comma, Comment) standing before `next`
    (the rest of the source). A comment is `#` CommentChar* and is maximal: the character after it (in the run or in
    `next`) is not a CommentChar. -/
inductive IgnRun (next : Text) : Text → Prop
  | nil : IgnRun next []
  | char (c : Nat) (t : Text) : isIgnoredChar c = true → IgnRun next t → IgnRun next (c :: t)
  | comment (body t : Text) : (∀ x ∈ body, isCommentChar x = true) → startsWith isCommentChar (t ++ next) = false →
      IgnRun next t → IgnRun next (35 :: (body ++ t))

/-- the source text `s` (a suffix of a source of length `n`) is tiled by ignored runs and the lexemes of `toks`,
    each token carrying its span and value; the last token is `<EOF>` -/
inductive Tiles (n : Nat) : Text → List Tok → Prop
  | eof (ign : Text) : IgnRun [] ign → Tiles n ign [⟨.eof, n, n, textOfString "<EOF>"⟩]
  | tok (ign lex rest : Text) (k : TokKind) (v : Text) (toks : List Tok) :
      IgnRun (lex ++ rest) ign → Lexeme k lex v → Follow k lex rest → Tiles n rest toks →
      Tiles n (ign ++ (lex ++ rest)) (⟨k, n - (lex ++ rest).length, n - rest.length, v⟩ :: toks)

end PyGql.Spec.Lexical

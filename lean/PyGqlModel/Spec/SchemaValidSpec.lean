/-
  C13 — SPECIFICATION of schema validity (GraphQL June 2018 §3 "Type System", the rules that
  `py_gql.schema.validation` implements), over the by-name description `SchemaD`.
  No accumulators, no `continue`: every rule is a ∀-statement over the positions it constrains.
  Lookups are the model's (`kindOf`, `fieldMap`, `argMap`: plain by-name lookups).
-/
import PyGqlModel.SchemaValid

namespace PyGql.SchemaValidSpec
open PyGql PyGql.SchemaValid

/-! ### names (§2.1.9 `Name`, §3: names must not begin with `__`) -/

def isLetter (c : Nat) : Bool := (65 ≤ c && c ≤ 90) || (97 ≤ c && c ≤ 122)
def isDigit (c : Nat) : Bool := 48 ≤ c && c ≤ 57

/-- `/[_A-Za-z][_0-9A-Za-z]*/` on code points, not starting with two underscores -/
def NameOK (cs : List Nat) : Prop :=
  (∃ c rest, cs = c :: rest ∧ (c = 95 ∨ isLetter c = true) ∧
      ∀ d ∈ rest, d = 95 ∨ isLetter d = true ∨ isDigit d = true) ∧
  ¬ ([95, 95] <+: cs)

def ValidName (n : String) : Prop := isValidName n = true

/-! ### covariance (§3.6.1 "IsValidImplementationFieldType", through list / non-null) -/

/-- `a` may stand where `b` is expected (output position). -/
inductive Subtype (s : SchemaD) : Ty → Ty → Prop
  | refl (t : Ty) : Subtype s t t
  | list {a b : Ty} : Subtype s a b → Subtype s (.list a) (.list b)
  | nonNull {a b : Ty} : Subtype s a b → Subtype s (.nonNull a) (.nonNull b)
  /-- a non-null type is a subtype of its nullable version (and of whatever that is a subtype of) -/
  | dropNonNull {a b : Ty} : b.isNonNull = false → Subtype s a b → Subtype s (.nonNull a) b
  /-- an object type is a subtype of the interfaces it implements and of the unions that list it -/
  | possible {o a : String} : isObjectTy s (.named o) = true → isAbstractTy s (.named a) = true →
      isPossibleType s (.named a) (.named o) = true → Subtype s (.named o) (.named a)

/-! ### resolver signatures (what the executor will call: `resolver(root, ctx, info, **args)`) -/

/-- the resolver can be called with 3 positional values and the coerced arguments as keywords -/
def ResolverCompatible (args : List ArgD) (r : ResolverD) : Prop :=
  (∀ a ∈ args,
    match findParam r.params a.pythonName with
    | none => r.params.any (·.kind == .varKw) = true            -- swallowed by **kwargs
    | some p => p.kind ≠ .posOnly ∧
        -- an argument that may be absent needs a parameter default
        (p.hasDefault = true ∨ a.hasDefault = true ∨ argRequired a = true)) ∧
  (r.params.any (·.kind == .varPos) = true ∨
    3 ≤ ((remainingParams r.params args).filter (fun p => isPositionalKind p.kind)).length) ∧
  (∀ p ∈ (remainingParams r.params args).drop 3, p.hasDefault = true)

def ResolverOK (s : SchemaD) (rv : Bool) (t : TypeD) (f : FieldD) : Prop :=
  ∀ r, pickResolver s t f = some r → rv = true → r.inspectable = true → ResolverCompatible f.args r

/-! ### per-rule predicates -/

/-- arguments: well-formed unique names, input types -/
def ArgsOK (s : SchemaD) (args : List ArgD) : Prop :=
  (∀ a ∈ args, ValidName a.name ∧ isInputType s a.type = true) ∧ (args.map (·.name)).Nodup

/-- object / interface fields: at least one, well-formed unique names, output types, arguments, resolver -/
def FieldsOK (s : SchemaD) (rv : Bool) (t : TypeD) : Prop :=
  t.fields ≠ [] ∧
  (∀ f ∈ t.fields, ValidName f.name ∧ isOutputType s f.type = true ∧ ArgsOK s f.args ∧ ResolverOK s rv t f) ∧
  (t.fields.map (·.name)).Nodup

/-- object `t` implements interface `it`: every field present, covariant type, same arguments,
    additional arguments optional -/
def Implements (s : SchemaD) (t it : TypeD) : Prop :=
  ∀ f ∈ it.fields, ∃ objField, fieldMap t f.name = some objField ∧
    Subtype s objField.type f.type ∧
    (∀ a ∈ f.args, ∃ oa, argMap objField a.name = some oa ∧ a.type = oa.type) ∧
    (∀ a ∈ objField.args, argMap f a.name = none → a.type.isNonNull = false)

def InterfacesOK (s : SchemaD) (t : TypeD) : Prop :=
  (∀ i ∈ t.interfaces, ∃ it, s.findType i = some it ∧ it.kind = .interface ∧ Implements s t it) ∧
  t.interfaces.Nodup

def UnionOK (s : SchemaD) (t : TypeD) : Prop :=
  t.members ≠ [] ∧ (∀ m ∈ t.members, kindOf s m = some .object) ∧ t.members.Nodup

def EnumOK (t : TypeD) : Prop :=
  t.values ≠ [] ∧ ∀ v ∈ t.values, ValidName v.name

def InputOK (s : SchemaD) (t : TypeD) : Prop :=
  t.inputFields ≠ [] ∧
  (∀ f ∈ t.inputFields, ValidName f.name ∧ isInputType s f.type = true) ∧
  (t.inputFields.map (·.name)).Nodup

def TypeOK (s : SchemaD) (rv : Bool) (t : TypeD) : Prop :=
  (t.builtin = true ∨ ValidName t.name) ∧
  match t.kind with
  | .object => FieldsOK s rv t ∧ InterfacesOK s t
  | .interface => FieldsOK s rv t
  | .union => UnionOK s t
  | .enum => EnumOK t
  | .input => InputOK s t
  | .scalar => True

def RootOK (s : SchemaD) (r : Option String) : Prop := ∀ n, r = some n → kindOf s n = some .object

def RootsOK (s : SchemaD) : Prop :=
  s.query ≠ none ∧ RootOK s s.query ∧ RootOK s s.mutation ∧ RootOK s s.subscription

def DirectivesOK (s : SchemaD) : Prop :=
  ∀ d ∈ s.directives, ValidName d.name ∧ ArgsOK s d.args

/-- the schema satisfies every implemented type-system rule -/
def ValidSchema (s : SchemaD) (rv : Bool := true) : Prop :=
  RootsOK s ∧ (∀ t ∈ s.types, TypeOK s rv t) ∧ DirectivesOK s

end PyGql.SchemaValidSpec

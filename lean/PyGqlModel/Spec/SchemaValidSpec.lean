/-
  C13 — SPECIFICATION of schema validity (GraphQL June 2018 §3 "Type System", the rules that
  `py_gql.schema.validation` implements), over the by-name description `SchemaD`.
  No accumulators, no `continue`: every rule is a ∀-statement over the positions it constrains.
  Lookups are the model's (`kindOf`, `fieldMap`, `argMap`: plain by-name lookups).
-/
import PyGqlModel.SchemaValid

namespace PyGql.SchemaValidSpec
open PyGql PyGql.SchemaValid

/-! ### names (§2.1.9 `Name`, §3: names must not begin with `__`) -/

def isLetter (c : Nat) : Bool := (65 ≤ c && c ≤ 90) || (97 ≤ c && c ≤ 122)
def isDigit (c : Nat) : Bool := 48 ≤ c && c ≤ 57

/-- `/[_A-Za-z][_0-9A-Za-z]*/` on code points, not starting with two underscores -/
def NameOK (cs : List Nat) : Prop :=
  (∃ c rest, cs = c :: rest ∧ (c = 95 ∨ isLetter c = true) ∧
      ∀ d ∈ rest, d = 95 ∨ isLetter d = true ∨ isDigit d = true) ∧
  ¬ ([95, 95] <+: cs)

def ValidName (n : String) : Prop := isValidName n = true

/-! ### covariance (§3.6.1 "IsValidImplementationFieldType", through list / non-null) -/

/-- `a` may stand where `b` is expected (output position). -/
inductive Subtype (s : SchemaD) : Ty → Ty → Prop
  | refl (t : Ty) : Subtype s t t
  | list {a b : Ty} : Subtype s a b → Subtype s (.list a) (.list b)
  | nonNull {a b : Ty} : Subtype s a b → Subtype s (.nonNull a) (.nonNull b)
  /-- a non-null type is a subtype of its nullable version (and of whatever that is a subtype of) -/
  | dropNonNull {a b : Ty} : b.isNonNull = false → Subtype s a b → Subtype s (.nonNull a) b
  /-- an object type is a subtype of the interfaces it implements and of the unions that list it -/
  | possible {o a : String} : isObjectTy s (.named o) = true → isAbstractTy s (.named a) = true →
      isPossibleType s (.named a) (.named o) = true → Subtype s (.named o) (.named a)

/-! ### resolver signatures

  The executor calls `resolver(root, ctx, info, **arguments)`; `arguments` always holds the required arguments
  and those with a default value, and may hold the others. The three values go to the first three positional
  parameters (`leadingNames`) or into `*args`; an argument reaches, by keyword, a positional-or-keyword parameter
  after those three or a keyword-only parameter (`keywordParam`), else `**kwargs`. -/

/-- the resolver can be called with 3 positional values and the coerced arguments as keywords -/
def ResolverCompatible (args : List ArgD) (r : ResolverD) : Prop :=
  -- the three positional values are accepted
  (r.params.any (·.kind == .varPos) = true ∨ 3 ≤ (positionalParams r.params).length) ∧
  (∀ a ∈ args,
    match keywordParam r.params a.pythonName with
    | some p => -- an argument that may be absent needs a parameter default
        p.hasDefault = true ∨ a.hasDefault = true ∨ argRequired a = true
    | none => -- swallowed by **kwargs, and not the name of a parameter already filled positionally
        r.params.any (·.kind == .varKw) = true ∧
        ∀ cl, findParam r.params a.pythonName = some cl →
          ¬ ((leadingNames r.params).contains cl.name = true ∧ cl.kind = .posOrKw)) ∧
  -- every parameter that the call does not fill has a default
  (∀ p ∈ unfedParams r.params args, p.hasDefault = true)

/-! #### an explicit model of Python's call binding (what `ResolverCompatible` is about: `Props.C13.compatible_iff_binds`) -/

/-- a parameter that can be filled by keyword -/
def kwKind (k : ParamKind) : Bool := k == .posOrKw || k == .kwOnly

/-- **Python's call binding** of `f(v1, v2, v3, **{k: _ for k in K})` against the parameters `ps`:
    1. the three positional values fill the first three positional-only / positional-or-keyword parameters, the rest
       goes to `*args` - without `*args` there must be three such parameters (else "takes n positional arguments");
    2. a keyword fills the positional-or-keyword / keyword-only parameter of that name - unless it was already filled
       positionally ("got multiple values for argument"); with no such parameter (also: a positional-only parameter of
       that name) it goes to `**kwargs` - without `**kwargs`: "got an unexpected keyword argument";
    3. every parameter other than `*args` / `**kwargs` that received nothing needs a default ("missing required"). -/
def bindOk (ps : List ParamD) (K : List String) : Bool :=
  (ps.any (·.kind == .varPos) || decide (3 ≤ (positionalParams ps).length)) &&
  K.all (fun k =>
    match ps.find? (fun p => p.name == k && kwKind p.kind) with
    | some p => !(leadingNames ps).contains p.name
    | none => ps.any (·.kind == .varKw)) &&
  ps.all (fun p => isVarKind p.kind || (leadingNames ps).contains p.name || (K.contains p.name && kwKind p.kind) || p.hasDefault)

/-- only the fields of OBJECT types are ever resolved; what sits in a resolver slot must be callable -/
def ResolverOK (s : SchemaD) (rv : Bool) (t : TypeD) (f : FieldD) : Prop :=
  ∀ r, (pickResolver s t f = some r ∨ f.subscriptionResolver = some r) → rv = true → t.kind = .object →
    r.callable = true ∧ (r.inspectable = true → ResolverCompatible f.args r)

/-! ### per-rule predicates -/

/-- a declared default conforms to the type of its position, as far as the rule checks (`defaultBad`: no null under
    non-null, lists under list types, 32-bit integers under Int, own values under enums, mappings under input objects).
    DEFINITIONAL: this clause is stated with the MODEL's own function `SchemaValid.defaultBad` (the transcription of
    `_default_value_error`), so the corresponding conjunct of `validate_iff` / `violation_iff` says "the error is
    reported ⇔ `defaultBad` says so" - it ties the validator's control flow (where the check is made, for which
    arguments, under which guard) to the function, NOT the function to an independent notion of conformance. What
    `defaultBad` computes is compared with the real `_default_value_error` by the correspondence (labelled injections
    `bad_default_*` at every position). The INDEPENDENT meaning is given in Props/C13_default.lean: the declarative
    relation `Conforms s ty v` and `defaultOK_iff_conforms` (`DefaultOK` ⇔ the default conforms to its type, for
    values within the 64 levels the model looks at; `default_error_sound` without any bound). -/
def DefaultOK (s : SchemaD) (a : ArgD) : Prop := a.hasDefault = true → defaultBad s defaultFuel a.type a.default = false

/-- arguments: well-formed unique names, input types, conforming defaults -/
def ArgsOK (s : SchemaD) (args : List ArgD) : Prop :=
  (∀ a ∈ args, ValidName a.name ∧ isInputType s a.type = true ∧ DefaultOK s a) ∧ (args.map (·.name)).Nodup

/-- object / interface fields: at least one, well-formed unique names, output types, arguments, resolver -/
def FieldsOK (s : SchemaD) (rv : Bool) (t : TypeD) : Prop :=
  t.fields ≠ [] ∧
  (∀ f ∈ t.fields, ValidName f.name ∧ isOutputType s f.type = true ∧ ArgsOK s f.args ∧ ResolverOK s rv t f) ∧
  (t.fields.map (·.name)).Nodup

/-- object `t` implements interface `it`: every field present, covariant type, same arguments,
    additional arguments optional -/
def Implements (s : SchemaD) (t it : TypeD) : Prop :=
  ∀ f ∈ it.fields, ∃ objField, fieldMap t f.name = some objField ∧
    Subtype s objField.type f.type ∧
    (∀ a ∈ f.args, ∃ oa, argMap objField a.name = some oa ∧ a.type = oa.type) ∧
    (∀ a ∈ objField.args, argMap f a.name = none → argRequired a = false)

def InterfacesOK (s : SchemaD) (t : TypeD) : Prop :=
  (∀ i ∈ t.interfaces, ∃ it, s.findType i = some it ∧ it.kind = .interface ∧ Implements s t it) ∧
  t.interfaces.Nodup

def UnionOK (s : SchemaD) (t : TypeD) : Prop :=
  t.members ≠ [] ∧ (∀ m ∈ t.members, kindOf s m = some .object) ∧ t.members.Nodup

/-- enum types: at least one value, well-formed names, no `None` internal value. NOT part of the rule, as in the code:
    uniqueness of the value names - `validate_enum_values` does not test it; `EnumType._set_values` raises
    `ValueError("Duplicate enum value ...")` at CONSTRUCTION, so a live schema never holds a duplicate (the dump of a live
    schema has unique value names by construction; the model neither asks nor uses it). Named clause:
    `Props.C13.ConstructionInvariants` / `ValidSchemaSpec` / `enum_uniqueness_not_implemented` (Props/C13_clauses.lean). -/
def EnumOK (t : TypeD) : Prop :=
  t.values ≠ [] ∧ ∀ v ∈ t.values, ValidName v.name ∧ isNone v.value = false

def InputOK (s : SchemaD) (t : TypeD) : Prop :=
  t.inputFields ≠ [] ∧
  (∀ f ∈ t.inputFields, ValidName f.name ∧ isInputType s f.type = true ∧ DefaultOK s f) ∧
  (t.inputFields.map (·.name)).Nodup

def TypeOK (s : SchemaD) (rv : Bool) (t : TypeD) : Prop :=
  (t.builtin = true ∨ ValidName t.name) ∧
  match t.kind with
  | .object => FieldsOK s rv t ∧ InterfacesOK s t
  | .interface => FieldsOK s rv t
  | .union => UnionOK s t
  | .enum => EnumOK t
  | .input => InputOK s t
  | .scalar => True

def RootOK (s : SchemaD) (r : Option String) : Prop := ∀ n, r = some n → kindOf s n = some .object

def RootsOK (s : SchemaD) : Prop :=
  s.query ≠ none ∧ RootOK s s.query ∧ RootOK s s.mutation ∧ RootOK s s.subscription

def DirectivesOK (s : SchemaD) : Prop :=
  ∀ d ∈ s.directives, ValidName d.name ∧ ArgsOK s d.args

/-- the schema satisfies every IMPLEMENTED type-system rule. Uniqueness of TYPE names and of DIRECTIVE names is not
    among them, as in the code: `schema.types` and `schema.directives` are dicts keyed by name (a second definition of
    a name replaces or is refused at construction: `Schema.__init__` / `build_schema`, C11), `validate_schema` has no
    such test; theorems that need unique type names take it as a hypothesis (`perm_types`, `perm_deep`: `Nodup`); the
    clauses are named in Props/C13_clauses.lean (`ConstructionInvariants`, `validate_iff_spec`). -/
def ValidSchema (s : SchemaD) (rv : Bool := true) : Prop :=
  RootsOK s ∧ (∀ t ∈ s.types, TypeOK s rv t) ∧ DirectivesOK s

/-! ### violation instances — one constructor per rule (= per `add_error` call site)

  A *violation instance* is a rule together with the position that breaks it; the error it must
  produce carries that position as its subject. This is the STATEMENT's notion ("reporting all violations
  together"): every element is examined for every rule — a repeated member is a uniqueness violation AND is
  examined like any other member, a type with an ill-formed name is examined like any other type, the
  argument rules of an interface field hold whatever its type is. (`At xs pre x`: `x` occurs with `pre` before
  it; uniqueness rules fire on every later occurrence of a name.) The only dependencies left are structural:
  the implementation of an interface is examined once per interface, for entries that ARE interfaces, and the
  duplicate rule of union members speaks about object members. -/

/-- `x` occurs in `xs` with exactly `pre` before it -/
def At {α} (xs pre : List α) (x : α) : Prop := ∃ post, xs = pre ++ x :: post

inductive ArgViol (s : SchemaD) (dupRule notInputRule defRule : Rule) (owner : String) (args : List ArgD) : Err → Prop
  | name {pre a} : At args pre a → isValidName a.name = false →
      ArgViol s dupRule notInputRule defRule owner args ⟨.invalidName, [a.name]⟩
  | dup {pre a} : At args pre a → a.name ∈ pre.map (·.name) →
      ArgViol s dupRule notInputRule defRule owner args ⟨dupRule, [a.name, owner]⟩
  | notInput {pre a} : At args pre a → isInputType s a.type = false →
      ArgViol s dupRule notInputRule defRule owner args ⟨notInputRule, [a.name, owner, a.type.render]⟩
  | badDefault {pre a} : At args pre a → isInputType s a.type = true → a.hasDefault = true →
      defaultBad s defaultFuel a.type a.default = true →
      ArgViol s dupRule notInputRule defRule owner args ⟨defRule, [a.name, owner]⟩

inductive ResolverViol (path : String) (args : List ArgD) (r : ResolverD) : Err → Prop
  | positional : r.params.any (·.kind == .varPos) = false → (positionalParams r.params).length < 3 →
      ResolverViol path args r ⟨.resPositional, [path]⟩
  | needsDefault {a p} : a ∈ args → keywordParam r.params a.pythonName = some p →
      p.hasDefault = false → a.hasDefault = false → argRequired a = false →
      ResolverViol path args r ⟨.resNeedsDefault, [a.name, path]⟩
  | collides {a cl} : a ∈ args → keywordParam r.params a.pythonName = none → findParam r.params a.pythonName = some cl →
      (leadingNames r.params).contains cl.name = true → cl.kind = .posOrKw →
      ResolverViol path args r ⟨.resCollides, [a.name, path]⟩
  | posOnly {a cl} : a ∈ args → keywordParam r.params a.pythonName = none → findParam r.params a.pythonName = some cl →
      ¬ ((leadingNames r.params).contains cl.name = true ∧ cl.kind = .posOrKw) → cl.kind = .posOnly →
      r.params.any (·.kind == .varKw) = false → ResolverViol path args r ⟨.resPosOnly, [a.name, path]⟩
  | missingParam {a} : a ∈ args → keywordParam r.params a.pythonName = none →
      (∀ cl, findParam r.params a.pythonName = some cl →
        ¬ ((leadingNames r.params).contains cl.name = true ∧ cl.kind = .posOrKw) ∧ cl.kind ≠ .posOnly) →
      r.params.any (·.kind == .varKw) = false → ResolverViol path args r ⟨.resMissingParam, [a.name, path]⟩
  | extraRequired {p} : p ∈ unfedParams r.params args → p.hasDefault = false →
      ResolverViol path args r ⟨.resExtraRequired, [p.name, path]⟩

inductive FieldViol (s : SchemaD) (rv : Bool) (t : TypeD) : Err → Prop
  | name {pre f} : At t.fields pre f → isValidName f.name = false → FieldViol s rv t ⟨.invalidName, [f.name]⟩
  | dup {pre f} : At t.fields pre f → f.name ∈ pre.map (·.name) → FieldViol s rv t ⟨.dupField, [f.name, t.name]⟩
  | notOutput {pre f} : At t.fields pre f → isOutputType s f.type = false →
      FieldViol s rv t ⟨.fieldNotOutput, [f.name, t.name, f.type.render]⟩
  | arg {pre f e} : At t.fields pre f →
      ArgViol s .dupArg .argNotInput .argDefault (t.name ++ "." ++ f.name) f.args e → FieldViol s rv t e
  | resolver {pre f r e} : At t.fields pre f → t.kind = .object → pickResolver s t f = some r →
      rv = true → r.callable = true → r.inspectable = true → ResolverViol (t.name ++ "." ++ f.name) f.args r e → FieldViol s rv t e
  | subscription {pre f r e} : At t.fields pre f → t.kind = .object → f.subscriptionResolver = some r →
      rv = true → r.callable = true → r.inspectable = true → ResolverViol (t.name ++ "." ++ f.name) f.args r e → FieldViol s rv t e
  | notCallable {pre f r} : At t.fields pre f → t.kind = .object →
      (pickResolver s t f = some r ∨ f.subscriptionResolver = some r) → rv = true → r.callable = false →
      FieldViol s rv t ⟨.resNotCallable, [t.name ++ "." ++ f.name]⟩

inductive ImplViol (s : SchemaD) (t it : TypeD) : Err → Prop
  | fieldMissing {f} : f ∈ it.fields → fieldMap t f.name = none →
      ImplViol s t it ⟨.ifaceFieldMissing, [it.name ++ "." ++ f.name, t.name]⟩
  | fieldType {f o} : f ∈ it.fields → fieldMap t f.name = some o → ¬ Subtype s o.type f.type →
      ImplViol s t it ⟨.ifaceFieldType, [it.name ++ "." ++ f.name, f.type.render, t.name ++ "." ++ f.name, o.type.render]⟩
  | argMissing {f o a} : f ∈ it.fields → fieldMap t f.name = some o →
      a ∈ f.args → argMap o a.name = none →
      ImplViol s t it ⟨.ifaceArgMissing, [it.name ++ "." ++ f.name, a.name, t.name ++ "." ++ f.name]⟩
  | argType {f o a oa} : f ∈ it.fields → fieldMap t f.name = some o →
      a ∈ f.args → argMap o a.name = some oa → a.type ≠ oa.type →
      ImplViol s t it ⟨.ifaceArgType, [it.name ++ "." ++ f.name, a.name, a.type.render, t.name ++ "." ++ f.name, a.name, oa.type.render]⟩
  | extraRequired {f o a} : f ∈ it.fields → fieldMap t f.name = some o →
      a ∈ o.args → argMap f a.name = none → argRequired a = true →
      ImplViol s t it ⟨.extraRequiredArg, [t.name ++ "." ++ f.name, a.name, a.type.render, it.name ++ "." ++ f.name]⟩

def isIface (s : SchemaD) (i : String) : Bool :=
  match s.findType i with | some it => it.kind == .interface | none => false

inductive IfaceViol (s : SchemaD) (t : TypeD) : Err → Prop
  | notInterface {pre i} : At t.interfaces pre i → isIface s i = false →
      IfaceViol s t ⟨.notInterface, [t.name, i]⟩
  | dup {pre i} : At t.interfaces pre i → isIface s i = true → i ∈ pre → IfaceViol s t ⟨.dupInterface, [t.name, i]⟩
  | impl {pre i it e} : At t.interfaces pre i → s.findType i = some it → it.kind = .interface → i ∉ pre →
      ImplViol s t it e → IfaceViol s t e

inductive UnionViol (s : SchemaD) (t : TypeD) : Err → Prop
  | empty : t.members = [] → UnionViol s t ⟨.unionEmpty, [t.name]⟩
  | notObject {pre m} : At t.members pre m → kindOf s m ≠ some .object → UnionViol s t ⟨.unionMemberNotObject, [t.name, m]⟩
  | dup {pre m} : At t.members pre m → kindOf s m = some .object → m ∈ pre → UnionViol s t ⟨.unionDup, [t.name, m]⟩

inductive EnumViol (t : TypeD) : Err → Prop
  | empty : t.values = [] → EnumViol t ⟨.enumEmpty, [t.name]⟩
  | name {v} : v ∈ t.values → isValidName v.name = false → EnumViol t ⟨.invalidName, [v.name]⟩
  | noneValue {v} : v ∈ t.values → isNone v.value = true → EnumViol t ⟨.enumValueNone, [t.name, v.name]⟩

inductive InputViol (s : SchemaD) (t : TypeD) : Err → Prop
  | empty : t.inputFields = [] → InputViol s t ⟨.noFields, [t.name]⟩
  | name {pre f} : At t.inputFields pre f → isValidName f.name = false → InputViol s t ⟨.invalidName, [f.name]⟩
  | dup {pre f} : At t.inputFields pre f → f.name ∈ pre.map (·.name) → InputViol s t ⟨.dupField, [f.name, t.name]⟩
  | notInput {pre f} : At t.inputFields pre f → isInputType s f.type = false →
      InputViol s t ⟨.inputFieldNotInput, [f.name, t.name, f.type.render]⟩
  | badDefault {pre f} : At t.inputFields pre f → isInputType s f.type = true → f.hasDefault = true →
      defaultBad s defaultFuel f.type f.default = true → InputViol s t ⟨.inputFieldDefault, [f.name, t.name]⟩

inductive TypeViol (s : SchemaD) (rv : Bool) (t : TypeD) : Err → Prop
  | typeName : (t.builtin || isValidName t.name) = false → TypeViol s rv t ⟨.invalidTypeName, [t.name]⟩
  | noFields : (t.kind = .object ∨ t.kind = .interface) → t.fields = [] →
      TypeViol s rv t ⟨.noFields, [t.name]⟩
  | field {e} : (t.kind = .object ∨ t.kind = .interface) → FieldViol s rv t e → TypeViol s rv t e
  | iface {e} : t.kind = .object → IfaceViol s t e → TypeViol s rv t e
  | union {e} : t.kind = .union → UnionViol s t e → TypeViol s rv t e
  | enum {e} : t.kind = .enum → EnumViol t e → TypeViol s rv t e
  | input {e} : t.kind = .input → InputViol s t e → TypeViol s rv t e

inductive RootViol (s : SchemaD) : Err → Prop
  | noQuery : s.query = none → RootViol s ⟨.noQuery, []⟩
  | query {n} : s.query = some n → kindOf s n ≠ some .object → RootViol s ⟨.queryNotObject, [n]⟩
  | mutation {n} : s.mutation = some n → kindOf s n ≠ some .object → RootViol s ⟨.mutationNotObject, [n]⟩
  | subscription {n} : s.subscription = some n → kindOf s n ≠ some .object → RootViol s ⟨.subscriptionNotObject, [n]⟩

inductive DirViol (s : SchemaD) : Err → Prop
  | name {d} : d ∈ s.directives → isValidName d.name = false → DirViol s ⟨.invalidName, [d.name]⟩
  | arg {d e} : d ∈ s.directives → ArgViol s .dirDupArg .dirArgNotInput .dirArgDefault d.name d.args e → DirViol s e

/-- all violation instances of a schema, with the error each one must produce -/
inductive Violation (s : SchemaD) (rv : Bool) : Err → Prop
  | root {e} : RootViol s e → Violation s rv e
  | type {t e} : t ∈ s.types → TypeViol s rv t e → Violation s rv e
  | directive {e} : DirViol s e → Violation s rv e

end PyGql.SchemaValidSpec

/-
  C05 — executable side of `MergeSafe` (the declarative form of OverlappingFieldsCanBeMerged lives in
  `Props/C05_merge.lean`): tagged selection lists, the fields of a scope, and a Boolean evaluator `mergeSafeB` that the
  driver runs on every validator-accepted document (sound for the declarative predicate: `mergeSafeB_sound`).
-/
import PyGqlModel.Spec.ValidDoc

namespace PyGql.Spec
open PyGql PyGql.Exec

/-- selections tagged with the static parent type they are selected on -/
abbrev TSels := List (String × Sel)
def tag (T : String) (sels : List Sel) : TSels := sels.map fun x => (T, x)

/-- static base type of the sub-selection of field node `n` selected on `P` -/
def subBase (s : SchemaD) (P : String) (n : FNode) : String :=
  match fieldOf s P n.name with
  | some fd => fd.type.base
  | none => ""

def typedSub (s : SchemaD) (P : String) (n : FNode) : TSels := if n.hasSub then tag (subBase s P n) n.sub else []

def fieldTy (s : SchemaD) (P : String) (n : FNode) : Option Ty :=
  if n.name == "__typename" then some (.nonNull (.named "String")) else (fieldOf s P n.name).map (·.type)

/-- `SameResponseShape` on the declared types: same wrappers; equal leaf types, or both composite -/
def sameShape (s : SchemaD) : Ty → Ty → Bool
  | .nonNull a, .nonNull b => sameShape s a b
  | .list a, .list b => sameShape s a b
  | .named a, .named b => a == b || (isComposite s a && isComposite s b)
  | _, _ => false

/-- the fields of a scope with their static parent types (`none`: out of fuel) -/
def scopeStep (doc : Doc) (rec : TSels → Option (List (String × FNode))) : TSels → Option (List (String × FNode))
  | [] => some []
  | (T, .field key name loc _ args hs sub) :: rest =>
    (scopeStep doc rec rest).map fun r => (T, { key := key, name := name, loc := loc, args := args, hasSub := hs, sub := sub }) :: r
  | (T, .inline on _ sub) :: rest =>
    match rec (tag (on.getD T) sub), scopeStep doc rec rest with
    | some a, some b => some (a ++ b)
    | _, _ => none
  | (_, .spread name _) :: rest =>
    match doc.fragment? name with
    | none => scopeStep doc rec rest
    | some fr =>
      match rec (tag fr.on fr.sels), scopeStep doc rec rest with
      | some a, some b => some (a ++ b)
      | _, _ => none

def scopeOf (doc : Doc) : Nat → TSels → Option (List (String × FNode))
  | 0 => fun _ => none
  | n + 1 => fun L => scopeStep doc (scopeOf doc n) L

/-- complete for "some object type (or the type itself) belongs to both" -/
def overlapB (s : SchemaD) (P1 P2 : String) : Bool :=
  P1 == P2 || isPossibleType s P2 P1 || isPossibleType s P1 P2 ||
    (possibleTypes s P1).any fun rt => isPossibleType s P1 rt && isPossibleType s P2 rt

def pairOk (s : SchemaD) (rec : TSels → Bool) (same : Bool) (x y : String × FNode) : Bool :=
  if x.2.key == y.2.key then
    (match fieldTy s x.1 x.2, fieldTy s y.1 y.2 with
     | some t, some u => sameShape s t u
     | _, _ => true) &&
    (if overlapB s x.1 y.1 then (x.2.name == y.2.name && x.2.args == y.2.args) && rec (if same then typedSub s x.1 x.2 else typedSub s x.1 x.2 ++ typedSub s y.1 y.2) else true)
  else true

/-- merge safety of a scope, `sf` = fuel for computing scopes -/
def msB (s : SchemaD) (doc : Doc) (sf : Nat) : Nat → TSels → Bool
  | 0, _ => false
  | n + 1, L =>
    match scopeOf doc sf L with
    | none => false
    | some xs =>
      -- pairs by POSITION: an element paired with itself merges its sub-selection once, not twice
      (List.range xs.length).all fun i => (List.range xs.length).all fun j =>
        match xs[i]?, xs[j]? with
        | some x, some y => pairOk s (msB s doc sf n) (i == j) x y
        | _, _ => true

def mergeSafeB (s : SchemaD) (doc : Doc) : Bool :=
  let fuel := doc.size + 2
  doc.ops.all fun o =>
    match rootType s o.kind with
    | some root => msB s doc fuel fuel (tag root o.sels)
    | none => true

end PyGql.Spec

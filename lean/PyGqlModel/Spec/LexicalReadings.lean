/-
  The clauses of `Spec.Lexical.Follow` that are READINGS of the June-2018 lexical grammar rather than its letter, each
  under its own name.  June 2018 gives the lexical productions without look-ahead restrictions (they were added in
  October 2021); read with plain maximal munch it derives `1a` as `1` `a`, `""""` as `""` `""` and `00` as `0` `0`.
  The library (like graphql-js) rejects the three, the test-suite pins it, and this specification follows — EXPLICITLY:

    LA1  `NumberLookahead`        IntValue / FloatValue  [lookahead ≠ NameStart]     tests/test_lang/test_lexer.py::test_useful_number_errors
    LA3  `EmptyStringLookahead`   `""`                   [lookahead ≠ `"`]          …::test_useful_string_errors[`""""`]
    LA4  `ZeroLookahead`          IntegerPart `0` / `-0` [lookahead ≠ Digit]         …::test_useful_number_errors[`00`, `01`]

  `Props/C01_readings.lean` proves that `Follow` is exactly these clauses plus maximal munch, that the code implements
  each of them (`*_pinned`), and refutes the literal reading with a witness (`june2018_*_refuted`).
-/
import PyGqlModel.Spec.Lexical
namespace PyGql.Spec.Lexical

/-- LA1: a number is not directly followed by a NameStart character -/
def NumberLookahead (rest : Text) : Prop := startsWith isNameStart rest = false

/-- LA3: the empty string `""` is not directly followed by a quote (three quotes always open a block string) -/
def EmptyStringLookahead (lex rest : Text) : Prop := lex = [34, 34] → startsWith (· == 34) rest = false

/-- LA4: the complete integer part `0` (or `-0`) is not directly followed by a digit -/
def ZeroLookahead (lex rest : Text) : Prop := stripNegativeSign lex = [48] → startsWith isDigit rest = false

/-- maximal munch: a digit sequence goes on as long as it can (what remains of the digit clause once LA4 is set apart) -/
def DigitsMaximal (lex rest : Text) : Prop := stripNegativeSign lex ≠ [48] → startsWith isDigit rest = false

/-- an IntValue directly followed by `.` would have to be (the start of) a FloatValue -/
def NoFractionFollows (rest : Text) : Prop := startsWith (· == 46) rest = false

end PyGql.Spec.Lexical

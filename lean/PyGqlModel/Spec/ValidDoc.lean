/-
  C05 — the DECLARATIVE validity predicate assumed by the soundness theorems. It is structural (no executor
  state): fields exist on the (static) parent type, leaf ⇔ no sub-selection, type conditions are known composite
  types, spread fragments exist, `@skip/@include` conditions are Boolean literals or defined variables, fragment
  definitions are themselves well-typed and acyclic; `KeyConsistent` is the (sufficient) mergeability condition.
  Everything here is implied by the rules of the real validator EXCEPT `KeyConsistent`, which is stronger than
  OverlappingFieldsCanBeMerged (and is what gen/operation.py guarantees by construction).
-/
import PyGqlModel.Exec

namespace PyGql.Spec
open PyGql PyGql.Exec

def isComposite (s : SchemaD) (n : String) : Bool :=
  match kindOf s n with
  | some .object | some .interface | some .union => true
  | _ => false

/-- Directive conditions need NO premise any more: since fix 4e87d3d an `@skip` / `@include` condition that cannot be
    evaluated at run time (list literal let through by the validator, nullable variable with a default explicitly set to
    null) is a FIELD ERROR of the enclosing field, not an exception. The clause is kept (trivially true) so that `selOk`
    keeps its shape. -/
def dirsOk (_vars : Vars) (_dirs : List Dir) : Bool := true

/-- all conditions evaluate: Boolean literals or variables bound to a non-null value (then no directive error occurs) -/
def dirsStrict (vars : Vars) (dirs : List Dir) : Bool :=
  dirs.all fun d =>
    if d.name == "skip" || d.name == "include" then
      match d.cond with
      | .lit _ => true
      | .var v => (match vars.get? v with | some .null => false | some _ => true | none => false)
      | .bad => false
    else true

mutual
/-- selection `sel` is well-typed under the static parent type `T` -/
def selOk (s : SchemaD) (doc : Doc) (vars : Vars) (T : String) : Sel → Bool
  | .field _ name _ dirs _ hasSub sub =>
    dirsOk vars dirs &&
    (if name == "__typename" then !hasSub
     else if isMeta name then false            -- `__schema` / `__type`: introspection is outside this predicate (C15)
     else
      match fieldOf s T name with
      | none => false
      | some fd =>
        match kindOf s fd.type.base with
        | some .scalar | some .enum => !hasSub
        | some .object | some .interface | some .union => hasSub && selsOk s doc vars fd.type.base sub
        | _ => false)
  | .inline on dirs sub =>
    dirsOk vars dirs &&
    (match on with
     | none => selsOk s doc vars T sub
     | some c => isComposite s c && selsOk s doc vars c sub)
  | .spread name dirs => dirsOk vars dirs && (doc.fragment? name).isSome
def selsOk (s : SchemaD) (doc : Doc) (vars : Vars) (T : String) : List Sel → Bool
  | [] => true
  | x :: xs => selOk s doc vars T x && selsOk s doc vars T xs
end

/-- every fragment definition conditions on a known composite type and is well-typed under it -/
def fragsOk (s : SchemaD) (doc : Doc) (vars : Vars) : Bool :=
  doc.frags.all fun f => isComposite s f.on && selsOk s doc vars f.on f.sels

mutual
def selSpreads : Sel → List String
  | .field _ _ _ _ _ _ sub => selsSpreads sub
  | .inline _ _ sub => selsSpreads sub
  | .spread n _ => [n]
def selsSpreads : List Sel → List String
  | [] => []
  | x :: xs => selSpreads x ++ selsSpreads xs
end

/-- fragments that can be ranked: all their spreads are already ranked (iterate `n` times) -/
def rankFrags (doc : Doc) : Nat → List String → List String
  | 0, acc => acc
  | n + 1, acc =>
    rankFrags doc n (acc ++ (doc.frags.filter fun f => !acc.contains f.name && (selsSpreads f.sels).all acc.contains).map (·.name))

/-- no fragment spreads itself, directly or indirectly -/
def fragsAcyclic (doc : Doc) : Bool :=
  let ranked := rankFrags doc (doc.frags.length + 1) []
  doc.frags.all fun f => ranked.contains f.name

def opsOk (s : SchemaD) (doc : Doc) (vars : Vars) : Bool :=
  doc.ops.all fun o =>
    match rootType s o.kind with
    | some r => selsOk s doc vars r o.sels
    | none => false

/-- fragment names are unique (rule UniqueFragmentNames); without it the fragment table may return a definition other
    than the one `fragsAcyclic` looked at -/
def fragsUnique (doc : Doc) : Bool := decide (doc.frags.map (·.name)).Nodup

/-- the structural part, implied by the real validator -/
def validDocB (s : SchemaD) (doc : Doc) (vars : Vars) : Bool :=
  opsOk s doc vars && fragsOk s doc vars && fragsAcyclic doc && fragsUnique doc

def ValidDoc (s : SchemaD) (doc : Doc) (vars : Vars) : Prop := validDocB s doc vars = true

mutual
def selFields : Sel → List (String × String × Bool)
  | .field key name _ _ _ hasSub sub => (key, name, hasSub) :: selsFields sub
  | .inline _ _ sub => selsFields sub
  | .spread _ _ => []
def selsFields : List Sel → List (String × String × Bool)
  | [] => []
  | x :: xs => selFields x ++ selsFields xs
end

def docFields (doc : Doc) : List (String × String × Bool) :=
  (doc.ops.flatMap fun o => selsFields o.sels) ++ (doc.frags.flatMap fun f => selsFields f.sels)

/-- one response key always denotes one field (sufficient for mergeability) -/
def keyConsistentB (doc : Doc) : Bool :=
  let fs := docFields doc
  fs.all fun a => fs.all fun b => a.1 != b.1 || (a.2.1 == b.2.1)

mutual
def selDirs : Sel → List Dir
  | .field _ _ _ dirs _ _ sub => dirs ++ selsDirs sub
  | .inline _ dirs sub => dirs ++ selsDirs sub
  | .spread _ dirs => dirs
def selsDirs : List Sel → List Dir
  | [] => []
  | x :: xs => selDirs x ++ selsDirs xs
end

def docDirs (doc : Doc) : List Dir :=
  (doc.ops.flatMap fun o => selsDirs o.sels) ++ (doc.frags.flatMap fun f => selsDirs f.sels)

/-- why a document is not `ValidDoc` (for reports only) -/
def validDocWhy (s : SchemaD) (doc : Doc) (vars : Vars) : String :=
  if !opsOk s doc vars then "operation-selection-ill-typed"
  else if !fragsOk s doc vars then "fragment-ill-typed"
  else if !fragsAcyclic doc then "fragment-cycle"
  else if !fragsUnique doc then "duplicate-fragment-names"
  else ""


/-! ### rank measures (fuel sufficiency, `Props/C04_total.lean`) -/

mutual
/-- nested `collect_fields` calls needed below a selection (`rk` ranks fragment names) -/
def selNeed (rk : String → Nat) : Sel → Nat
  | .field _ _ _ _ _ _ _ => 0
  | .inline _ _ sub => 1 + selsNeed rk sub
  | .spread name _ => 1 + rk name
def selsNeed (rk : String → Nat) : List Sel → Nat
  | [] => 0
  | x :: xs => max (selNeed rk x) (selsNeed rk xs)
end

mutual
/-- nested `execute_fields` levels needed below a selection (`ek` ranks fragment names) -/
def selDepth (ek : String → Nat) : Sel → Nat
  | .field _ _ _ _ _ _ sub => 1 + selsDepth ek sub
  | .inline _ _ sub => selsDepth ek sub
  | .spread name _ => ek name
def selsDepth (ek : String → Nat) : List Sel → Nat
  | [] => 0
  | x :: xs => max (selDepth ek x) (selsDepth ek xs)
end

mutual
/-- every selection list inside needs at most `B` nested collect calls -/
def selBounded (rk : String → Nat) (B : Nat) : Sel → Bool
  | .field _ _ _ _ _ _ sub => decide (selsNeed rk sub ≤ B) && selsBoundedIn rk B sub
  | .inline _ _ sub => decide (selsNeed rk sub ≤ B) && selsBoundedIn rk B sub
  | .spread _ _ => true
def selsBoundedIn (rk : String → Nat) (B : Nat) : List Sel → Bool
  | [] => true
  | x :: xs => selBounded rk B x && selsBoundedIn rk B xs
end

def selsBounded (rk : String → Nat) (B : Nat) (sels : List Sel) : Bool :=
  decide (selsNeed rk sels ≤ B) && selsBoundedIn rk B sels

/-- least rank of a fragment name for `collect_fields` nesting, by `fuel` unfoldings of the fragment table -/
def rkOf (doc : Doc) : Nat → String → Nat
  | 0 => fun _ => 0
  | n + 1 => fun name =>
    match doc.fragment? name with
    | some fr => selsNeed (rkOf doc n) fr.sels
    | none => 0

def ekOf (doc : Doc) : Nat → String → Nat
  | 0 => fun _ => 0
  | n + 1 => fun name =>
    match doc.fragment? name with
    | some fr => selsDepth (ekOf doc n) fr.sels
    | none => 0

def docRk (doc : Doc) : String → Nat := rkOf doc (doc.frags.length + 1)
def docEk (doc : Doc) : String → Nat := ekOf doc (doc.frags.length + 1)

mutual
/-- the largest `selsNeed` of any selection list inside -/
def selMaxNeed (rk : String → Nat) : Sel → Nat
  | .field _ _ _ _ _ _ sub => max (selsNeed rk sub) (selsMaxNeedIn rk sub)
  | .inline _ _ sub => max (selsNeed rk sub) (selsMaxNeedIn rk sub)
  | .spread _ _ => 0
def selsMaxNeedIn (rk : String → Nat) : List Sel → Nat
  | [] => 0
  | x :: xs => max (selMaxNeed rk x) (selsMaxNeedIn rk xs)
end

def selsMaxNeed (rk : String → Nat) (sels : List Sel) : Nat := max (selsNeed rk sels) (selsMaxNeedIn rk sels)

def docBound (doc : Doc) : Nat :=
  ((doc.ops.map fun o => selsMaxNeed (docRk doc) o.sels) ++ (doc.frags.map fun f => selsMaxNeed (docRk doc) f.sels)).foldl max 0

/-- decidable certificate of acyclicity with explicit ranks (sound by `Props.C04.ranked_of_rankedB`) -/
def rankedB (doc : Doc) : Bool :=
  (doc.frags.all fun fr =>
    (decide (selsNeed (docRk doc) fr.sels ≤ docRk doc fr.name) && decide (selsDepth (docEk doc) fr.sels ≤ docEk doc fr.name))
      && selsBounded (docRk doc) (docBound doc) fr.sels)
  && doc.ops.all fun o => selsBounded (docRk doc) (docBound doc) o.sels

end PyGql.Spec

/-
  C19 — SPECIFICATION of query depth.

  `depth` = the longest chain of nested selection sets below the root fields of an
  operation, through fields, inline fragments and fragment spreads at ANY level
  (the top of the operation included); fragments are inlined, `@skip/@include`
  are evaluated against the variables; no grouping by response key, no
  "seen fragments" bookkeeping — just a maximum over all selected fields.

  Calibration (docstring of `max_depth.py`): the example document has depth 4
  (`Props/C19.lean: docstring_depth`).

  Recursion is on a fuel that is consumed by every nesting step (field, inline
  fragment, spread); `Props/C19.lean: levels_fuel_irrelevant` proves that any fuel ≥
  the potential `potL w sels` gives the same value on acyclic documents.
-/
import PyGqlModel.Depth

namespace PyGql.DepthSpec
open PyGql.Depth

/-- value of a condition; an unbound variable counts as `false` (the theorems assume the
    variables of the document are bound) -/
def condVal (vars : Vars) : Cond → Bool
  | .lit b => b
  | .var n => (vars.lookup n).getD false

/-- GraphQL spec §3.13: skipped if `@skip(if: true)` or `@include(if: false)` -/
def skipped (vars : Vars) (d : Dirs) : Bool :=
  (d.skip.map (condVal vars)).getD false || !((d.incl.map (condVal vars)).getD true)

def maxL : List Nat → Nat
  | [] => 0
  | x :: xs => max x (maxL xs)

/-- number of nested field levels contributed by one selection -/
def levelsSel (frags : List Frag) (vars : Vars) : Nat → Sel → Nat
  | 0, _ => 0
  | k + 1, .field _ _ d sub =>
    if skipped vars d then 0 else 1 + maxL (sub.map (levelsSel frags vars k))
  | k + 1, .inline d ss =>
    if skipped vars d then 0 else maxL (ss.map (levelsSel frags vars k))
  | k + 1, .spread n d =>
    if skipped vars d then 0 else
      match lookupFrag frags n with
      | none => 0
      | some f => maxL (f.sels.map (levelsSel frags vars k))

/-- number of nested field levels of a selection set (0 = nothing selected, 1 = flat) -/
def levels (frags : List Frag) (vars : Vars) (k : Nat) (sels : List Sel) : Nat :=
  maxL (sels.map (levelsSel frags vars k))

/-- query depth of an operation: levels nested below its root fields -/
def depthWith (k : Nat) (doc : Doc) (vars : Vars) (op : Op) : Nat :=
  levels doc.frags vars k op.sels - 1

def depth (doc : Doc) (vars : Vars) (op : Op) : Nat := depthWith doc.fuel doc vars op

end PyGql.DepthSpec

/-! ### specification of `selected_fields`: the set of selected field paths -/

namespace PyGql.DepthSpec
open PyGql.Depth

/-- the field `f` is selected by the selection `s`: `s` is that field, or an inline fragment / a spread of a
    defined fragment that (transitively) contains it; nothing on the way is switched off -/
inductive ReachS (frags : List Frag) (vars : Vars) : Sel → Fld → Prop
  | field (a n d sub) : skipped vars d = false → ReachS frags vars (.field a n d sub) ⟨a, n, sub⟩
  | inline (d ss s f) : skipped vars d = false → s ∈ ss → ReachS frags vars s f → ReachS frags vars (.inline d ss) f
  | spread (n d fr s f) : skipped vars d = false → lookupFrag frags n = some fr → s ∈ fr.sels →
      ReachS frags vars s f → ReachS frags vars (.spread n d) f

def Reach (frags : List Frag) (vars : Vars) (sels : List Sel) (f : Fld) : Prop :=
  ∃ s ∈ sels, ReachS frags vars s f

/-- `p` (a non-empty list of field NAMES) is a selected field path of the selection set -/
inductive IsPath (frags : List Frag) (vars : Vars) : List Sel → List String → Prop
  | leaf {sels f} : Reach frags vars sels f → IsPath frags vars sels [f.name]
  | step {sels f p} : Reach frags vars sels f → IsPath frags vars f.sub p → IsPath frags vars sels (f.name :: p)

end PyGql.DepthSpec

/-
  SPECIFICATION side of C06: the validation rules of §5 of the June-2018 GraphQL specification as
  decidable predicates over (schema, document), written over plain structural enumerations of the
  document (`Doc.nodes`: every node once) and set-theoretic notions (reachability closure of fragment
  spreads, all usages of a variable). Nothing here mentions visitors, stacks or accumulators.
-/
import PyGqlModel.Validate.Rules
namespace PyGql.Validate.Spec
open PyGql PyGql.Validate

/-! ### every node of a document, once (pre-order) -/
mutual
def valueNodes : Value → List Node
  | .list vs => .value (.list vs) :: valuesNodes vs
  | .obj fs => .value (.obj fs) :: objFieldsNodes fs
  | v => [.value v]
def valuesNodes : List Value → List Node
  | [] => []
  | v :: vs => valueNodes v ++ valuesNodes vs
def objFieldNodes : ObjField → List Node
  | .mk n v => .objField n :: valueNodes v
def objFieldsNodes : List ObjField → List Node
  | [] => []
  | f :: fs => objFieldNodes f ++ objFieldsNodes fs
end

def argNodes (a : Arg) : List Node := .argument a :: valueNodes a.value
def argsNodes (as : List Arg) : List Node := as.flatMap argNodes
def dirNodes (d : Dir) : List Node := .directive d :: argsNodes d.args
def dirsNodes (ds : List Dir) : List Node := ds.flatMap dirNodes

mutual
def selNodes : Sel → List Node
  | .field _ name args dirs hasSub ssid sub =>
    .field name args dirs hasSub :: (argsNodes args ++ dirsNodes dirs ++
      (if hasSub then .selectionSet ssid sub :: selsNodes sub else []))
  | .spread name dirs => .spread name dirs :: dirsNodes dirs
  | .inline on dirs ssid sub => .inline on dirs :: (dirsNodes dirs ++ .selectionSet ssid sub :: selsNodes sub)
def selsNodes : List Sel → List Node
  | [] => []
  | x :: xs => selNodes x ++ selsNodes xs
end

def varDefNodes (v : VarDef) : List Node :=
  .varDef v :: ((match v.default with | some d => valueNodes d | none => []) ++ .typeNode v.type :: dirsNodes v.dirs)

def defNodes : Def → List Node
  | .op kind name vars dirs ssid sels =>
    .operation kind name vars dirs sels :: (vars.flatMap varDefNodes ++ dirsNodes dirs ++ .selectionSet ssid sels :: selsNodes sels)
  | .frag name on dirs ssid sels =>
    .fragmentDef name on dirs :: (dirsNodes dirs ++ .selectionSet ssid sels :: selsNodes sels)
  | .ts .. => [.tsDef]

/-- all nodes of the document -/
def nodes (d : Doc) : List Node := .document d :: d.defs.flatMap defNodes

/-! ### the rules -/

def opNames (d : Doc) : List String := d.defs.filterMap fun | .op kind name .. => some (name.getD kind) | _ => none
def fragNames (d : Doc) : List String := d.defs.filterMap fun | .frag n .. => some n | _ => none
def operations (d : Doc) : List Def := d.defs.filter (·.isOp)

/-- 5.1.1 Executable definitions -/
def executableDefinitions (d : Doc) : Prop := ∀ x ∈ d.defs, x.isExecutable = true
/-- 5.2.1.1 Operation name uniqueness (py-gql names an anonymous operation after its kind) -/
def uniqueOperationNames (d : Doc) : Prop := (opNames d).Nodup
/-- 5.2.2.1 Lone anonymous operation -/
def loneAnonymousOperation (d : Doc) : Prop :=
  (∃ x ∈ d.defs, ∃ k vs ds i ss, x = Def.op k none vs ds i ss) → (operations d).length ≤ 1
/-- 5.2.3.1 Single root field: "let groupedFieldSet be the result of CollectFields(subscriptionType, selectionSet,
    variableValues); groupedFieldSet must have exactly one entry". `CollectFields` IS an algorithm in the specification
    (6.3.2, with its `visitedFragments` set); `rootKeys` is that algorithm restricted to the response keys, without
    evaluating type conditions and `@skip` / `@include` (no variable values at validation time; a spread that cannot
    apply is the business of 5.5.2.3). Before proposed_fixes/C06-H6 the code counted the WRITTEN selections. -/
def singleFieldSubscriptions (d : Doc) : Prop :=
  ∀ n ∈ nodes d, ∀ name vars dirs sels, n = Node.operation "subscription" name vars dirs sels →
    (rootKeys (sfsTable d) (sfsBound d) sels).length = 1
/-- 5.4.2 Argument uniqueness -/
def uniqueArgumentNames (d : Doc) : Prop :=
  (∀ n ∈ nodes d, ∀ name args dirs hs, n = Node.field name args dirs hs → (args.map (·.name)).Nodup) ∧
  (∀ n ∈ nodes d, ∀ dr, n = Node.directive dr → (dr.args.map (·.name)).Nodup)
/-- 5.7.3 Directives are unique per location -/
def uniqueDirectivesPerLocation (d : Doc) : Prop :=
  ∀ n ∈ nodes d, ∀ dirs, Node.dirsOf? n = some dirs → (dirs.map (·.name)).Nodup
where
  Node.dirsOf? : Node → Option (List Dir)
    | .operation _ _ _ dirs _ => some dirs
    | .field _ _ dirs _ => some dirs
    | .spread _ dirs => some dirs
    | .inline _ dirs => some dirs
    | .fragmentDef _ _ dirs => some dirs
    | .varDef v => some v.dirs
    | _ => none
/-- 5.5.1.1 Fragment name uniqueness -/
def uniqueFragmentNames (d : Doc) : Prop := (fragNames d).Nodup
/-- 5.8.2 Variables are input types -/
def variablesAreInputTypes (s : SchemaD) (d : Doc) : Prop :=
  ∀ n ∈ nodes d, ∀ v, n = Node.varDef v → ∃ t, typeFromAst s v.type = some t ∧ isInputTy s t = true
/-- 5.5.1.2 / type existence for variable types -/
def knownTypeNames (s : SchemaD) (d : Doc) : Prop :=
  ∀ n ∈ nodes d, ∀ t, n = Node.typeNode t → (s.findType t.base).isSome = true
/-- 5.5.2.1 Fragment spread target defined -/
def knownFragmentNames (d : Doc) : Prop :=
  ∀ n ∈ nodes d, ∀ name dirs, n = Node.spread name dirs → name ∈ fragNames d

/-! #### stateful rules: reachability -/

/-- fragments spread directly inside a list of selections -/
def directSpreads (sels : List Sel) : List String :=
  (selsNodes sels).filterMap fun | .spread n _ => some n | _ => none

def fragSels (d : Doc) (name : String) : List Sel :=
  (d.defs.findSome? fun | .frag n _ _ _ sels => if n == name then some sels else none | _ => none).getD []

/-- `Reach d a b`: fragment `b` is reachable from fragment `a` through ≥ 1 spreads -/
inductive Reach (d : Doc) : String → String → Prop where
  | step {a b} : b ∈ directSpreads (fragSels d a) → Reach d a b
  | trans {a b c} : Reach d a b → Reach d b c → Reach d a c

/-- 5.5.2.2 Fragment spreads must not form cycles -/
def noFragmentCycles (d : Doc) : Prop := ∀ f ∈ fragNames d, ¬ Reach d f f

/-- a fragment is used by an operation: spread directly or reachable from a directly spread fragment -/
def UsedBy (d : Doc) (opSels : List Sel) (f : String) : Prop :=
  f ∈ directSpreads opSels ∨ ∃ g ∈ directSpreads opSels, Reach d g f

/-- 5.5.1.4 Fragments must be used -/
def noUnusedFragments (d : Doc) : Prop :=
  ∀ f ∈ fragNames d, ∃ x ∈ d.defs, ∃ k n vs ds i sels, x = Def.op k n vs ds i sels ∧ UsedBy d sels f

/-- rules of the model for which no `rule_*_iff` theorem exists yet: their verdict equivalence and
    invariance rest on the correspondence check (harness/corr/C06_model.py) -/
def Unproved : List String := []

end PyGql.Validate.Spec

namespace PyGql.Validate.Spec
open PyGql PyGql.Validate
/-- **5.5.1.2 / 5.5.1.3 Fragment type conditions exist and are composite types** -/
def fragmentsOnCompositeTypes (s : SchemaD) (d : Doc) : Prop :=
  (∀ n ∈ nodes d, ∀ on dirs, n = Node.inline (some on) dirs → isComposite s on = true) ∧
  (∀ n ∈ nodes d, ∀ name on dirs, n = Node.fragmentDef name on dirs → isComposite s on = true)
end PyGql.Validate.Spec

namespace PyGql.Validate.Spec
open PyGql PyGql.Validate
/-- **5.6.3 Input object field uniqueness** -/
def uniqueInputFieldNames (d : Doc) : Prop :=
  ∀ n ∈ nodes d, ∀ fs, n = Node.value (.obj fs) → (fs.map (·.name)).Nodup
end PyGql.Validate.Spec

namespace PyGql.Validate.Spec
open PyGql PyGql.Validate
/-- the clause `NoUnusedFragmentsChecker` implements (ledger V6): every defined fragment name is the target of SOME
    spread of the document - also one made from a fragment that is itself unused. On documents without fragment
    cycles this is equivalent to `noUnusedFragments` (5.5.1.4). -/
def everyFragmentSpreadSomewhere (d : Doc) : Prop :=
  ∀ n ∈ nodes d, ∀ name on dirs, n = Node.fragmentDef name on dirs → ∃ m ∈ nodes d, ∃ ds, m = Node.spread name ds
end PyGql.Validate.Spec

/-
  C05 — `ValidDocR`: the declarative validity predicate WITHOUT the clause "every operation has a root type".
  The real validator does not check that clause: `validate_ast(schema, parse("mutation { a }"))` is `[]` on a schema
  without a mutation type (TypeInfoVisitor shows no type, FieldsOnCorrectType stays silent) and execution answers
  `{"errors":[{"message":"Schema doesn't support mutation operation"}], "data": null}` — a modelled, non-internal
  failure (`Exec.execute`, branch `rootType = none`). `ValidDoc` (Spec/ValidDoc.lean, shared with C20, where the root
  clause is needed) is kept unchanged; `ValidDocR` is what `validate_ast(...) == []` actually gives, and the soundness
  theorem is proved from it (`Props/C05_merge.lean: validated_no_internal_error_rootless`).
-/
import PyGqlModel.Spec.ValidDoc

namespace PyGql.Spec
open PyGql PyGql.Exec

/-- operations whose kind HAS a root type are well-typed under it; the others are never executed -/
def opsOkR (s : SchemaD) (doc : Doc) (vars : Vars) : Bool :=
  doc.ops.all fun o =>
    match rootType s o.kind with
    | some r => selsOk s doc vars r o.sels
    | none => true

def validDocRB (s : SchemaD) (doc : Doc) (vars : Vars) : Bool :=
  opsOkR s doc vars && fragsOk s doc vars && fragsAcyclic doc && fragsUnique doc

def ValidDocR (s : SchemaD) (doc : Doc) (vars : Vars) : Prop := validDocRB s doc vars = true

/-- every operation of the document has a root type in the schema -/
def opsRooted (s : SchemaD) (doc : Doc) : Bool := doc.ops.all fun o => (rootType s o.kind).isSome

end PyGql.Spec

/-
  C11 — SPECIFICATION: the content a type-system document declares.

  `Declared doc`: the definitions in document order, then every extension merged into its target in
  document order; roots from the `schema` block (+ `extend schema`) or the default names; default
  literals coerced over the MERGED definitions (GraphQL spec: "Coercing Variable Values"/input coercion
  of constants; the coercion function itself is shared with the model — its theorems belong to C07).

  `Declared` is COMPUTED with the model's member builders (`buildTypeDef`, `buildDirective`, `Env.of`), so it is a
  convenient normal form, not an independent specification (audit 3, F2).  The independent one is
  `DeclaredSpec` (Spec/SdlDeclared.lean: relations per attribute, no builder mentioned), with
  `declared_meets_spec : Declared doc = some c → DeclaredSpec doc c` and `spec_determines` (at most one solution) in
  Props/C11_declared.lean.  Likewise `SdlValid.declares` ("the member builders succeed") is EQUIVALENT to the named
  type-system rules of Spec/SdlRules.lean: `declares_iff_rules` / `sdlValid_iff_rules` (Props/C11_rules.lean), and
  every rule has its rejection theorem at `build` level in Props/C11_reject_complete.lean.
-/
import PyGqlModel.Sdl

namespace PyGql.SdlSpec
open PyGql PyGql.Sdl

/-- members of all extensions of `t`, appended in document order -/
def mergeDef (exts : List TypeDef) (t : TypeDef) : TypeDef :=
  (exts.filter (·.name == t.name)).foldl (fun acc e =>
    { acc with interfaces := acc.interfaces ++ e.interfaces, fields := acc.fields ++ e.fields, members := acc.members ++ e.members,
               values := acc.values ++ e.values, inputFields := acc.inputFields ++ e.inputFields }) t

def typeDefs (doc : Doc) : List TypeDef := doc.filterMap fun | .type t => some t | _ => none
def typeExts (doc : Doc) : List TypeDef := doc.filterMap fun | .ext t => some t | _ => none
def dirDefs (doc : Doc) : List DirDef := doc.filterMap fun | .directive d => some d | _ => none
def schemaDefs (doc : Doc) : List SchemaDef := doc.filterMap fun | .schema s => some s | _ => none

/-- the merged definitions -/
def merged (doc : Doc) : List TypeDef := (typeDefs doc).map (mergeDef (typeExts doc))

/-- declared roots -/
def declaredRoots (doc : Doc) (types : List TypeD) : Roots :=
  let base : Roots := match schemaDefs doc with
    | sd :: _ => sd.ops.foldl (fun r (op, ty) => r.set op ty) {}
    | [] => defaultRoots types
  (schemaExtensions doc).foldl (fun r se => se.ops.foldl (fun r (op, ty) => r.set op ty) r) base

/-- the declared content; `none` when some member cannot be built (wrong default, unknown reference…) -/
def Declared (doc : Doc) : Option SchemaD :=
  let env : Env := Env.of (merged doc)
  match (merged doc).mapM (buildTypeDef env), (dirDefs doc).mapM (buildDirective env) with
  | .ok ts, .ok ds =>
    let r := declaredRoots doc ts
    some { types := ts, directives := ds, query := r.query, mutation := r.mutation, subscription := r.subscription }
  | _, _ => none

/-- structural rules of a type-system document that the builder is responsible for (kind rules are
    `Schema.validate`, property C13) -/
structure SdlValid (doc : Doc) : Prop where
  uniqueTypes : (typeDefs doc).map (·.name) |>.Nodup
  uniqueDirectives : (dirDefs doc).map (·.name) |>.Nodup
  oneSchema : (schemaDefs doc).length ≤ 1
  extTargets : ∀ e ∈ typeExts doc, ∃ t ∈ typeDefs doc, t.name = e.name ∧ t.kind = e.kind
  noBuiltinNames : ∀ t ∈ typeDefs doc, isDefaultName t.name = false
  /-- every merged member satisfies its rules (references known, defaults coerce, `@deprecated` well-formed, enum values
      unique and not reserved): stated through the builders here, equivalent to `DeclaresRules doc` — named clauses of
      Spec/SdlRules.lean — by `declares_iff_rules` -/
  declares : (Declared doc).isSome
  mergedMembersUnique : ∀ t ∈ merged doc, (t.fields.map (·.name)).Nodup ∧ (t.inputFields.map (·.name)).Nodup
      ∧ (t.values.map (·.name)).Nodup ∧ t.members.Nodup ∧ t.interfaces.Nodup

/-- same content up to the order of the registries -/
def SameContent (a b : SchemaD) : Prop :=
  a.query = b.query ∧ a.mutation = b.mutation ∧ a.subscription = b.subscription ∧
  (∀ t, t ∈ a.types ↔ t ∈ b.types) ∧ (∀ d, d ∈ a.directives ↔ d ∈ b.directives)

end PyGql.SdlSpec

/-
  SPECIFICATION of the token-level grammar (GraphQL June 2018 + constant directives on variable
  definitions + optional fragment variables), independent of the parser.

  A tree is specified by its **concrete-syntax view** `view : AST → Item`: for every node the sequence of
  its own tokens and sub-nodes, exactly as the grammar production lists them.  From the view come
    * `yield t`            — the token classes the tree derives (canonical choice for optional separators),
    * `Yields i cs`        — the declarative derivation relation (optional separators present or absent),
    * `Item.check`         — the executable left-to-right matcher "these tokens are a derivation of this
                             tree and every node's `loc` is (start of its first token, end of its last)",
  and `WF flags t` is the decidable side condition of the productions (non-empty lists where the grammar
  has `+`, fragment name ≠ `on`, enum value ∉ {true,false,null}, `Const` positions variable-free, an
  extension has at least one of its optional parts, directive location ∈ table, type-system nodes only
  when enabled, fragment variables only when enabled, NonNull not directly inside NonNull).

  Two notational devices of the grammar are items of their own:
    * `optTok`  — an optional separator (`implements &? A`, `= |? A`, `on |? LOC`) and the optional keyword of the
                  query shorthand; the tree is the same with or without it;
    * `nla k`   — the look-ahead restriction `[lookahead ≠ k]` (June 2018 leaves `type A {a}` ambiguous between
                  one definition and two; like graphql-js and the 2021 text, an absent optional `{…}` block must
                  not be followed by `{`).
  Import-free (core Lean + Token + Ast + Parse for `Flags`/keywords + generated tables).
-/
import PyGqlModel.Parse
namespace PyGql.Spec
open PyGql PyGql.Ast PyGql.Parse

/-- the class of a token: its kind, and its text when the kind carries one -/
abbrev TokClass := TokKind × Text

def hasValue : TokKind → Bool
  | .int | .float | .name | .string | .blockString => true
  | _ => false

def cls (t : Tok) : TokClass := (t.kind, if hasValue t.kind then t.value else [])
def classes (ts : List Tok) : List TokClass := ts.map cls

/-- concrete syntax: a token, an optional token, a look-ahead restriction, or a node with its span -/
inductive Item where
  | tok (k : TokKind) (v : Text)
  | optTok (k : TokKind) (v : Text)
  | nla (k : TokKind)
  | node (loc : Loc) (items : List Item)

namespace Item

mutual
/-- canonical yield (optional tokens omitted) -/
def yield : Item → List TokClass
  | .tok k v => [(k, v)]
  | .optTok _ _ => []
  | .nla _ => []
  | .node _ is => yieldAll is
def yieldAll : List Item → List TokClass
  | [] => []
  | i :: is => i.yield ++ yieldAll is
end

mutual
/-- the matcher: `check fl i last toks = some (last', rest)` — `i` derives a prefix of `toks`, `rest` remains,
    `last'` is the last token consumed so far, and every node's `loc` is `locOf fl first last'` -/
def check (fl : Flags) : Item → Tok → List Tok → Option (Tok × List Tok)
  | .tok k v, _, ts =>
    match ts with
    | t :: rest => if cls t = (k, v) then some (t, rest) else none
    | [] => none
  | .optTok k v, l, ts =>
    match ts with
    | t :: rest => if cls t = (k, v) then some (t, rest) else some (l, ts)
    | [] => some (l, ts)
  | .nla k, l, ts =>
    match ts with
    | t :: _ => if t.kind = k then none else some (l, ts)
    | [] => some (l, ts)
  | .node loc is, l, ts =>
    match ts with
    | [] => none
    | first :: _ =>
      match checkAll fl is l ts with
      | some (l', rest) => if loc = locOf fl first l' then some (l', rest) else none
      | none => none
def checkAll (fl : Flags) : List Item → Tok → List Tok → Option (Tok × List Tok)
  | [], l, ts => some (l, ts)
  | i :: is, l, ts =>
    match i.check fl l ts with
    | some (l', ts') => checkAll fl is l' ts'
    | none => none
end

/-- the last token of `pre`, or `l` when `pre` is empty -/
def lastOf (l : Tok) (pre : List Tok) : Tok := pre.getLast?.getD l

mutual
/-- DECLARATIVE derivation with spans: `Spans fl i pre` — the item derives exactly the tokens `pre`
    (optional tokens present or absent), and EVERY node below has
    `loc = (start of the first token of its own segment, end of the last token of its own segment)`
    (`none` under `no_location`).  Children's segments are consecutive sub-segments of the parent's
    (`SpansAll.cons`), hence nested in it and ordered. -/
inductive Spans (fl : Flags) : Item → List Tok → Prop
  | tok {k v t} : cls t = (k, v) → Spans fl (.tok k v) [t]
  | optSome {k v t} : cls t = (k, v) → Spans fl (.optTok k v) [t]
  | optNone {k v} : Spans fl (.optTok k v) []
  | nla {k} : Spans fl (.nla k) []
  | node {loc is f tl} : SpansAll fl is (f :: tl) → loc = locOf fl f (lastOf f (f :: tl)) →
      Spans fl (.node loc is) (f :: tl)
  | nodeEmpty {loc is} : SpansAll fl is [] → Spans fl (.node loc is) []   -- (no view has an empty node)
inductive SpansAll (fl : Flags) : List Item → List Tok → Prop
  | nil : SpansAll fl [] []
  | cons {i is p1 p2} : Spans fl i p1 → SpansAll fl is p2 → SpansAll fl (i :: is) (p1 ++ p2)
end

end Item

/-! ### views: the grammar productions -/

/-- punctuator -/
abbrev p (k : TokKind) : Item := .tok k []
/-- keyword (a `Name` token with this text) -/
abbrev kw (s : Text) : Item := .tok .name s

/-- `Name` -/
def nameV (n : Name) : Item := .node n.loc [.tok .name n.value]
/-- `NamedType : Name` -/
def namedTypeV (t : NamedType) : Item := .node t.loc [nameV t.name]

/-- `Type : NamedType | [ Type ] | Type !` -/
def typeV : TypeRef → Item
  | .named t => namedTypeV t
  | .list t loc => .node loc [p .bracketL, typeV t, p .bracketR]
  | .nonNull t loc => .node loc [typeV t, p .bang]

/-- `Variable : $ Name` -/
def variableV (v : Variable) : Item := .node v.loc [p .dollar, nameV v.name]
/-- `StringValue` -/
def stringV (s : StringValue) : Item := .node s.loc [.tok (if s.block then .blockString else .string) s.value]

mutual
/-- `Value[Const]` -/
def valueV : Value → Item
  | .var v => variableV v
  | .int v loc => .node loc [.tok .int v]
  | .float v loc => .node loc [.tok .float v]
  | .string s => stringV s
  | .boolean b loc => .node loc [kw (if b then K.true_ else K.false_)]
  | .null loc => .node loc [kw K.null_]
  | .enum v loc => .node loc [.tok .name v]
  | .list vs loc => .node loc (p .bracketL :: (valuesV vs ++ [p .bracketR]))
  | .object fs loc => .node loc (p .curlyL :: (fieldsV fs ++ [p .curlyR]))
def valuesV : List Value → List Item
  | [] => []
  | v :: vs => valueV v :: valuesV vs
/-- `ObjectField[Const] : Name : Value[?Const]` -/
def objectFieldV : ObjectField → Item
  | .mk name value loc => .node loc [nameV name, p .colon, valueV value]
def fieldsV : List ObjectField → List Item
  | [] => []
  | f :: fs => objectFieldV f :: fieldsV fs
end

/-- an optional part -/
def optV (f : α → Item) : Option α → List Item
  | none => []
  | some a => [f a]

/-- a bracketed non-empty list `open X+ close`, absent when the list is empty -/
def groupV (opn close : TokKind) (f : α → Item) (xs : List α) : List Item :=
  if xs.isEmpty then [] else p opn :: (xs.map f ++ [p close])

/-- `Argument[Const] : Name : Value[?Const]` -/
def argumentV (a : Argument) : Item := .node a.loc [nameV a.name, p .colon, valueV a.value]
/-- `Arguments[Const] : ( Argument[?Const]+ )` -/
def argumentsV (as : List Argument) : List Item := groupV .parenL .parenR argumentV as
/-- `Directive[Const] : @ Name Arguments[?Const]?` -/
def directiveV (d : Directive) : Item := .node d.loc (p .atSign :: nameV d.name :: argumentsV d.arguments)
/-- `Directives[Const] : Directive[?Const]+` -/
def directivesV (ds : List Directive) : List Item := ds.map directiveV

/-- `DefaultValue : = Value[Const]` -/
def defaultV (o : Option Value) : List Item :=
  match o with
  | none => []
  | some v => [p .equals, valueV v]

/-- `VariableDefinition : Variable : Type DefaultValue? Directives[Const]?` -/
def variableDefinitionV (d : VariableDefinition) : Item :=
  .node d.loc (variableV d.var :: p .colon :: typeV d.type :: (defaultV d.defaultValue ++ directivesV d.directives))
/-- `VariableDefinitions : ( VariableDefinition+ )` -/
def variableDefinitionsV (ds : List VariableDefinition) : List Item := groupV .parenL .parenR variableDefinitionV ds

mutual
/-- `Selection : Field | FragmentSpread | InlineFragment` -/
def selectionV : Selection → Item
  | .field alias_ name args dirs ss loc =>
    -- `Field : Alias? Name Arguments? Directives? SelectionSet?`
    .node loc ((match alias_ with | none => [] | some a => [nameV a, p .colon]) ++
      nameV name :: (argumentsV args ++ directivesV dirs ++ optSelectionSetV ss))
  | .fragmentSpread name dirs loc =>
    -- `FragmentSpread : ... FragmentName Directives?`
    .node loc (p .ellip :: nameV name :: directivesV dirs)
  | .inlineFragment tc dirs ss loc =>
    -- `InlineFragment : ... TypeCondition? Directives? SelectionSet`
    .node loc (p .ellip :: ((match tc with | none => [] | some t => [kw K.on, namedTypeV t]) ++
      directivesV dirs ++ [selectionSetV ss]))
/-- `SelectionSet : { Selection+ }` -/
def selectionSetV : SelectionSet → Item
  | .mk sels loc => .node loc (p .curlyL :: (selectionsV sels ++ [p .curlyR]))
def optSelectionSetV : Option SelectionSet → List Item
  | none => []
  | some ss => [selectionSetV ss]
def selectionsV : List Selection → List Item
  | [] => []
  | s :: ss => selectionV s :: selectionsV ss
end

/-- is this operation expressible by the query shorthand `SelectionSet`? -/
def isShorthand (d : OperationDefinition) : Bool :=
  d.operation = K.query ∧ d.name.isNone ∧ d.variableDefinitions.isEmpty ∧ d.directives.isEmpty

/-- `OperationDefinition : SelectionSet | OperationType Name? VariableDefinitions? Directives? SelectionSet` -/
def operationV (d : OperationDefinition) : Item :=
  if isShorthand d then .node d.loc [.optTok .name K.query, selectionSetV d.selectionSet]
  else .node d.loc (kw d.operation :: (optV nameV d.name ++ variableDefinitionsV d.variableDefinitions ++
        directivesV d.directives ++ [selectionSetV d.selectionSet]))

/-- `FragmentDefinition : fragment FragmentName VariableDefinitions?† on NamedType Directives? SelectionSet`
    († only with `experimental_fragment_variables`) -/
def fragmentV (d : FragmentDefinition) : Item :=
  .node d.loc (kw K.fragment :: nameV d.name :: (variableDefinitionsV d.variableDefinitions ++
    kw K.on :: namedTypeV d.typeCondition :: (directivesV d.directives ++ [selectionSetV d.selectionSet])))

/-- `Description? ` -/
def descV (o : Option StringValue) : List Item := optV stringV o

/-- `OperationTypeDefinition : OperationType : NamedType` -/
def operationTypeV (d : OperationTypeDefinition) : Item := .node d.loc [kw d.operation, p .colon, namedTypeV d.type]

/-- `InputValueDefinition : Description? Name : Type DefaultValue? Directives[Const]?` -/
def inputValueV (d : InputValueDefinition) : Item :=
  .node d.loc (descV d.description ++ nameV d.name :: p .colon :: typeV d.type ::
    (defaultV d.defaultValue ++ directivesV d.directives))

/-- `FieldDefinition : Description? Name ArgumentsDefinition? : Type Directives[Const]?` -/
def fieldDefinitionV (d : FieldDefinition) : Item :=
  .node d.loc (descV d.description ++ nameV d.name :: (groupV .parenL .parenR inputValueV d.arguments ++
    p .colon :: typeV d.type :: directivesV d.directives))

/-- `EnumValueDefinition : Description? EnumValue Directives[Const]?` -/
def enumValueDefinitionV (d : EnumValueDefinition) : Item :=
  .node d.loc (descV d.description ++ nameV d.name :: directivesV d.directives)

/-- an optional trailing `{ X+ }` block; when absent: `[lookahead ≠ {]` -/
def blockV (f : α → Item) (xs : List α) : List Item :=
  if xs.isEmpty then [.nla .curlyL] else p .curlyL :: (xs.map f ++ [p .curlyR])

/-- a separated list with an optional leading separator: `sep? X (sep X)*` -/
def sepV (sep : TokKind) (f : α → Item) : List α → List Item
  | [] => []
  | x :: xs => .optTok sep [] :: f x :: xs.flatMap fun y => [p sep, f y]

/-- `ImplementsInterfaces : implements &? NamedType (& NamedType)*` -/
def implementsV (ts : List NamedType) : List Item :=
  if ts.isEmpty then [] else kw K.implements :: sepV .amp namedTypeV ts
/-- `UnionMemberTypes : = |? NamedType (| NamedType)*` -/
def unionMembersV (ts : List NamedType) : List Item :=
  if ts.isEmpty then [] else p .equals :: sepV .pipe namedTypeV ts

/-- `Definition` (executable, type-system definition, type-system extension) -/
def definitionV : Definition → Item
  | .operation d => operationV d
  | .fragment d => fragmentV d
  | .schemaDefinition dirs ops loc =>
    .node loc (kw K.schema :: (directivesV dirs ++ p .curlyL :: (ops.map operationTypeV ++ [p .curlyR])))
  | .scalarTypeDefinition desc name dirs loc =>
    .node loc (descV desc ++ kw K.scalar :: nameV name :: directivesV dirs)
  | .objectTypeDefinition desc name ifs dirs fields loc =>
    .node loc (descV desc ++ kw K.type_ :: nameV name :: (implementsV ifs ++ directivesV dirs ++ blockV fieldDefinitionV fields))
  | .interfaceTypeDefinition desc name dirs fields loc =>
    .node loc (descV desc ++ kw K.interface_ :: nameV name :: (directivesV dirs ++ blockV fieldDefinitionV fields))
  | .unionTypeDefinition desc name dirs types loc =>
    .node loc (descV desc ++ kw K.union :: nameV name :: (directivesV dirs ++ unionMembersV types))
  | .enumTypeDefinition desc name dirs values loc =>
    .node loc (descV desc ++ kw K.enum_ :: nameV name :: (directivesV dirs ++ blockV enumValueDefinitionV values))
  | .inputObjectTypeDefinition desc name dirs fields loc =>
    .node loc (descV desc ++ kw K.input :: nameV name :: (directivesV dirs ++ blockV inputValueV fields))
  | .directiveDefinition desc name args locations loc =>
    .node loc (descV desc ++ kw K.directive :: p .atSign :: nameV name ::
      (groupV .parenL .parenR inputValueV args ++ kw K.on :: sepV .pipe nameV locations))
  | .schemaExtension dirs ops loc =>
    .node loc (kw K.extend :: kw K.schema :: (directivesV dirs ++ blockV operationTypeV ops))
  | .scalarTypeExtension name dirs loc =>
    .node loc (kw K.extend :: kw K.scalar :: nameV name :: directivesV dirs)
  | .objectTypeExtension name ifs dirs fields loc =>
    .node loc (kw K.extend :: kw K.type_ :: nameV name :: (implementsV ifs ++ directivesV dirs ++ blockV fieldDefinitionV fields))
  | .interfaceTypeExtension name dirs fields loc =>
    .node loc (kw K.extend :: kw K.interface_ :: nameV name :: (directivesV dirs ++ blockV fieldDefinitionV fields))
  | .unionTypeExtension name dirs types loc =>
    .node loc (kw K.extend :: kw K.union :: nameV name :: (directivesV dirs ++ unionMembersV types))
  | .enumTypeExtension name dirs values loc =>
    .node loc (kw K.extend :: kw K.enum_ :: nameV name :: (directivesV dirs ++ blockV enumValueDefinitionV values))
  | .inputObjectTypeExtension name dirs fields loc =>
    .node loc (kw K.extend :: kw K.input :: nameV name :: (directivesV dirs ++ blockV inputValueV fields))

/-- `Document : Definition+` between the lexer's `<SOF>` and `<EOF>` -/
def documentV (d : Document) : Item := .node d.loc (p .sof :: (d.definitions.map definitionV ++ [p .eof]))

/-! ### `yield` -/
def yieldType (t : TypeRef) : List TokClass := (typeV t).yield
def yieldValue (v : Value) : List TokClass := (valueV v).yield
def yieldDocument (d : Document) : List TokClass := (documentV d).yield

/-! ### well-formedness -/

def isNonNull : TypeRef → Bool
  | .nonNull _ _ => true
  | _ => false

/-- `NonNullType : NamedType ! | ListType !` -/
def wfType : TypeRef → Bool
  | .named _ => true
  | .list t _ => wfType t
  | .nonNull t _ => wfType t && !isNonNull t

def notBoolNull (v : Text) : Bool := v ≠ K.true_ ∧ v ≠ K.false_ ∧ v ≠ K.null_

mutual
/-- `Value[Const]`: no variable in a `Const` position; an enum value is not `true`, `false`, `null` -/
def wfValue (const : Bool) : Value → Bool
  | .var _ => !const
  | .enum v _ => notBoolNull v
  | .list vs _ => wfValues const vs
  | .object fs _ => wfFields const fs
  | _ => true
def wfValues (const : Bool) : List Value → Bool
  | [] => true
  | v :: vs => wfValue const v && wfValues const vs
def wfField (const : Bool) : ObjectField → Bool
  | .mk _ value _ => wfValue const value
def wfFields (const : Bool) : List ObjectField → Bool
  | [] => true
  | f :: fs => wfField const f && wfFields const fs
end

def wfArgument (const : Bool) (a : Argument) : Bool := wfValue const a.value
def wfDirective (const : Bool) (d : Directive) : Bool := d.arguments.all (wfArgument const)
def wfDirectives (const : Bool) (ds : List Directive) : Bool := ds.all (wfDirective const)
def wfDefault : Option Value → Bool
  | none => true
  | some v => wfValue true v

def wfVariableDefinition (d : VariableDefinition) : Bool :=
  wfType d.type && wfDefault d.defaultValue && wfDirectives true d.directives

mutual
def wfSelection : Selection → Bool
  | .field _ _ args dirs ss _ => args.all (wfArgument false) && wfDirectives false dirs && wfOptSelectionSet ss
  | .fragmentSpread name dirs _ => name.value ≠ K.on && wfDirectives false dirs
  | .inlineFragment _ dirs ss _ => wfDirectives false dirs && wfSelectionSet ss
def wfSelectionSet : SelectionSet → Bool
  | .mk sels _ => !sels.isEmpty && wfSelections sels
def wfOptSelectionSet : Option SelectionSet → Bool
  | none => true
  | some ss => wfSelectionSet ss
def wfSelections : List Selection → Bool
  | [] => true
  | s :: ss => wfSelection s && wfSelections ss
end

def wfOperation (d : OperationDefinition) : Bool :=
  d.operation ∈ Generated.ParserTables.operationTypeTuple && d.variableDefinitions.all wfVariableDefinition &&
  wfDirectives false d.directives && wfSelectionSet d.selectionSet

def wfFragment (fl : Flags) (d : FragmentDefinition) : Bool :=
  d.name.value ≠ K.on && (fl.experimentalFragmentVariables || d.variableDefinitions.isEmpty) &&
  d.variableDefinitions.all wfVariableDefinition && wfDirectives false d.directives && wfSelectionSet d.selectionSet

def wfOperationType (d : OperationTypeDefinition) : Bool :=
  d.operation ∈ Generated.ParserTables.operationTypeTuple

def wfInputValue (d : InputValueDefinition) : Bool :=
  wfType d.type && wfDefault d.defaultValue && wfDirectives true d.directives

def wfFieldDefinition (d : FieldDefinition) : Bool :=
  d.arguments.all wfInputValue && wfType d.type && wfDirectives true d.directives

def wfEnumValueDefinition (d : EnumValueDefinition) : Bool :=
  notBoolNull d.name.value && wfDirectives true d.directives

/-- is the definition a type-system definition or extension? -/
def isTypeSystem : Definition → Bool
  | .operation _ | .fragment _ => false
  | _ => true

def wfDefinition (fl : Flags) : Definition → Bool
  | .operation d => wfOperation d
  | .fragment d => wfFragment fl d
  | .schemaDefinition dirs ops _ => wfDirectives true dirs && !ops.isEmpty && ops.all wfOperationType
  | .scalarTypeDefinition _ _ dirs _ => wfDirectives true dirs
  | .objectTypeDefinition _ _ _ dirs fields _ => wfDirectives true dirs && fields.all wfFieldDefinition
  | .interfaceTypeDefinition _ _ dirs fields _ => wfDirectives true dirs && fields.all wfFieldDefinition
  | .unionTypeDefinition _ _ dirs _ _ => wfDirectives true dirs
  | .enumTypeDefinition _ _ dirs values _ => wfDirectives true dirs && values.all wfEnumValueDefinition
  | .inputObjectTypeDefinition _ _ dirs fields _ => wfDirectives true dirs && fields.all wfInputValue
  | .directiveDefinition _ _ args locations _ =>
    args.all wfInputValue && !locations.isEmpty &&
    locations.all (fun n => n.value ∈ Generated.ParserTables.directiveLocations)
  | .schemaExtension dirs ops _ => wfDirectives true dirs && ops.all wfOperationType && !(dirs.isEmpty && ops.isEmpty)
  | .scalarTypeExtension _ dirs _ => wfDirectives true dirs && !dirs.isEmpty
  | .objectTypeExtension _ ifs dirs fields _ =>
    wfDirectives true dirs && fields.all wfFieldDefinition && !(ifs.isEmpty && dirs.isEmpty && fields.isEmpty)
  | .interfaceTypeExtension _ dirs fields _ =>
    wfDirectives true dirs && fields.all wfFieldDefinition && !(dirs.isEmpty && fields.isEmpty)
  | .unionTypeExtension _ dirs types _ => wfDirectives true dirs && !(dirs.isEmpty && types.isEmpty)
  | .enumTypeExtension _ dirs values _ =>
    wfDirectives true dirs && values.all wfEnumValueDefinition && !(dirs.isEmpty && values.isEmpty)
  | .inputObjectTypeExtension _ dirs fields _ =>
    wfDirectives true dirs && fields.all wfInputValue && !(dirs.isEmpty && fields.isEmpty)

/-- `WF flags document` -/
def wfDocument (fl : Flags) (d : Document) : Bool :=
  !d.definitions.isEmpty &&
  d.definitions.all (fun x => wfDefinition fl x && (fl.allowTypeSystem || !isTypeSystem x))

/-! ### the specification evaluated on a whole token list (`SOF … EOF`) -/

def matchesAll (fl : Flags) (items : List Item) (toks : List Tok) : Bool :=
  match Item.checkAll fl items default toks with
  | some (_, []) => true
  | _ => false

def checkTypeTop (fl : Flags) (t : TypeRef) (toks : List Tok) : Bool :=
  wfType t && matchesAll fl [p .sof, typeV t, p .eof] toks
def checkValueTop (fl : Flags) (v : Value) (toks : List Tok) : Bool :=
  wfValue false v && matchesAll fl [p .sof, valueV v, p .eof] toks
def checkDocumentTop (fl : Flags) (d : Document) (toks : List Tok) : Bool :=
  wfDocument fl d && matchesAll fl [documentV d] toks

end PyGql.Spec

/-
  C10 — SPECIFICATION of a well-formed response (GraphQL June 2018, section 7.1) and of the
  line structure of a submitted document (section 2.1.4). Import-free (the driver evaluates it
  on the REAL responses to cross-check the Python oracle).

  7.1    the response is a map with keys among `errors`, `data`, `extensions`;
         `errors` absent ⇒ `data` present (an operation was executed);
  7.1.2  `errors`, if present, is a NON-EMPTY list of maps; every error has a STRING `message`;
         `locations`, if present, is a list of `{line, column}` with 1-based values — here also
         required to lie INSIDE the submitted document; `path`, if present, is a list of field
         names and list indices; `extensions`, if present, is a map; no other keys;
  7.2    serialisation: strict JSON — no NaN / ±Infinity anywhere.
-/
import PyGqlModel.Json
import PyGqlModel.Token

namespace PyGql.Spec.Response
open PyGql

/-! ### lines of a document: LineTerminator = LF | CR [lookahead ≠ LF] | CR LF -/

def splitLines : Text → List Text
  | [] => [[]]
  | c :: rest =>
    if c = 10 then [] :: splitLines rest
    else if c = 13 then
      (if rest.head? = some 10 then splitLines rest else [] :: splitLines rest)
    else match splitLines rest with
      | l :: ls => (c :: l) :: ls
      | [] => [[c]]

/-- a 1-based (line, column) pair denotes a place inside the text: an existing line and a
    column between 1 and one past its last character -/
def InsideDocument (text : Text) (line col : Nat) : Prop :=
  1 ≤ line ∧ line ≤ (splitLines text).length ∧ 1 ≤ col ∧ col ≤ ((splitLines text).getD (line - 1) []).length + 1

instance (text : Text) (line col : Nat) : Decidable (InsideDocument text line col) := by
  unfold InsideDocument; infer_instance

/-! ### strict JSON -/

def nonFiniteTags : List String := ["nan", "inf", "-inf"]

mutual
/-- no NaN / ±Infinity (a float travels as `{"$float": repr}`) -/
def strict : J → Bool
  | .arr a => strictList a
  | .obj kvs => (match kvs with
      | [("$float", .str s)] => !nonFiniteTags.contains s
      | _ => true) && strictKvs kvs
  | _ => true
def strictList : List J → Bool
  | [] => true
  | x :: xs => strict x && strictList xs
def strictKvs : List (String × J) → Bool
  | [] => true
  | (_, v) :: r => strict v && strictKvs r
end

/-! ### shape -/

def isPathSeg : J → Bool
  | .str _ => true
  | .num n => decide (0 ≤ n)
  | _ => false

def keysAmong (allowed : List String) (kvs : List (String × J)) : Bool :=
  kvs.all fun kv => allowed.contains kv.1

/-- `{ "line": l, <column key>: c }` inside the document. The column key is `"column"`; `colKey`
    is an additional accepted spelling (the parameter of finding X1; `"column"` = the spec). -/
def locationOk (colKey : String) (text : Text) (l : J) : Bool :=
  match l with
  | .obj [(k1, .num line), (k2, .num col)] =>
    k1 == "line" && (k2 == "column" || k2 == colKey) && decide (0 ≤ line) && decide (0 ≤ col)
      && decide (InsideDocument text line.toNat col.toNat)
  | _ => false

def errorOk (colKey : String) (text : Text) (e : J) : Bool :=
  match e with
  | .obj kvs =>
    keysAmong ["message", "locations", "path", "extensions"] kvs
    && (match e.get? "message" with | some (.str _) => true | _ => false)
    && (match e.get? "locations" with
        | none => true
        | some (.arr (l :: ls)) => (l :: ls).all (locationOk colKey text)
        | _ => false)
    && (match e.get? "path" with
        | none => true
        | some (.arr (p :: ps)) => (p :: ps).all isPathSeg
        | _ => false)
    && (match e.get? "extensions" with
        | none => true
        | some (.obj _) => true
        | _ => false)
  | _ => false

def wellFormedB (colKey : String) (text : Text) (r : J) : Bool :=
  match r with
  | .obj kvs =>
    keysAmong ["errors", "data", "extensions"] kvs
    && (match r.get? "errors" with
        | none => (r.get? "data").isSome
        | some (.arr (e :: es)) => (e :: es).all (errorOk colKey text)
        | _ => false)
    && (match r.get? "extensions" with
        | none => true
        | some (.obj _) => true
        | _ => false)
    && strict r
  | _ => false

/-- well-formed response to the request document `text`, with `colKey` as an additionally accepted
    spelling of the location column key -/
def WellFormedK (colKey : String) (text : Text) (r : J) : Prop := wellFormedB colKey text r = true

/-- THE specification: section 7.1 as written -/
def WellFormed (text : Text) (r : J) : Prop := WellFormedK "column" text r

instance (k : String) (t : Text) (r : J) : Decidable (WellFormedK k t r) := by unfold WellFormedK; infer_instance
instance (t : Text) (r : J) : Decidable (WellFormed t r) := by unfold WellFormed; infer_instance

end PyGql.Spec.Response

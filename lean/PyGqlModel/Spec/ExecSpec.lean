/-
  C04 / C05 — SPECIFICATION: the execution algorithm of the GraphQL specification (June 2018, §6.3–6.4)
  transcribed with the library's documented null handling (a field error leaves `null` at the failing
  position; nothing propagates to the parent), and the declarative `ValidDoc` predicate of C05.

    CollectFields(objectType, selectionSet, variableValues, visitedFragments)   → `collectFieldsS`
    ExecuteSelectionSet(selectionSet, objectType, objectValue, variableValues)  → `executeSelectionSetS`
    ExecuteField / ResolveFieldValue / CompleteValue / MergeSelectionSets       → `executeFieldS`, `completeValueS`
-/
import PyGqlModel.Exec

namespace PyGql.Spec
open PyGql PyGql.Exec

/-- one pass over a selection set in `CollectFields`; `visited` is the by-reference set of the
    specification: a fragment name is added BEFORE its selections are collected, and the set is
    shared by all nested calls. -/
def collectStepS (s : SchemaD) (doc : Doc) (vars : Vars)
    (rec : String → List Sel → List String → R (Grouped × List String))
    (obj : String) : List Sel → List String → Grouped → R (Grouped × List String)
  | [], visited, g => .ok (g, visited)
  | .field key name loc dirs args hasSub sub :: rest, visited, g => do
    -- 3.a/3.b: @skip / @include
    if (← skipSelection vars dirs) then collectStepS s doc vars rec obj rest visited g
    else
      -- 3.c: append to the group of the response key
      collectStepS s doc vars rec obj rest visited
        (g.extend key [{ key := key, name := name, loc := loc, args := args, hasSub := hasSub, sub := sub }])
  | .spread name dirs :: rest, visited, g => do
    if (← skipSelection vars dirs) then collectStepS s doc vars rec obj rest visited g
    else if visited.contains name then collectStepS s doc vars rec obj rest visited g   -- 3.d.ii
    else
      let visited := visited ++ [name]                                                   -- 3.d.iii
      match doc.fragment? name with
      | none => collectStepS s doc vars rec obj rest visited g                            -- 3.d.v
      | some fr => do
        if !(← fragmentTypeApplies s obj (some fr.on)) then collectStepS s doc vars rec obj rest visited g
        else do
          let (g', visited') ← rec obj fr.sels visited
          collectStepS s doc vars rec obj rest visited' (g'.mergeInto g)
  | .inline on dirs sub :: rest, visited, g => do
    if (← skipSelection vars dirs) then collectStepS s doc vars rec obj rest visited g
    else if !(← fragmentTypeApplies s obj on) then collectStepS s doc vars rec obj rest visited g
    else do
      let (g', visited') ← rec obj sub visited
      collectStepS s doc vars rec obj rest visited' (g'.mergeInto g)

def collectFieldsS (s : SchemaD) (doc : Doc) (vars : Vars) :
    Nat → String → List Sel → List String → R (Grouped × List String)
  | 0 => fun _ _ _ => .error .outOfFuel
  | n + 1 => fun obj sels visited => collectStepS s doc vars (collectFieldsS s doc vars n) obj sels visited []

/-- `MergeSelectionSets(fields)` -/
def mergeSelectionSets (fields : List FNode) : List Sel :=
  fields.flatMap fun f => if f.hasSub then f.sub else []

def completeListS (f : Path → RVal → R (Data × List Err)) (path : Path) :
    Nat → List RVal → R (List Data × List Err)
  | _, [] => .ok ([], [])
  | i, v :: vs => do
    let (d, e) ← f (path ++ [.idx i]) v
    let (ds, es) ← keepErrs e (completeListS f path (i + 1) vs)           -- field errors already recorded stay
    pure (d :: ds, e ++ es)

/-- `CompleteValue(fieldType, fields, result, variableValues)`; a field error is recorded and `null` stays
    where it happened. Results the library treats as programming errors (`RuntimeError`) are failures. -/
def completeValueS (s : SchemaD) (execSel : String → Path → List Sel → R (Data × List Err))
    (fields : List FNode) : Ty → Path → RVal → R (Data × List Err)
  | .nonNull t, path, result => do
    -- 1. Non-Null: complete the inner type; null ⇒ field error
    let (d, es) ← completeValueS s execSel fields t path result
    if d.isNull then pure (d, es ++ [{ path := path, locs := fields.map (·.loc), kind := .nonnull }])
    else pure (d, es)
  | .list t, path, result =>
    match result with
    | .null => .ok (.null, [])                                         -- 2.
    | .list items => do                                                -- 3.
      let (ds, es) ← completeListS (completeValueS s execSel fields t) path 0 items
      pure (.list ds, es)
    | .leaf (.arr _) | .obj _ => .error .unsupported
    | .leaf _ => .error (.internal "RuntimeError")
    | .raise items msg ext =>                                            -- the collection fails while being read: field error
      match completeListS (completeValueS s execSel fields t) path 0 items with
      | .ok (_, es) => .error (.raised (.resolver msg ext) none es)
      | .error x => .error x
  | .named n, path, result =>
    match result with
    | .null => .ok (.null, [])
    | _ =>
      match kindOf s n with
      | some .scalar | some .enum =>                                   -- 4.
        match result with
        | .leaf j =>
          match serializeLeaf s n j with
          | some r => .ok (.leaf r, [])
          | none => .error (.internal "RuntimeError")
        | _ => .error .unsupported
      | some .object => execSel n path (mergeSelectionSets fields)     -- 5.
      | some .interface | some .union =>
        match result with
        | .obj rt =>                                                   -- ResolveAbstractType
          match kindOf s rt with
          | none => .error (.internal "UnknownType")
          | some .object =>
            if isPossibleType s n rt then execSel rt path (mergeSelectionSets fields)
            else .error (.internal "RuntimeError")
          | some _ => .error (.internal "RuntimeError")
        | .raise _ msg ext => .error (.raised (.resolver msg ext) none [])  -- ResolveAbstractType fails: field error
        | _ => .error (.internal "UnknownType")
      | _ => .error (.internal "TypeError")

/-- `ExecuteField` for the group `fields` of one response key -/
def executeFieldS (s : SchemaD) (w : World) (execSel : String → Path → List Sel → R (Data × List Err))
    (objectType : String) (path : Path) (fields : List FNode) (fd : FieldD) : R (Data × List Err) :=
  match fields with
  | [] => .error (.internal "IndexError")
  | field :: _ =>
    match (field.args.find? (·.1 == objectType)).map (·.2) with
    | none | some none => .ok (.null, [{ path := path, locs := [field.loc], kind := .coercion }])
    | some (some argumentValues) =>
      match w objectType fd.name path argumentValues with               -- ResolveFieldValue
      | .err msg ext => .ok (.null, [{ path := path, locs := [field.loc], kind := .resolver msg ext }])
      | .boom => .error (.internal "unexpected")
      | .val v =>
        -- "If completing the value raises a field error: record it and return null for this field"
        catchField path field.loc (completeValueS s execSel fields fd.type path v)

/-- the `for each groupedFieldSet` loop of `ExecuteSelectionSet` -/
def executeGroupsS (s : SchemaD) (w : World) (execSel : String → Path → List Sel → R (Data × List Err))
    (objectType : String) (path : Path) : Grouped → R (List (String × Data) × List Err)
  | [] => .ok ([], [])
  | (responseKey, fields) :: rest =>
    match fields with
    | [] => .error (.internal "IndexError")
    | field :: _ =>
      if isMeta field.name then
        if field.name == "__typename" then do
          let (kvs, es) ← executeGroupsS s w execSel objectType path rest
          pure ((responseKey, .leaf (.str objectType)) :: kvs, es)
        else if s.query == some objectType then .error .unsupported
        else .error (.internal "UnboundLocalError")
      else
        match fieldOf s objectType field.name with
        | none => executeGroupsS s w execSel objectType path rest        -- 3.c: field not defined ⇒ skipped
        | some fd => do
          let (d, e) ← executeFieldS s w execSel objectType (path ++ [.key responseKey]) fields fd
          let (kvs, es) ← executeGroupsS s w execSel objectType path rest
          pure ((responseKey, d) :: kvs, e ++ es)

/-- `ExecuteSelectionSet` -/
def executeSelectionSetS (s : SchemaD) (doc : Doc) (vars : Vars) (w : World) (cf : Nat) :
    Nat → String → Path → List Sel → R (Data × List Err)
  | 0 => fun _ _ _ => .error .outOfFuel
  | n + 1 => fun objectType path selectionSet => do
    -- a directive condition that cannot be evaluated is a field error of the enclosing field
    let (groupedFieldSet, _) ← catchDirective (collectFieldsS s doc vars cf objectType selectionSet [])
    let (resultMap, es) ← executeGroupsS s w (executeSelectionSetS s doc vars w cf n) objectType path groupedFieldSet
    pure (.obj resultMap, es)

/-- `ExecuteRequest` / `ExecuteQuery` / `ExecuteMutation` (serial = same order in a blocking executor) -/
def executeRequestS (s : SchemaD) (doc : Doc) (vars : Vars) (w : World) (opname : Option String) (fuel cf : Nat) : Response :=
  match getOperation doc opname with
  | none => .abort "operation"
  | some op =>
    match rootType s op.kind with
    | none => .abort "operation"
    | some root =>
      -- `execute` raises InvalidOperationError for subscriptions (fix X5): reported as a response error
      if op.kind == "subscription" then .abort "operation"
      else
        match executeSelectionSetS s doc vars w cf fuel root [] op.sels with
        | .ok (d, es) => .result d es
        | .error (.raised k l inner) => .result .null (inner ++ [{ path := [], locs := l.getD [], kind := k }])
        | .error f => .failed f

end PyGql.Spec

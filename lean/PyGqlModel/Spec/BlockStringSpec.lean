/-
  SPECIFICATION: `BlockStringValue(rawValue)` — GraphQL June 2018 §2.9.4 (String Value, static semantics),
  transcribed step by step. LineTerminator :: LF | CR [lookahead ≠ LF] | CR LF.  WhiteSpace :: TAB | SPACE.
  Written independently of the model (`BlockString.lean`): current-line accumulator for the split,
  minimum of a filtered list for the common indent, `reverse ∘ dropWhile ∘ reverse` for the trailing lines.
-/
import PyGqlModel.Token

namespace PyGql.Spec

/-- WhiteSpace :: Horizontal Tab (U+0009) | Space (U+0020) -/
def isWhiteSpace (c : Nat) : Bool := c == 9 || c == 32

/-- step 1: "Let lines be the result of splitting rawValue by LineTerminator" —
    `cur` is the line being collected (reversed). -/
def splitByLineTerminator (cur : Text) : Text → List Text
  | [] => [cur.reverse]
  | [c] => if c = 10 ∨ c = 13 then [cur.reverse, []] else [(c :: cur).reverse]
  | c :: d :: t =>
    if c = 13 ∧ d = 10 then cur.reverse :: splitByLineTerminator [] t          -- CR LF
    else if c = 10 ∨ c = 13 then cur.reverse :: splitByLineTerminator [] (d :: t) -- LF | CR
    else splitByLineTerminator (c :: cur) (d :: t)

/-- step 3c: "the number of leading consecutive WhiteSpace characters in line" -/
def indentOf (line : Text) : Nat := (line.takeWhile isWhiteSpace).length

/-- steps 2–3: the smallest `indent` among the lines after the first with `indent < length` (`null` if none) -/
def commonIndent (lines : List Text) : Option Nat :=
  ((lines.drop 1).filter (fun l => indentOf l < l.length)).map indentOf |>.min?

/-- "contains only WhiteSpace" -/
def onlyWhiteSpace (line : Text) : Bool := line.all isWhiteSpace

/-- step 7: first line, then LF + line for the others -/
def formatted : List Text → Text
  | [] => []
  | l :: ls => ls.foldl (fun acc x => acc ++ 10 :: x) l

/-- `BlockStringValue(rawValue)` -/
def BlockStringValue (raw : Text) : Text :=
  let lines := splitByLineTerminator [] raw                                   -- 1
  let lines := match commonIndent lines with                                  -- 2, 3
    | some k => match lines with                                              -- 4
      | first :: rest => first :: rest.map (fun (l : Text) => l.drop k)
      | [] => []
    | none => lines
  let lines := lines.dropWhile onlyWhiteSpace                                 -- 5
  let lines := (lines.reverse.dropWhile onlyWhiteSpace).reverse               -- 6
  formatted lines                                                             -- 7, 8

end PyGql.Spec

/-
  C07 — SPECIFICATION: what it means for a Python value to conform to an input type
  (`Conforms`), what a well-formed registry is (`RegOK`), the literal spelling of a JSON value
  (`AstOfJson`), and when the variables used inside a literal fit their positions (`VarsFit`).
  Readable against GraphQL June 2018 §3 (input coercion of each type kind) and §6.4.1 (CoerceArgumentValues).
-/
import PyGqlModel.Coerce

namespace PyGql.Coerce
open PyGql

/-- the closed signed 32-bit interval -/
def InRange32 (n : Int) : Prop := -2147483648 ≤ n ∧ n ≤ 2147483647

instance (n : Int) : Decidable (InRange32 n) := by unfold InRange32; infer_instance

/-- A value a custom scalar's OWN parser produced — from some non-null JSON value (`parse`) or from some literal that
    `value_from_ast` hands it: never `null` (answered `None` before any parser is asked: `vfaCore` tests `isNull` first), never
    a bare `$x` (`_extract_variable` answers it), and `litAdmitted` (scalar literals; any literal if the scalar has its own
    `parse_literal`): "the scalar accepted it". Nothing else is known, or needs to be known, about a custom scalar.
    (Audit C07-F1: without the two exclusions the stand-in scalar of `build_schema`, whose `_untyped_literal` answers `None`
    to `null`, made `CustomOK reg n .none` true and hence `RegOK.customNotNone` — and every soundness theorem — vacuous for
    every SDL schema declaring a scalar. `customNotNone_ofTypes` / `regOK_satisfiable_with_default_scalar` in
    Props/C07_regok.lean now PROVE the hypothesis for the registries the library builds.) -/
def CustomOK (reg : Reg) (n : String) (pv : PV) : Prop :=
  (∃ v, v.isNull = false ∧ reg.customParse n v = .value pv) ∨
  (∃ l vs, l.isNull = false ∧ (∀ x, l ≠ .var x) ∧ litAdmitted reg n l = true ∧ reg.customParseLiteral n vs l = .value pv)

mutual
/-- `Conforms reg ty v`: the Python value `v` is a legal resolver argument for a position of type `ty`.
    * non-null ⇒ not `None`;
    * list ⇒ a list whose items conform;
    * `Int` ⇒ an integer of the closed signed 32-bit interval (never a Python `bool`);
    * `Float` ⇒ a float; `String`/`ID` ⇒ a str; `Boolean` ⇒ a bool; custom scalar ⇒ a value its own parser accepted (`CustomOK`);
    * enum ⇒ the INTERNAL value of one of its names;
    * input object ⇒ a dict, in field order keyed by the PYTHON names, every present field conforming,
      declared defaults filled in, an entry absent only for a nullable field without default, nothing else. -/
inductive Conforms (reg : Reg) : Ty → PV → Prop
  | null {t : Ty} : t.isNonNull = false → Conforms reg t .none
  | nonNull {t : Ty} {pv : PV} : pv.isNone = false → Conforms reg t pv → Conforms reg (.nonNull t) pv
  | list {t : Ty} {l : List PV} : (∀ x, x ∈ l → Conforms reg t x) → Conforms reg (.list t) (.list l)
  | int {n : String} {k : Int} : reg.get? n = some .int → InRange32 k → Conforms reg (.named n) (.int k)
  | float {n : String} {f : Flt} : reg.get? n = some .float → Conforms reg (.named n) (.float f)
  | string {n : String} {s : String} : reg.get? n = some .string → Conforms reg (.named n) (.str s)
  | boolean {n : String} {b : Bool} : reg.get? n = some .boolean → Conforms reg (.named n) (.bool b)
  | id {n : String} {s : String} : reg.get? n = some .id → Conforms reg (.named n) (.str s)
  | custom {n : String} {pv : PV} : reg.get? n = some .custom → CustomOK reg n pv → Conforms reg (.named n) pv
  | enum {n : String} {vs : List (String × PV)} {p : String × PV} :
      reg.get? n = some (.enum vs) → p ∈ vs → Conforms reg (.named n) p.2
  | input {n : String} {fs : List InField} {kvs : List (String × PV)} :
      reg.get? n = some (.input fs) → ConformsFields reg fs kvs → Conforms reg (.named n) (.dict kvs)
/-- keyword arguments / input-object dict against the declared fields, in declaration order -/
inductive ConformsFields (reg : Reg) : List InField → List (String × PV) → Prop
  | nil : ConformsFields reg [] []
  | present {f : InField} {fs : List InField} {pv : PV} {kvs : List (String × PV)} :
      Conforms reg f.type pv → ConformsFields reg fs kvs → ConformsFields reg (f :: fs) ((f.pyName, pv) :: kvs)
  | absent {f : InField} {fs : List InField} {kvs : List (String × PV)} :
      f.default = none → f.type.isNonNull = false → ConformsFields reg fs kvs → ConformsFields reg (f :: fs) kvs
end

/-- well-formed registry: field types are well-formed type expressions, declared defaults conform to
    their types (a schema built from SDL coerces them with `value_from_ast`), enum internal values are not `None`,
    a custom scalar's parser never answers `None` to a non-null input — a non-null JSON value, or a literal other than `null` / `$x`,
    which are the only inputs the library hands it (the counterpart of `enumNotNone` for user code; `default_scalar` meets it:
    `customNotNone_ofTypes`),
    the python names of one input object's fields are pairwise distinct (otherwise two fields write the same dict key;
    the model follows that collision, `dictOfAssignments`, but then no dict can hold both fields). -/
structure RegOK (reg : Reg) : Prop where
  fieldWf : ∀ n fs, reg.get? n = some (.input fs) → ∀ f, f ∈ fs → f.type.wf = true
  defaultsConform : ∀ n fs, reg.get? n = some (.input fs) → ∀ f, f ∈ fs → ∀ d, f.default = some d → Conforms reg f.type d
  enumNotNone : ∀ n vs, reg.get? n = some (.enum vs) → ∀ p, p ∈ vs → p.2.isNone = false
  pyNamesDistinct : ∀ n fs, reg.get? n = some (.input fs) → (fs.map (fun f => f.pyName)).Nodup
  customNotNone : ∀ n pv, reg.get? n = some .custom → CustomOK reg n pv → pv.isNone = false

/-- argument definitions of a field / directive: same three conditions -/
structure ArgsOK (reg : Reg) (defs : List InField) : Prop where
  wf : ∀ d, d ∈ defs → d.type.wf = true
  defaultsConform : ∀ d, d ∈ defs → ∀ v, d.default = some v → Conforms reg d.type v
  pyNamesDistinct : (defs.map (fun d => d.pyName)).Nodup

def Lit.isLeaf : Lit → Bool
  | .null => true | .int _ => true | .float _ => true | .str _ => true | .bool _ => true | .enum _ => true
  | _ => false

/-- The variables used inside literal `l` at a position of type `ty` hold values that fit that position
    (what `coerce_variable_values` + the validation rule VariablesInAllowedPosition establish): a bound,
    non-None variable value conforms to the position's type with its outer non-null removed
    (`_extract_variable` itself refuses None at a non-null position). -/
inductive VarsFit (reg : Reg) (vars : Option (List (String × PV))) : Ty → Lit → Prop
  | var {ty : Ty} {x : String} :
      (∀ vs v, vars = some vs → lookupLast x vs = some v → v.isNone = false → Conforms reg (stripNN ty) v) →
      VarsFit reg vars ty (.var x)
  | leaf {ty : Ty} {l : Lit} : l.isLeaf = true → VarsFit reg vars ty l
  | listItems {ty t' : Ty} {items : List Lit} : stripNN ty = .list t' →
      (∀ i, i ∈ items → VarsFit reg vars t' i) → VarsFit reg vars ty (.list items)
  | listSingle {ty t' : Ty} {lkvs : List (String × Lit)} : stripNN ty = .list t' →
      VarsFit reg vars t' (.obj lkvs) → VarsFit reg vars ty (.obj lkvs)
  | obj {ty : Ty} {n : String} {fs : List InField} {lkvs : List (String × Lit)} : stripNN ty = .named n →
      reg.get? n = some (.input fs) →
      (∀ f, f ∈ fs → ∀ l, lookupLast f.name lkvs = some l → VarsFit reg vars f.type l) →
      VarsFit reg vars ty (.obj lkvs)
  /-- a literal other than `$x` at a custom-scalar position (a list or object literal included: the scalar's own
      `parse_literal` is handed the whole literal and the variables, and whatever it answers is `CustomOK`): nothing to check
      (audit C07-F2: without this constructor `[1]` / `{a: 1}` at a JSON-like scalar made `arguments_sound` inapplicable) -/
  | scalarPos {ty : Ty} {n : String} {l : Lit} : stripNN ty = .named n → reg.get? n = some .custom → (∀ x, l ≠ .var x) →
      VarsFit reg vars ty l

/-- What the validation rule VariablesInAllowedPosition has checked for the variables used inside literal `l` at a
    position of type `ty` (`hasDefault`: the position — argument or input field — declares a default): every usage `$x`
    is allowed (`allowedUsage`) against every definition of `$x`. Same shape as `VarsFit`; list items never have a default,
    input fields have the field's. -/
inductive VarsAllowed (reg : Reg) (defs : List VarDef) : Ty → Bool → Lit → Prop
  | var {ty : Ty} {hasDefault : Bool} {x : String} :
      (∀ d, d ∈ defs → d.name = x → allowedUsage d.type d.hasNonNullDefault ty hasDefault = true) →
      VarsAllowed reg defs ty hasDefault (.var x)
  | leaf {ty : Ty} {hasDefault : Bool} {l : Lit} : l.isLeaf = true → VarsAllowed reg defs ty hasDefault l
  | listItems {ty t' : Ty} {hasDefault : Bool} {items : List Lit} : stripNN ty = .list t' →
      (∀ i, i ∈ items → VarsAllowed reg defs t' false i) → VarsAllowed reg defs ty hasDefault (.list items)
  | listSingle {ty t' : Ty} {hasDefault : Bool} {lkvs : List (String × Lit)} : stripNN ty = .list t' →
      VarsAllowed reg defs t' false (.obj lkvs) → VarsAllowed reg defs ty hasDefault (.obj lkvs)
  | obj {ty : Ty} {hasDefault : Bool} {n : String} {fs : List InField} {lkvs : List (String × Lit)} : stripNN ty = .named n →
      reg.get? n = some (.input fs) →
      (∀ f, f ∈ fs → ∀ l, lookupLast f.name lkvs = some l → VarsAllowed reg defs f.type f.default.isSome l) →
      VarsAllowed reg defs ty hasDefault (.obj lkvs)
  /-- a literal other than `$x` at a custom-scalar position: the rule checks nothing inside it (it has no type to check against) -/
  | scalarPos {ty : Ty} {hasDefault : Bool} {n : String} {l : Lit} : stripNN ty = .named n → reg.get? n = some .custom →
      (∀ x, l ≠ .var x) → VarsAllowed reg defs ty hasDefault l

/-- the literal spelling of a JSON scalar, type-blind (what a custom scalar's `parse_literal` is handed) -/
inductive LeafSpell : JV → Lit → Prop
  | int {k : Int} : LeafSpell (.int k) (.int k)
  | float {t : String} : LeafSpell (.float t) (.float t)
  | str {s : String} : LeafSpell (.str s) (.str s)
  | bool {b : Bool} : LeafSpell (.bool b) (.bool b)

/-- A custom scalar whose two parsers agree on every JSON scalar and its literal spelling (same value, or both refuse).
    This is the scalar AUTHOR's obligation; `default_scalar` meets it on strings and booleans only (`parse` is the identity,
    `parse_literal` hands over the literal's TEXT: `5` vs `"5"`). -/
def CustomAgree (reg : Reg) : Prop :=
  ∀ n vs j l, reg.get? n = some .custom → LeafSpell j l → (reg.customParseLiteral n vs l).toR.toOption = (reg.customParse n j).toR.toOption

/-- `CustomAgree` restricted to the custom scalars whose name satisfies `S` (the positions a request can reach) -/
def CustomAgreeOn (reg : Reg) (S : String → Prop) : Prop :=
  ∀ n vs j l, S n → reg.get? n = some .custom → LeafSpell j l → (reg.customParseLiteral n vs l).toR.toOption = (reg.customParse n j).toR.toOption

/-- `Reach reg ty n`: the named type `n` is a POSITION inside values of type `ty`: the base of `ty`, or the base of a field's
    type of an input object that is itself such a position (recursive input objects included). -/
inductive Reach (reg : Reg) (ty : Ty) : String → Prop
  | base : Reach reg ty ty.base
  | field {n : String} {fs : List InField} {f : InField} :
      Reach reg ty n → reg.get? n = some (.input fs) → f ∈ fs → Reach reg ty f.type.base

/-- a set of type names closed under "field of an input object" -/
def InputClosed (reg : Reg) (S : String → Prop) : Prop :=
  ∀ n fs f, S n → reg.get? n = some (.input fs) → f ∈ fs → S f.type.base

mutual
/-- `AstOfJson reg ty j l`: `l` is the literal spelling (`astOfJson`) of the JSON value `j` at a position of
    type `ty`, and `j` is of the NATURAL JSON kind for `ty`:
    integers for `Int`; integers and floats for `Float`; strings for `String`; booleans for `Boolean`;
    strings and integers for `ID`; any JSON scalar for a custom scalar; a string (spelled as an enum
    value) for an enum; an array, or a single non-array value, for a list; an object for an input object. -/
inductive AstOfJson (reg : Reg) : Ty → JV → Lit → Prop
  | null {ty : Ty} : AstOfJson reg ty .null .null
  | nonNull {t : Ty} {j : JV} {l : Lit} : t.isNonNull = false → AstOfJson reg t j l → AstOfJson reg (.nonNull t) j l
  | intInt {n : String} {k : Int} : reg.get? n = some .int → AstOfJson reg (.named n) (.int k) (.int k)
  | floatInt {n : String} {k : Int} : reg.get? n = some .float → AstOfJson reg (.named n) (.int k) (.int k)
  | floatFloat {n : String} {t : String} : reg.get? n = some .float → AstOfJson reg (.named n) (.float t) (.float t)
  | string {n : String} {s : String} : reg.get? n = some .string →
      AstOfJson reg (.named n) (.str s) (.str s)
  | boolean {n : String} {b : Bool} : reg.get? n = some .boolean → AstOfJson reg (.named n) (.bool b) (.bool b)
  | idStr {n : String} {s : String} : reg.get? n = some .id →
      AstOfJson reg (.named n) (.str s) (.str s)
  | idInt {n : String} {k : Int} : reg.get? n = some .id → AstOfJson reg (.named n) (.int k) (.int k)
  | custom {n : String} {j : JV} {l : Lit} : reg.get? n = some .custom → LeafSpell j l → AstOfJson reg (.named n) j l
  | enum {n : String} {vs : List (String × PV)} {s : String} :
      reg.get? n = some (.enum vs) → AstOfJson reg (.named n) (.str s) (.enum s)
  | list {t : Ty} {js : List JV} {ls : List Lit} : AstOfJsonL reg t js ls → AstOfJson reg (.list t) (.list js) (.list ls)
  | single {t : Ty} {j : JV} {l : Lit} : (∀ js, j ≠ .list js) → AstOfJson reg t j l → AstOfJson reg (.list t) j l
  | obj {n : String} {fs : List InField} {kvs : List (String × JV)} {lkvs : List (String × Lit)} :
      reg.get? n = some (.input fs) → AstOfJsonF reg fs kvs lkvs → AstOfJson reg (.named n) (.obj kvs) (.obj lkvs)
inductive AstOfJsonL (reg : Reg) : Ty → List JV → List Lit → Prop
  | nil {t : Ty} : AstOfJsonL reg t [] []
  | cons {t : Ty} {j : JV} {l : Lit} {js : List JV} {ls : List Lit} :
      AstOfJson reg t j l → AstOfJsonL reg t js ls → AstOfJsonL reg t (j :: js) (l :: ls)
/-- object members: same keys in the same order; a key naming a declared field is spelled at that field's type
    (a key the type does not define may be spelled anyhow: both routes refuse the object) -/
inductive AstOfJsonF (reg : Reg) : List InField → List (String × JV) → List (String × Lit) → Prop
  | nil {fs : List InField} : AstOfJsonF reg fs [] []
  | cons {fs : List InField} {k : String} {j : JV} {l : Lit} {kvs : List (String × JV)} {lkvs : List (String × Lit)} :
      (∀ f, f ∈ fs → f.name = k → AstOfJson reg f.type j l) → AstOfJsonF reg fs kvs lkvs →
      AstOfJsonF reg fs ((k, j) :: kvs) ((k, l) :: lkvs)
end

/-- **NaturalKind.** `j` is of the natural JSON kind for a position of type `ty`: it HAS a literal spelling there
    (integers for `Int`; integers and floats for `Float`; strings for `String`; booleans for `Boolean`; strings and
    integers for `ID`; a name for an enum; an array or a single value for a list; an object for an input object; …).
    This is exactly the hypothesis under which `literal_variable_equiv` holds; outside it the statement is FALSE of today's
    code (known finding A8: `literal_variable_equiv_refuted_cross_kind`). -/
def NaturalKind (reg : Reg) (ty : Ty) (j : JV) : Prop := ∃ l, AstOfJson reg ty j l

end PyGql.Coerce

/-
  C05 - the static checks of a document that `accepted_cannot_go_wrong_computable` (Props/C05_overlap_executed.lean) assumes,
  as computable functions (core Lean only: the driver evaluates `docChecksB` on the validator-side JSON of every accepted
  document, op `edoc`). Soundness for the declarative hypotheses: `aliasesNonEmpty_of_check`, `noIntrospection_of_check`,
  `C06.wfIdsB_iff`, `noMetaSubsB_iff`.
-/
import PyGqlModel.Spec.ValidSpec
import PyGqlModel.Validate.WfIds
import PyGqlModel.Validate.WfMeta

namespace PyGql.Props.C05
open PyGql
open PyGql.Validate.Spec (nodes)

mutual
def selAliasB : Validate.Sel → Bool
  | .field al _ _ _ _ _ sub => al != some "" && selsAliasB sub
  | .spread _ _ => true
  | .inline _ _ _ sub => selsAliasB sub
def selsAliasB : List Validate.Sel → Bool
  | [] => true
  | x :: xs => selAliasB x && selsAliasB xs
end

/-- no field of the document has the empty alias -/
def aliasesB (d : Validate.Doc) : Bool :=
  d.defs.all fun
    | .op _ _ _ _ _ sels => selsAliasB sels
    | .frag _ _ _ _ sels => selsAliasB sels
    | .ts .. => true

/-- no `__schema` / `__type` field anywhere in the document (computable form of `NoIntrospection`) -/
def noIntrospectionB (d : Validate.Doc) : Bool :=
  (nodes d).all fun n => match n with
    | .field name _ _ _ => name != "__schema" && name != "__type"
    | _ => true

/-- the static checks of a document: distinct selection-set identities, no meta field with a sub-selection, no empty
    alias, no empty fragment name, no `__schema` / `__type` selection -/
def docChecksB (d : Validate.Doc) : Bool :=
  Validate.wfIdsB d && Validate.noMetaSubsB d && aliasesB d && (Validate.Spec.fragNames d).all (· != "") && noIntrospectionB d

end PyGql.Props.C05

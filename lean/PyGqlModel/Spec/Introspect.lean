/-
  C15 — SPECIFICATION side: reading an introspection result back into a schema description
  (`schemaOfIntrospection`), and what of a description is observable at all (`norm`).

  `norm` is the order-insensitivity / invisibility the statement allows, written out:
    * types and directives come sorted by name, union members sorted by name;
    * an enum value's internal (Python) value is not observable;
    * a default is observable as its printed text only (`defaultValue`), absence as null;
    * component lists that do not apply to a type's kind are not observable (they are empty in every
      description dumped from a live schema);
    * execution-side attributes of the shared description (resolver signatures, `python_name`, `builtin`,
      default resolvers) are not part of what introspection reports.
  Nothing else is dropped: names, kinds, descriptions, fields with arguments and types, deprecation
  reasons, interfaces, input fields, enum values, directives with locations and arguments, root types.
-/
import PyGqlModel.Introspect

namespace PyGql.Introspect.Spec
open PyGql PyGql.Introspect PyGql.Generated.Introspection

def optStr (j : J) (k : String) : Option String := (j.get? k).bind J.asStr?

/-- TypeRef JSON → type expression (`fuel` = number of levels the query asks for) -/
def tyOfRef : Nat → J → Ty
  | 0, _ => .named ""
  | n+1, j =>
    if j.strD "kind" == "LIST" then .list (tyOfRef n (j.getD "ofType"))
    else if j.strD "kind" == "NON_NULL" then .nonNull (tyOfRef n (j.getD "ofType"))
    else .named (j.strD "name")

def kindOfString (k : String) : Kind :=
  match typeKindTable.find? (·.2 == k) with
  | some (tag, _) => (Kind.ofString tag).getD .scalar
  | none => .scalar

def argOf (j : J) : ArgD :=
  { name := j.strD "name", type := tyOfRef typeRefLevels (j.getD "type"), hasDefault := !(j.getD "defaultValue").isNull,
    default := j.getD "defaultValue", desc := optStr j "description" }

def fieldOf (j : J) : FieldD :=
  { name := j.strD "name", type := tyOfRef typeRefLevels (j.getD "type"), args := (j.arrD "args").map argOf,
    deprecated := if j.boolD "isDeprecated" then optStr j "deprecationReason" else none, desc := optStr j "description" }

def enumValOf (j : J) : EnumValD :=
  { name := j.strD "name", value := .null,
    deprecated := if j.boolD "isDeprecated" then optStr j "deprecationReason" else none, desc := optStr j "description" }

def typeOf (j : J) : TypeD :=
  let k := kindOfString (j.strD "kind")
  { kind := k, name := j.strD "name", desc := optStr j "description",
    interfaces := (j.arrD "interfaces").map (·.strD "name"),
    fields := (j.arrD "fields").map fieldOf,
    members := if k == .union then (j.arrD "possibleTypes").map (·.strD "name") else [],
    values := (j.arrD "enumValues").map enumValOf,
    inputFields := (j.arrD "inputFields").map argOf }

def directiveOf (j : J) : DirectiveD :=
  { name := j.strD "name", locations := (j.arrD "locations").filterMap J.asStr?, args := (j.arrD "args").map argOf,
    desc := optStr j "description" }

def rootOf (j : J) : Option String := match j with | .null => none | o => some (o.strD "name")

/-- the decoder: `data` of the standard introspection query → schema description -/
def schemaOfIntrospection (data : J) : SchemaD :=
  let s := data.getD "__schema"
  { types := (s.arrD "types").map typeOf, directives := (s.arrD "directives").map directiveOf,
    query := rootOf (s.getD "queryType"), mutation := rootOf (s.getD "mutationType"),
    subscription := rootOf (s.getD "subscriptionType") }

/-- the one part of the answer the schema description has no slot for: `possibleTypes` of every reported INTERFACE
    (name of the interface, names listed) — for unions `possibleTypes` is decoded into `members` by `typeOf` -/
def interfacePossibleOf (data : J) : List (String × List String) :=
  (((data.getD "__schema").arrD "types").filter fun j => kindOfString (j.strD "kind") == .interface).map
    fun j => (j.strD "name", (j.arrD "possibleTypes").map (·.strD "name"))

/-- the WHOLE decoder: every entry of the standard introspection result is read — types (kind, name, description, fields
    with arguments, input fields, enum values, interfaces, possibleTypes of unions AND interfaces), directives (locations,
    arguments), root types, deprecation -/
def decodeAll (data : J) : SchemaD × List (String × List String) := (schemaOfIntrospection data, interfacePossibleOf data)

/-- what a schema determines about its interfaces' possible types: per interface (in the listing order of the types), the
    names of the object types that declare it, sorted -/
def implementers (s : SchemaD) : List (String × List String) :=
  ((sortBy (·.name) s.types).filter fun t => t.kind == .interface).map fun t =>
    (t.name, sortBy id ((s.types.filter fun o => o.kind == .object && o.interfaces.contains t.name).map (·.name)))

/-! ### what is observable -/

/-! `norm` is written as explicit PROJECTIONS on the components introspection can observe: every other field of
    the shared description (resolver signatures, `python_name`, `builtin`, … — added by other properties) takes its
    declared default, exactly as in what the decoder builds. -/

def normArg (s : SchemaD) (a : ArgD) : ArgD :=
  { name := a.name, type := a.type,
    hasDefault := (formatDefaultValue s a.hasDefault a.default a.type).isSome,
    default := jChars (formatDefaultValue s a.hasDefault a.default a.type), desc := a.desc }

def normField (s : SchemaD) (f : FieldD) : FieldD :=
  { name := f.name, type := f.type, args := f.args.map (normArg s), deprecated := f.deprecated, desc := f.desc }

def normEnumVal (v : EnumValD) : EnumValD :=
  { name := v.name, value := .null, deprecated := v.deprecated, desc := v.desc }

def normType (s : SchemaD) (t : TypeD) : TypeD :=
  { kind := t.kind, name := t.name, desc := t.desc,
    interfaces := if t.kind == .object then t.interfaces else [],
    fields := if t.kind == .object || t.kind == .interface then t.fields.map (normField s) else [],
    members := if t.kind == .union then sortBy id t.members else [],
    values := if t.kind == .enum then t.values.map normEnumVal else [],
    inputFields := if t.kind == .input then t.inputFields.map (normArg s) else [] }

def normDirective (s : SchemaD) (d : DirectiveD) : DirectiveD :=
  { name := d.name, locations := d.locations, args := d.args.map (normArg s), desc := d.desc }

def norm (s : SchemaD) : SchemaD :=
  { types := (sortBy (·.name) s.types).map (normType s),
    directives := (sortBy (·.name) s.directives).map (normDirective s),
    query := s.query, mutation := s.mutation, subscription := s.subscription }

/-- every type reference fits the 8 levels of the standard query's `TypeRef` fragment -/
def argsFit (as : List ArgD) : Bool := as.all fun a => a.type.size ≤ typeRefLevels
def DepthOk (s : SchemaD) : Bool :=
  s.types.all (fun t => t.fields.all (fun f => f.type.size ≤ typeRefLevels && argsFit f.args) && argsFit t.inputFields)
  && s.directives.all (fun d => argsFit d.args)

/-- the full statement of `introspect_lossless` -/
def LosslessStatement : Prop :=
  ∀ s : SchemaD, DepthOk s = true → schemaOfIntrospection (introspect s true) = norm s

end PyGql.Introspect.Spec

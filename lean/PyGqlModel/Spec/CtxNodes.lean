/-
  Generic form of "every node of the document with its static context": the context `x : X` of a node is
  obtained from the context of its parent by `down` (given per kind of context: output types, input types,
  chain of enclosing directive locations, ...). Plain structural recursion, no visitor, no stacks to balance.
  `gnDoc down x0 d` lists every node below the document node with the context in which rules look at it.
-/
import PyGqlModel.Spec.TypedNodes
namespace PyGql.Validate.Spec
open PyGql PyGql.Validate

section
variable {X : Type} (down : Node → X → X)

mutual
def gnValue (x : X) : Value → List (Node × X)
  | .list vs => (.value (.list vs), down (.value (.list vs)) x) :: gnValues (down (.value (.list vs)) x) vs
  | .obj fs => (.value (.obj fs), down (.value (.obj fs)) x) :: gnObjFields (down (.value (.obj fs)) x) fs
  | .var a => [(.value (.var a), down (.value (.var a)) x)]
  | .int a => [(.value (.int a), down (.value (.int a)) x)]
  | .float a => [(.value (.float a), down (.value (.float a)) x)]
  | .str a => [(.value (.str a), down (.value (.str a)) x)]
  | .bool a => [(.value (.bool a), down (.value (.bool a)) x)]
  | .null => [(.value .null, down (.value .null) x)]
  | .enum a => [(.value (.enum a), down (.value (.enum a)) x)]
def gnValues (x : X) : List Value → List (Node × X)
  | [] => []
  | v :: vs => gnValue x v ++ gnValues x vs
def gnObjField (x : X) : ObjField → List (Node × X)
  | .mk n v => (.objField n, down (.objField n) x) :: gnValue (down (.objField n) x) v
def gnObjFields (x : X) : List ObjField → List (Node × X)
  | [] => []
  | f :: fs => gnObjField x f ++ gnObjFields x fs
end

def gnArg (x : X) (a : Arg) : List (Node × X) :=
  (.argument a, down (.argument a) x) :: gnValue down (down (.argument a) x) a.value
def gnArgs (x : X) (as : List Arg) : List (Node × X) := as.flatMap (gnArg down x)
def gnDir (x : X) (d : Dir) : List (Node × X) :=
  (.directive d, down (.directive d) x) :: gnArgs down (down (.directive d) x) d.args
def gnDirs (x : X) (ds : List Dir) : List (Node × X) := ds.flatMap (gnDir down x)

mutual
def gnSel (x : X) : Sel → List (Node × X)
  | .field _ name args dirs hs id sub =>
    (.field name args dirs hs, down (.field name args dirs hs) x) ::
      (gnArgs down (down (.field name args dirs hs) x) args ++ gnDirs down (down (.field name args dirs hs) x) dirs ++
        (if hs then (.selectionSet id sub, down (.selectionSet id sub) (down (.field name args dirs hs) x)) ::
          gnSels (down (.selectionSet id sub) (down (.field name args dirs hs) x)) sub else []))
  | .spread name dirs => (.spread name dirs, down (.spread name dirs) x) :: gnDirs down (down (.spread name dirs) x) dirs
  | .inline on dirs id sub =>
    (.inline on dirs, down (.inline on dirs) x) ::
      (gnDirs down (down (.inline on dirs) x) dirs ++
        (.selectionSet id sub, down (.selectionSet id sub) (down (.inline on dirs) x)) ::
          gnSels (down (.selectionSet id sub) (down (.inline on dirs) x)) sub)
def gnSels (x : X) : List Sel → List (Node × X)
  | [] => []
  | s :: ss => gnSel x s ++ gnSels x ss
end

def gnVarDef (x : X) (v : VarDef) : List (Node × X) :=
  (.varDef v, down (.varDef v) x) ::
    ((match v.default with | some dv => gnValue down (down (.varDef v) x) dv | none => []) ++
      (.typeNode v.type, down (.typeNode v.type) (down (.varDef v) x)) :: gnDirs down (down (.varDef v) x) v.dirs)

def gnDef (x : X) : Def → List (Node × X)
  | .op kind name vars dirs id sels =>
    (.operation kind name vars dirs sels, down (.operation kind name vars dirs sels) x) ::
      (vars.flatMap (gnVarDef down (down (.operation kind name vars dirs sels) x)) ++
        gnDirs down (down (.operation kind name vars dirs sels) x) dirs ++
        (.selectionSet id sels, down (.selectionSet id sels) (down (.operation kind name vars dirs sels) x)) ::
          gnSels down (down (.selectionSet id sels) (down (.operation kind name vars dirs sels) x)) sels)
  | .frag name on dirs id sels =>
    (.fragmentDef name on dirs, down (.fragmentDef name on dirs) x) ::
      (gnDirs down (down (.fragmentDef name on dirs) x) dirs ++
        (.selectionSet id sels, down (.selectionSet id sels) (down (.fragmentDef name on dirs) x)) ::
          gnSels down (down (.selectionSet id sels) (down (.fragmentDef name on dirs) x)) sels)
  | .ts .. => [(.tsDef, down .tsDef x)]

/-- every node below the document node with its context; `x0` is the context of the definitions -/
def gnDoc (x0 : X) (d : Doc) : List (Node × X) := d.defs.flatMap (gnDef down x0)

end

end PyGql.Validate.Spec

namespace PyGql.Validate.Spec
open PyGql PyGql.Validate

/-- chain of enclosing directive locations: the kind of node a directive is attached to is the head -/
def ancDown : Node → List Anc → List Anc
  | .operation kind .., x => .op kind :: x
  | .field .., x => .field :: x
  | .spread .., x => .spread :: x
  | .inline .., x => .inline :: x
  | .fragmentDef .., x => .fragDef :: x
  | .varDef _, x => .varDef :: x
  | _, x => x

/-- **5.7.1 / 5.7.2 Directives are defined and used in a location they list** -/
def knownDirectives (s : SchemaD) (d : Doc) : Prop :=
  ∀ p ∈ gnDoc ancDown [] d, ∀ dr, p.1 = Node.directive dr →
    ∃ sd, findDirective s dr.name = some sd ∧ ∀ a rest, p.2 = a :: rest → a.location ∈ sd.locations

end PyGql.Validate.Spec

namespace PyGql.Validate.Spec
open PyGql PyGql.Validate

/-- every node below the document with its output-side static context (`View`) -/
def viewNodes (s : SchemaD) (d : Doc) : List (Node × View) := gnDoc (View.enter s) {} d

/-- the type condition of (the last definition of) each fragment whose type condition exists -/
def fragTypes (s : SchemaD) (d : Doc) : AL String :=
  ((fragDefs d).filter fun f => (typeFromAst s (.named f.2.1)).isSome).foldl (fun m f => AL.set m f.1 f.2.1) []

/-- the type a named fragment is spread into: the parent type of the enclosing selection set
    (before fix 0368e7b: the enclosing field's type, and only if it is not wrapped) -/
def spreadParent (fx : Fixes) (v : View) : Option String :=
  if fx.v10 then v.parent else match v.type with | some (.named p) => some p | _ => none

/-- **5.5.2.3 Fragment spread is possible**: the possible types of the fragment and of the place it is spread
    into intersect (named spreads and inline fragments) -/
def possibleFragmentSpreads (s : SchemaD) (fx : Fixes) (d : Doc) : Prop :=
  ∀ q ∈ viewNodes s d,
    (∀ name dirs, q.1 = Node.spread name dirs → ∀ ft p, AL.get? (fragTypes s d) name = some ft →
      spreadParent fx q.2 = some p → isComposite s ft = true → isComposite s p = true → typesOverlap s ft p = true) ∧
    (∀ on dirs, q.1 = Node.inline on dirs → ∀ t p, q.2.type = some (.named t) → q.2.parent = some p →
      isComposite s t = true → isComposite s p = true → typesOverlap s t p = true)

end PyGql.Validate.Spec

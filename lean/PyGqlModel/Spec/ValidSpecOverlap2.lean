/-
  Side conditions used by the soundness half of 5.3.2 (`Props/C06_overlap_sound.lean`).
-/
import PyGqlModel.Spec.ValidSpecOverlap
namespace PyGql.Validate.Spec
open PyGql PyGql.Validate

/-- the document contains no fragment spread (inline fragments are allowed) -/
def NoSpreads (d : Doc) : Prop := ∀ n ∈ nodes d, ∀ name dirs, n ≠ Node.spread name dirs

end PyGql.Validate.Spec

/-
  C11 — INDEPENDENT SPECIFICATION of the content a type-system document declares (audit 3, finding F2).

  `Declared` (Spec/SdlSpec.lean) computes the declared content WITH the model's member builders (`buildTypeDef`,
  `buildDirective`), so below the type level "exactly the declared arguments, descriptions, deprecations …" was true by
  unfolding.  `DeclaredSpec doc c` says the same thing as RELATIONS written from the SDL grammar, attribute by
  attribute; no `build*` function, `deprecationReason`, `fieldDeprecation` or `defaultValue` of the model occurs:

    for every definition merged with its extensions (document order) — name, kind, description; by kind: the fields
    (name, type, description, arguments, deprecation), the interfaces, the union members, the enum values (name,
    internal value = the name, description, deprecation), the input fields; nothing else (an SDL type has no
    resolvers and is not a specified type);
    for every argument / input field — name, type, description, `python_name` = name, and the default: absent, or
    the value `v` with `CoercesTo ty lit v`;
    deprecation — none without `@deprecated`; `"No longer supported"` without `reason:`; none for `reason: null`; the
    String for `reason: "…"` (GraphQL spec §3.13.3);
    for every directive definition — name, locations, description, arguments.

  SHARED with the model (said here, not hidden): `CoercesTo` is the model's coercion of constants `valueFromAst`
  (theorems against the declarative coercion are C07's); the lookup helpers `lookupLast` / `List.find?`; the merge of
  extensions `merged` of Spec/SdlSpec.lean (a spec-side definition).  The roots are the relation `DeclaresRoot` (the
  last `operation: Type` binding of the `schema` / `extend schema` blocks; without a `schema` block the object type with
  the default name) — `Sdl.Roots.set` / `Sdl.defaultRoots` / `declaredRoots` do not occur.

  Two clauses are the LIBRARY's reading and known findings, modelled as the code is: `@deprecated(reason: null)` declares
  NO deprecation (finding C11/2), and `fieldReason` below.

  One clause is the LIBRARY's, not the GraphQL specification's, and is kept visible as `fieldReason`:
  `Field.deprecated = bool(deprecation_reason)`, so `@deprecated(reason: "")` does not deprecate a FIELD (it does
  deprecate an enum value).

  `Props/C11_declared.lean`: `declared_meets_spec : Declared doc = some c → DeclaredSpec doc c`, the converse
  `spec_determines` (the relation has at most one solution), and the corollaries `build_exact_*_spec`.
-/
import PyGqlModel.Spec.SdlRules
import PyGqlModel.Spec.SdlSpec

namespace PyGql.SdlSpec
open PyGql PyGql.Sdl

/-- element-wise relation of two lists (same length, corresponding elements related, same order) -/
inductive Each₂ {α β} (P : α → β → Prop) : List α → List β → Prop
  | nil : Each₂ P [] []
  | cons {a b as bs} : P a b → Each₂ P as bs → Each₂ P (a :: as) (b :: bs)

/-- the deprecation reason a list of applied directives declares (`none`: not deprecated) -/
inductive DeclaresDeprecation (dirs : List DirApp) : Option String → Prop
  /-- no `@deprecated` -/
  | absent : dirs.find? (·.name == "deprecated") = none → DeclaresDeprecation dirs none
  /-- `@deprecated` without `reason:` — the default of the argument -/
  | byDefault (d : DirApp) : dirs.find? (·.name == "deprecated") = some d → lookupLast d.args "reason" = none →
      DeclaresDeprecation dirs (some "No longer supported")
  /-- `@deprecated(reason: null)` -/
  | null (d : DirApp) : dirs.find? (·.name == "deprecated") = some d → lookupLast d.args "reason" = some .null →
      DeclaresDeprecation dirs none
  /-- `@deprecated(reason: "…")` -/
  | reason (d : DirApp) (s : String) : dirs.find? (·.name == "deprecated") = some d → lookupLast d.args "reason" = some (.str s) →
      DeclaresDeprecation dirs (some s)

/-- the library's reading of a FIELD's reason: the empty reason does not deprecate (see the header) -/
def fieldReason : Option String → Option String
  | some "" => none
  | r => r

/-- argument / input field -/
structure DeclaresArg (env : Env) (a : InputValDef) (r : ArgD) : Prop where
  name : r.name = a.name
  type : r.type = a.type
  desc : r.desc = a.desc
  pythonName : r.pythonName = a.name
  noDefault : a.default = none → r.hasDefault = false ∧ r.default = .null
  default : ∀ l, a.default = some l → r.hasDefault = true ∧ CoercesTo env a.type l r.default

structure DeclaresField (env : Env) (f : FieldDef) (r : FieldD) : Prop where
  name : r.name = f.name
  type : r.type = f.type
  desc : r.desc = f.desc
  args : Each₂ (DeclaresArg env) f.args r.args
  deprecated : ∃ reason, DeclaresDeprecation f.dirs reason ∧ r.deprecated = fieldReason reason
  noResolver : r.resolver = none ∧ r.subscriptionResolver = none

structure DeclaresEnumValue (v : EnumValDef) (r : EnumValD) : Prop where
  name : r.name = v.name
  value : r.value = .str v.name
  desc : r.desc = v.desc
  deprecated : DeclaresDeprecation v.dirs r.deprecated

/-- the members a definition of kind `k` declares; the member lists of the other kinds are empty -/
structure DeclaresMembers (env : Env) (d : TypeDef) (r : TypeD) : Prop where
  fields : if d.kind = .object ∨ d.kind = .interface then Each₂ (DeclaresField env) d.fields r.fields else r.fields = []
  interfaces : r.interfaces = if d.kind = .object then d.interfaces else []
  members : r.members = if d.kind = .union then d.members else []
  values : if d.kind = .enum then Each₂ DeclaresEnumValue d.values r.values else r.values = []
  inputFields : if d.kind = .input then Each₂ (DeclaresArg env) d.inputFields r.inputFields else r.inputFields = []

/-- one (merged) type definition -/
structure DeclaresType (env : Env) (d : TypeDef) (r : TypeD) : Prop where
  name : r.name = d.name
  kind : r.kind = d.kind
  desc : r.desc = d.desc
  members : DeclaresMembers env d r
  plain : r.defaultResolver = none ∧ r.builtin = false

structure DeclaresDirective (env : Env) (d : DirDef) (r : DirectiveD) : Prop where
  name : r.name = d.name
  locations : r.locations = d.locations
  desc : r.desc = d.desc
  args : Each₂ (DeclaresArg env) d.args r.args

/-- every `operation: Type` binding of the document, in order: the (first) `schema` block, then the `extend schema` blocks -/
def declaredOps (doc : Doc) : List (String × String) :=
  (match schemaDefs doc with | sd :: _ => sd.ops | [] => []) ++ (schemaExtensions doc).flatMap (·.ops)

/-- the last binding of `op` -/
def lastBinding (ops : List (String × String)) (op : String) : Option String := (ops.reverse.find? (·.1 == op)).map (·.2)

/-- the root type of operation `op`, whose default type name is `dflt`: the LAST binding of `op` in the document; without
    any binding: nothing if there is a `schema` block, else the OBJECT type named `dflt` if the document declares one -/
def DeclaresRoot (doc : Doc) (types : List TypeD) (op dflt : String) (r : Option String) : Prop :=
  match lastBinding (declaredOps doc) op with
  | some ty => r = some ty
  | none =>
    match schemaDefs doc with
    | _ :: _ => r = none
    | [] => ((∃ t ∈ types, t.name = dflt ∧ t.kind = .object) → r = some dflt) ∧
            ((¬ ∃ t ∈ types, t.name = dflt ∧ t.kind = .object) → r = none)

/-- **the declared content, declaratively**: one registered type per definition, in document order, each the content of
    the definition merged with its extensions; one directive per directive definition; the root operation types (`DeclaresRoot`) -/
structure DeclaredSpec (doc : Doc) (c : SchemaD) : Prop where
  types : Each₂ (DeclaresType (Env.of (merged doc))) (merged doc) c.types
  directives : Each₂ (DeclaresDirective (Env.of (merged doc))) (dirDefs doc) c.directives
  query : DeclaresRoot doc c.types "query" "Query" c.query
  mutation : DeclaresRoot doc c.types "mutation" "Mutation" c.mutation
  subscription : DeclaresRoot doc c.types "subscription" "Subscription" c.subscription
  noResolver : c.defaultResolver = none

end PyGql.SdlSpec

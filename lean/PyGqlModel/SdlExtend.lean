/-
  C11 — model of the PUBLIC `py_gql.sdl.extend_schema(schema, document, strict=…)` (schema_from_ast.py:
  `extend_schema`, `_collect_extensions` with both values of `strict`), for a schema that was itself built from SDL.

  `Sdl.extendSchema` models the one call `build_schema` makes (`strict=False`, the SAME document, whose definitions
  are therefore all skipped).  Here the document is a different one: it may define NEW types and directives, extend
  old and new types, in any order, and `strict` decides whether redefinitions, unknown targets and a `schema` block
  are `ExtensionError`s or silently ignored.

  By name, as in Sdl.lean: the live types of the schema are represented by the (merged) definitions they were built
  from (`baseDefs`), the builder's cache `{**schema.types}` is the lookup in them.  Import-free.
-/
import PyGqlModel.Sdl

namespace PyGql.Sdl
open PyGql

/-- the four results of `_collect_extensions` (`type_exts` in document order; grouping by target is a by-name filter) -/
structure ExtCollected where
  schemaExts : List SchemaDef := []
  typeDefs : List TypeDef := []
  dirDefs : List DirDef := []
  typeExts : List TypeDef := []
  deriving Inhabited

/-- one iteration of the first loop of `_collect_extensions` -/
def collectExtStep (hasType hasDirective : String → Bool) (strict : Bool) (acc : ExtCollected) : Def → R ExtCollected
  | .schema _ => if strict then extErr else pure acc
  | .schemaExt s => pure { acc with schemaExts := acc.schemaExts ++ [s] }
  | .type t =>
    if hasType t.name then (if strict then extErr else pure acc)
    else if acc.typeDefs.any (·.name == t.name) then extErr
    else pure { acc with typeDefs := acc.typeDefs ++ [t] }
  | .directive d =>
    if hasDirective d.name then (if strict then extErr else pure acc)
    else if acc.dirDefs.any (·.name == d.name) then extErr
    else pure { acc with dirDefs := acc.dirDefs ++ [d] }
  | .ext e => pure { acc with typeExts := acc.typeExts ++ [e] }
  | .other => pure acc

/-- the second loop: an extension block is kept when its target is a new definition or a type of the schema -/
def filterTargets (hasType : String → Bool) (strict : Bool) (newDefs : List TypeDef) : List TypeDef → R (List TypeDef)
  | [] => pure []
  | e :: es =>
    if newDefs.any (·.name == e.name) || hasType e.name then do
      let r ← filterTargets hasType strict newDefs es
      pure (e :: r)
    else if strict then extErr
    else filterTargets hasType strict newDefs es

/-- `name in schema.types` (the registry holds the specified scalars and the introspection types) -/
def Live.hasType (live : Live) (n : String) : Bool := isDefaultName n || live.types.any (·.name == n)
/-- `name in schema.directives` (the registry holds the specified directives) -/
def Live.hasDirective (live : Live) (n : String) : Bool := specifiedDirectives.contains n || live.directives.any (·.name == n)

/-- `_collect_extensions(schema, document, strict)` -/
def collectExtensions (live : Live) (doc : Doc) (strict : Bool) : R ExtCollected := do
  let c ← doc.foldlM (collectExtStep live.hasType live.hasDirective strict) {}
  let texts ← filterTargets live.hasType strict c.typeDefs c.typeExts
  pure { c with typeExts := texts }

/-- `extend_directive` of a directive of the schema: the defaults written in its SDL definition are evaluated again -/
def reDefaultDirectiveIn (eB eX : Env) (defs : List DirDef) (d : DirectiveD) : R DirectiveD :=
  match defs.find? (·.name == d.name) with
  | some dd => buildDirectiveX eB eX dd
  | none => pure d

/-- `extend_schema(schema, document, strict=strict)` without the final `validate()`.
    `baseDefs` / `baseDirs`: the merged definitions the types and directives of `live` were built from. -/
def extendSchemaPublic (baseDefs : List TypeDef) (baseDirs : List DirDef) (live : Live) (doc : Doc) (strict : Bool) : R Live := do
  let c ← collectExtensions live doc strict
  if c.schemaExts.isEmpty && c.typeDefs.isEmpty && c.typeExts.isEmpty && c.dirDefs.isEmpty then pure live    -- `return schema`
  else do
    let texts := c.typeExts
    -- the builder sees the live types (`additional_types = {**schema.types}`) and the new definitions
    let eB : Env := Env.of (baseDefs ++ c.typeDefs)
    let eX := eB.extended texts
    -- directives: the old ones extended, then the new ones built and extended
    let oldDirs ← live.directives.mapM (reDefaultDirectiveIn eB eX baseDirs)
    let newDirs ← c.dirDefs.mapM (buildDirectiveX eB eX)
    -- a specified type is never extended, but an extension of another KIND is an error (`_collect_extensions` of the builder)
    failIf (texts.any (fun e => isDefaultName e.name && e.kind != builtinKind e.name)) (.lib .ext)
    -- types: the old ones extended, then the new ones built (`build_type`) and extended
    let checkedOld ← live.types.mapM (fun t => extendTypeX eB eX (hideFor t.kind t.name) texts t)
    let oldTypes ← checkedOld.mapM (fun t => reDefault eB eX (hideFor t.kind t.name) texts t)
    let builtNew ← c.typeDefs.mapM (fun d => buildTypeDefX eB eX (hideFor d.kind d.name) d)
    let checkedNew ← builtNew.mapM (fun t => extendTypeX eB eX (hideFor t.kind t.name) texts t)
    let newTypes ← checkedNew.mapM (fun t => reDefault eB eX (hideFor t.kind t.name) texts t)
    let types := oldTypes ++ newTypes
    failIf (hasEagerCycle types) (.lib .sdl)
    -- roots: kept (NOT re-derived from the default names), then the `extend schema` blocks
    let roots ← c.schemaExts.foldlM (fun r se => addOps (fun n => isDefaultName n || types.any (·.name == n)) (.lib .ext) r se.ops) live.roots
    -- `Schema(…)`: a new directive may not take the name of a specified one (unreachable: `hasDirective` skipped or refused it)
    failIf (newDirs.any (fun d => specifiedDirectives.contains d.name)) (.lib .schema)
    pure { types := types, directives := oldDirs ++ newDirs, roots := roots }

/-- `extend_schema(build_schema(docA), docB, strict=strict)`; outer error = `build_schema(docA)` failed -/
def buildThenExtend (docA docB : Doc) (strict : Bool) : R (R SchemaD) := do
  let cA ← collectDefinitions docA
  let (env, live0) ← buildCollected cA []
  let liveA ← extendSchema env live0 docA []
  let baseDefs := cA.types.map (mergeExt (typeExtensions live0 docA))
  pure ((extendSchemaPublic baseDefs cA.directives liveA docB strict).map toSchemaD)

end PyGql.Sdl

#!/usr/bin/env python3
"""resolve_both.py <file>... — resolve git conflict hunks by keeping BOTH sides (ours first); for append-only files
(manifest_data.py blocks, DESIGN.md bullets of different properties)."""
import re
import sys
for p in sys.argv[1:]:
    s = open(p).read()
    s = re.sub(r'<<<<<<< [^\n]*\n(.*?)=======\n(.*?)>>>>>>> [^\n]*\n', lambda m: m.group(1) + m.group(2), s, flags=re.S)
    if p.endswith('.py'):
        import ast
        try:
            ast.parse(s)
        except SyntaxError as e:
            print('NOT RESOLVED (would not parse):', p, e)
            continue
    open(p, 'w').write(s)

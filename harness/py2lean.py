# -*- coding: utf-8 -*-
"""
Mini-translator: a restricted subset of Python (boolean functions over GraphQL
type expressions) -> Lean 4 *step functionals*.

A Python function

    def f(a, b):
        if isinstance(a, NamedType): return ...
        elif ...: return f(a.type, b.type) and g(a, b)
        return False

becomes

    def fStep (rec_f : Ty → Ty → Bool) (rec_g : Ty → Ty → Bool) (a b : Ty) : Bool :=
      if a.isNamed then ... else if ... then (rec_f a.inner b.inner && rec_g a b) else false

Recursion is *not* tied here: the hand-written model closes the knot with fuel
(`iter (n+1) = fStep (iter n)`) and the property theorems are stated about that
closure, so that an edit of the Python source re-opens the proof.

Anything outside the subset raises `Untranslatable`, which the check treats as
a broken obligation.
"""
import ast
import textwrap


class Untranslatable(Exception):
    pass


ISINSTANCE = {
    "NamedType": "isNamed",
    "ListType": "isList",
    "NonNullType": "isNonNull",
    "WrappingType": "isWrapping",
}
ATTRS = {"type": "inner", "name": "name"}


class Translator:
    def __init__(self, params, calls, param_type="Ty", extra_calls=None, isinstance_extra=None):
        """
        params: names of the Python parameters (all of Lean type `param_type`)
        calls:  python function name -> lean name of the `rec_` parameter
        extra_calls: python callee name -> (lean function, arity) for non-recursive helpers
        """
        self.params = params
        self.calls = calls
        self.extra = extra_calls or {}
        # python class name -> lean predicate applied as a function `(pred x)` (e.g. schema-dependent kinds)
        self.isinstance_extra = isinstance_extra or {}
        # single-assignment locals (`same = a == b`, `inner = a.type`): inlined
        self.bool_locals = {}
        self.term_locals = {}

    # ---- expressions ---------------------------------------------------
    def expr(self, e):
        if isinstance(e, ast.BoolOp):
            op = " && " if isinstance(e.op, ast.And) else " || "
            return "(" + op.join(self.expr(v) for v in e.values) + ")"
        if isinstance(e, ast.UnaryOp) and isinstance(e.op, ast.Not):
            return "(!" + self.expr(e.operand) + ")"
        if isinstance(e, ast.Constant) and isinstance(e.value, bool):
            return "true" if e.value else "false"
        if isinstance(e, ast.Name) and e.id in self.bool_locals:
            return self.bool_locals[e.id]
        if isinstance(e, ast.Call):
            fn = e.func
            if isinstance(fn, ast.Attribute) and isinstance(fn.value, ast.Name) and fn.value.id == "self":
                fname = fn.attr
            elif isinstance(fn, ast.Name):
                fname = fn.id
            else:
                raise Untranslatable("call of " + ast.dump(fn))
            if e.keywords:
                raise Untranslatable("keyword arguments in call of " + fname)
            if fname == "bool" and len(e.args) == 1:
                return self.expr(e.args[0])
            if fname == "isinstance" and len(e.args) == 2:
                cls = e.args[1]
                if isinstance(cls, ast.Name) and cls.id in self.isinstance_extra:
                    return "(%s %s)" % (self.isinstance_extra[cls.id], self.term(e.args[0]))
                if isinstance(cls, ast.Name) and cls.id in ISINSTANCE:
                    return "%s.%s" % (self.term(e.args[0]), ISINSTANCE[cls.id])
                if isinstance(cls, ast.Tuple) and all(isinstance(c, ast.Name) and c.id in ISINSTANCE for c in cls.elts):
                    return "(" + " || ".join("%s.%s" % (self.term(e.args[0]), ISINSTANCE[c.id]) for c in cls.elts) + ")"
                raise Untranslatable("isinstance against " + ast.dump(cls))
            if fname in self.calls:
                return "(%s %s)" % (self.calls[fname], " ".join(self.term(a) for a in e.args))
            if fname in self.extra:
                lean, arity = self.extra[fname]
                if len(e.args) != arity:
                    raise Untranslatable("arity of " + fname)
                return "(%s %s)" % (lean, " ".join(self.term(a) for a in e.args))
            raise Untranslatable("call of unknown function " + fname)
        if isinstance(e, ast.Compare) and len(e.ops) == 1 and self._is_type_call(e.left) and self._is_type_call(e.comparators[0]):
            # type(a) == type(b): same outermost constructor
            l, r = self.term(e.left.args[0]), self.term(e.comparators[0].args[0])
            if isinstance(e.ops[0], (ast.Eq, ast.Is)):
                return "(Ty.sameCtor %s %s)" % (l, r)
            if isinstance(e.ops[0], (ast.NotEq, ast.IsNot)):
                return "(!Ty.sameCtor %s %s)" % (l, r)
            raise Untranslatable("comparison " + ast.dump(e.ops[0]))
        if isinstance(e, ast.Compare) and len(e.ops) == 1:
            l, r = self.term(e.left), self.term(e.comparators[0])
            if isinstance(e.ops[0], (ast.Eq, ast.Is)):
                return "(%s == %s)" % (l, r)
            if isinstance(e.ops[0], (ast.NotEq, ast.IsNot)):
                return "(%s != %s)" % (l, r)
            raise Untranslatable("comparison " + ast.dump(e.ops[0]))
        raise Untranslatable("expression " + ast.dump(e))

    @staticmethod
    def _is_type_call(e):
        return (isinstance(e, ast.Call) and isinstance(e.func, ast.Name) and e.func.id == "type"
                and len(e.args) == 1 and not e.keywords)

    def term(self, e):
        if isinstance(e, ast.Name):
            if e.id in self.term_locals:
                return self.term_locals[e.id]
            if e.id in self.params:
                return e.id
            raise Untranslatable("free variable " + e.id)
        if isinstance(e, ast.Attribute):
            if e.attr in ATTRS:
                return "%s.%s" % (self.term(e.value), ATTRS[e.attr])
            raise Untranslatable("attribute ." + e.attr)
        raise Untranslatable("term " + ast.dump(e))

    # ---- statements ----------------------------------------------------
    def block(self, stmts, fallthrough):
        """Translate a statement list; `fallthrough` is the Lean value if it ends without return."""
        if not stmts:
            return fallthrough
        s, rest = stmts[0], stmts[1:]
        if isinstance(s, ast.Expr) and isinstance(s.value, ast.Constant) and isinstance(s.value.value, str):
            return self.block(rest, fallthrough)  # docstring
        if isinstance(s, ast.Return):
            if s.value is None:
                raise Untranslatable("bare return")
            return self.expr(s.value)
        if (isinstance(s, ast.Assign) and len(s.targets) == 1 and isinstance(s.targets[0], ast.Name)
                and s.targets[0].id not in self.params
                and s.targets[0].id not in self.bool_locals and s.targets[0].id not in self.term_locals):
            # a local bound once: inline it (pure expressions only, so evaluation order does not matter)
            name = s.targets[0].id
            try:
                self.term_locals[name] = "(%s)" % self.term(s.value) if not isinstance(s.value, ast.Name) else self.term(s.value)
            except Untranslatable:
                self.bool_locals[name] = self.expr(s.value)
            return self.block(rest, fallthrough)
        if isinstance(s, ast.If):
            after = self.block(rest, fallthrough)
            return "(if %s then %s else %s)" % (
                self.expr(s.test), self.block(s.body, after), self.block(s.orelse, after))
        raise Untranslatable("statement " + type(s).__name__)


def find_function(source, name, cls=None):
    tree = ast.parse(source)
    scope = tree.body
    if cls:
        for n in tree.body:
            if isinstance(n, ast.ClassDef) and n.name == cls:
                scope = n.body
                break
        else:
            raise Untranslatable("class %s not found" % cls)
    for n in scope:
        if isinstance(n, ast.FunctionDef) and n.name == name:
            return n
    raise Untranslatable("function %s not found" % name)


def translate_step(source, name, lean_name, rec_calls, cls=None, extra_calls=None, skip_self=False,
                   isinstance_extra=None, extra_params=""):
    """
    Translate `name` from `source` to a Lean step functional called `lean_name`.

    rec_calls: ordered dict python name -> lean rec parameter name (all Ty → Ty → Bool)
    """
    fn = find_function(source, name, cls)
    params = [a.arg for a in fn.args.args]
    if skip_self and params and params[0] == "self":
        params = params[1:]
    if fn.args.vararg or fn.args.kwarg or fn.args.kwonlyargs:
        raise Untranslatable("signature of " + name)
    tr = Translator(params, rec_calls, extra_calls=extra_calls, isinstance_extra=isinstance_extra)
    body = tr.block(fn.body, "false")
    recs = " ".join("(%s : Ty → Ty → Bool)" % r for r in rec_calls.values())
    ps = " ".join(params)
    out = "def %s %s%s (%s : Ty) : Bool :=\n  %s\n" % (lean_name, (extra_params + " ") if extra_params else "", recs, ps, body)
    return out, ast.get_source_segment(source, fn)


def header(origin):
    return textwrap.dedent("""\
    /- GENERATED on every run by harness (py2lean.py) from %s.
       Do not edit: the check rewrites this file from /repo's working tree. -/
    """ % origin)

# -*- coding: utf-8 -*-
"""
Mini-translator: a restricted subset of Python (boolean functions over GraphQL
type expressions) -> Lean 4 *step functionals*.

A Python function

    def f(a, b):
        if isinstance(a, NamedType): return ...
        elif ...: return f(a.type, b.type) and g(a, b)
        return False

becomes

    def fStep (rec_f : Ty → Ty → Bool) (rec_g : Ty → Ty → Bool) (a b : Ty) : Bool :=
      if a.isNamed then ... else if ... then (rec_f a.inner b.inner && rec_g a b) else false

Recursion is *not* tied here: the hand-written model closes the knot with fuel
(`iter (n+1) = fStep (iter n)`) and the property theorems are stated about that
closure, so that an edit of the Python source re-opens the proof.

Anything outside the subset raises `Untranslatable`, which the check treats as
a broken obligation.

Second half of this file: `Tr` / `translate_function`, the STATEMENT-LEVEL
translator (whole functions: loops, early return, exceptions, tuples, text,
methods, generators) used by `harness/corr/_tr.py`; its table of constructs is
in the comment above `class Tr`. The hand-written model is proved EQUAL to its
output in `lean/PyGqlModel/Props/Cxx_tr.lean`.
"""
import ast
import re
import textwrap


class Untranslatable(Exception):
    pass


ISINSTANCE = {
    "NamedType": "isNamed",
    "ListType": "isList",
    "NonNullType": "isNonNull",
    "WrappingType": "isWrapping",
}
ATTRS = {"type": "inner", "name": "name"}


class Translator:
    def __init__(self, params, calls, param_type="Ty", extra_calls=None, isinstance_extra=None):
        """
        params: names of the Python parameters (all of Lean type `param_type`)
        calls:  python function name -> lean name of the `rec_` parameter
        extra_calls: python callee name -> (lean function, arity) for non-recursive helpers
        """
        self.params = params
        self.calls = calls
        self.extra = extra_calls or {}
        # python class name -> lean predicate applied as a function `(pred x)` (e.g. schema-dependent kinds)
        self.isinstance_extra = isinstance_extra or {}
        # single-assignment locals (`same = a == b`, `inner = a.type`): inlined
        self.bool_locals = {}
        self.term_locals = {}

    # ---- expressions ---------------------------------------------------
    def expr(self, e):
        if isinstance(e, ast.BoolOp):
            op = " && " if isinstance(e.op, ast.And) else " || "
            return "(" + op.join(self.expr(v) for v in e.values) + ")"
        if isinstance(e, ast.UnaryOp) and isinstance(e.op, ast.Not):
            return "(!" + self.expr(e.operand) + ")"
        if isinstance(e, ast.Constant) and isinstance(e.value, bool):
            return "true" if e.value else "false"
        if isinstance(e, ast.Name) and e.id in self.bool_locals:
            return self.bool_locals[e.id]
        if isinstance(e, ast.Call):
            fn = e.func
            if isinstance(fn, ast.Attribute) and isinstance(fn.value, ast.Name) and fn.value.id == "self":
                fname = fn.attr
            elif isinstance(fn, ast.Name):
                fname = fn.id
            else:
                raise Untranslatable("call of " + ast.dump(fn))
            if e.keywords:
                raise Untranslatable("keyword arguments in call of " + fname)
            if fname == "bool" and len(e.args) == 1:
                return self.expr(e.args[0])
            if fname == "isinstance" and len(e.args) == 2:
                cls = e.args[1]
                if isinstance(cls, ast.Name) and cls.id in self.isinstance_extra:
                    return "(%s %s)" % (self.isinstance_extra[cls.id], self.term(e.args[0]))
                if isinstance(cls, ast.Name) and cls.id in ISINSTANCE:
                    return "%s.%s" % (self.term(e.args[0]), ISINSTANCE[cls.id])
                if isinstance(cls, ast.Tuple) and all(isinstance(c, ast.Name) and c.id in ISINSTANCE for c in cls.elts):
                    return "(" + " || ".join("%s.%s" % (self.term(e.args[0]), ISINSTANCE[c.id]) for c in cls.elts) + ")"
                raise Untranslatable("isinstance against " + ast.dump(cls))
            if fname in self.calls:
                return "(%s %s)" % (self.calls[fname], " ".join(self.term(a) for a in e.args))
            if fname in self.extra:
                lean, arity = self.extra[fname]
                if len(e.args) != arity:
                    raise Untranslatable("arity of " + fname)
                return "(%s %s)" % (lean, " ".join(self.term(a) for a in e.args))
            raise Untranslatable("call of unknown function " + fname)
        if isinstance(e, ast.Compare) and len(e.ops) == 1 and self._is_type_call(e.left) and self._is_type_call(e.comparators[0]):
            # type(a) == type(b): same outermost constructor
            l, r = self.term(e.left.args[0]), self.term(e.comparators[0].args[0])
            if isinstance(e.ops[0], (ast.Eq, ast.Is)):
                return "(Ty.sameCtor %s %s)" % (l, r)
            if isinstance(e.ops[0], (ast.NotEq, ast.IsNot)):
                return "(!Ty.sameCtor %s %s)" % (l, r)
            raise Untranslatable("comparison " + ast.dump(e.ops[0]))
        if isinstance(e, ast.Compare) and len(e.ops) == 1:
            l, r = self.term(e.left), self.term(e.comparators[0])
            if isinstance(e.ops[0], (ast.Eq, ast.Is)):
                return "(%s == %s)" % (l, r)
            if isinstance(e.ops[0], (ast.NotEq, ast.IsNot)):
                return "(%s != %s)" % (l, r)
            raise Untranslatable("comparison " + ast.dump(e.ops[0]))
        raise Untranslatable("expression " + ast.dump(e))

    @staticmethod
    def _is_type_call(e):
        return (isinstance(e, ast.Call) and isinstance(e.func, ast.Name) and e.func.id == "type"
                and len(e.args) == 1 and not e.keywords)

    def term(self, e):
        if isinstance(e, ast.Name):
            if e.id in self.term_locals:
                return self.term_locals[e.id]
            if e.id in self.params:
                return e.id
            raise Untranslatable("free variable " + e.id)
        if isinstance(e, ast.Attribute):
            if e.attr in ATTRS:
                return "%s.%s" % (self.term(e.value), ATTRS[e.attr])
            raise Untranslatable("attribute ." + e.attr)
        raise Untranslatable("term " + ast.dump(e))

    # ---- statements ----------------------------------------------------
    def block(self, stmts, fallthrough):
        """Translate a statement list; `fallthrough` is the Lean value if it ends without return."""
        if not stmts:
            return fallthrough
        s, rest = stmts[0], stmts[1:]
        if isinstance(s, ast.Expr) and isinstance(s.value, ast.Constant) and isinstance(s.value.value, str):
            return self.block(rest, fallthrough)  # docstring
        if isinstance(s, ast.Return):
            if s.value is None:
                raise Untranslatable("bare return")
            return self.expr(s.value)
        if (isinstance(s, ast.Assign) and len(s.targets) == 1 and isinstance(s.targets[0], ast.Name)
                and s.targets[0].id not in self.params
                and s.targets[0].id not in self.bool_locals and s.targets[0].id not in self.term_locals):
            # a local bound once: inline it (pure expressions only, so evaluation order does not matter)
            name = s.targets[0].id
            try:
                self.term_locals[name] = "(%s)" % self.term(s.value) if not isinstance(s.value, ast.Name) else self.term(s.value)
            except Untranslatable:
                self.bool_locals[name] = self.expr(s.value)
            return self.block(rest, fallthrough)
        if isinstance(s, ast.If):
            after = self.block(rest, fallthrough)
            return "(if %s then %s else %s)" % (
                self.expr(s.test), self.block(s.body, after), self.block(s.orelse, after))
        raise Untranslatable("statement " + type(s).__name__)


def find_function(source, name, cls=None):
    tree = ast.parse(source)
    scope = tree.body
    if cls:
        for n in tree.body:
            if isinstance(n, ast.ClassDef) and n.name == cls:
                scope = n.body
                break
        else:
            raise Untranslatable("class %s not found" % cls)
    for n in scope:
        if isinstance(n, ast.FunctionDef) and n.name == name:
            return n
    raise Untranslatable("function %s not found" % name)


def translate_step(source, name, lean_name, rec_calls, cls=None, extra_calls=None, skip_self=False,
                   isinstance_extra=None, extra_params=""):
    """
    Translate `name` from `source` to a Lean step functional called `lean_name`.

    rec_calls: ordered dict python name -> lean rec parameter name (all Ty → Ty → Bool)
    """
    fn = find_function(source, name, cls)
    params = [a.arg for a in fn.args.args]
    if skip_self and params and params[0] == "self":
        params = params[1:]
    if fn.args.vararg or fn.args.kwarg or fn.args.kwonlyargs:
        raise Untranslatable("signature of " + name)
    tr = Translator(params, rec_calls, extra_calls=extra_calls, isinstance_extra=isinstance_extra)
    body = tr.block(fn.body, "false")
    recs = " ".join("(%s : Ty → Ty → Bool)" % r for r in rec_calls.values())
    ps = " ".join(params)
    out = "def %s %s%s (%s : Ty) : Bool :=\n  %s\n" % (lean_name, (extra_params + " ") if extra_params else "", recs, ps, body)
    return out, ast.get_source_segment(source, fn)


def header(origin):
    return textwrap.dedent("""\
    /- GENERATED on every run by harness (py2lean.py) from %s.
       Do not edit: the check rewrites this file from /repo's working tree. -/
    """ % origin)


# =====================================================================================================
# Tr: the statement-level translator (typed; loops, tuples, text, early return, exceptions)
# =====================================================================================================
#
#   Python                                   Lean (prelude: lean/PyGqlModel/PyPrelude.lean, namespace PyGql.Py)
#   ---------------------------------------  ------------------------------------------------------------------
#   def f(a: str, p: int) -> Tuple[int,int]  def f (a : List Nat) (p : Int) : Except String (Int × Int)
#   int / str / single character             Int / List Nat (code points) / Nat
#   return e / raise Cls(...)                .ok e / .error "Cls"   (inside a loop: Flow.ret e / Flow.raise "Cls")
#   x = e ; x += e ; a, b = e1, e2 ; a, b = t let-bindings (rebinding = shadowing)
#   if / elif / else                         if-then-else; the statements after the `if` are the continuation of BOTH
#                                            branches (duplicated textually)
#   for x in seq / for i, x in enumerate(..) an auxiliary `def f.loopN` by STRUCTURAL recursion on the list; the variables
#                                            assigned in the body that exist before the loop are its accumulators; the
#                                            other variables it reads are parameters; `break` = Flow.fall accs,
#                                            `continue` = the recursive call, early `return` = Flow.ret
#   while c: body                            `def f.whileN` recursive on a fuel taken from the spec (a Python expression
#                                            evaluated at loop entry); running out of fuel is the exception "OutOfFuel",
#                                            never a silent stop
#   xs[i], xs[i] = v, xs.pop(0), xs.pop()    Py.getItem / setItem / pop0 / popLast : Except String _ (IndexError explicit);
#                                            an expression containing one becomes Except-valued and is bound (`match`)
#                                            left to right before use; `and` / `or` / if-expressions keep short-circuiting
#   xs[i:j], xs[i:], xs[:j]                  Py.slice / sliceFrom / sliceTo (negative and out-of-range bounds as CPython)
#   len, min, max, enumerate, range, bool    Py.len, Py.imin, Py.imax, Py.enumerate, Py.range, truthiness by type
#   c == "\n", c in " \t", s != "\n"         code-point comparisons / membership in a literal list
#   s.lstrip(" \t"), "\n".join(xs)           Py.lstrip s [32, 9], Py.join [10] xs   (explicit character sets only)
#   try: S except C1 / (C1, C2): H [else]   the body is a sub-computation; a raised class NAMED by a handler runs it (first match),
#                                            any other propagates; classes are matched by name (no subclassing)
#   methods (cls=...)                        self.X -> variable self_X; attributes listed in self_state are returned with the result
#   sorted(xs, key=lambda a: k)              Py.sortedBy lt (fun a => k) xs (stable insertion sort; `lt` from the spec)
#   zip, all/any(<generator>)                List.zip, List.all / List.any (pure bodies)
#   def g(...): ... yield e ...              generator: `yield e` appends to a hidden accumulator, the function returns the list of
#                                            everything yielded (the generator run to its end)
#   [a, b], self.m()                         list display; another translated method run on the current attribute values
#   <expr> listed in the spec's `whole`      read as the spec says (operations on dynamically typed values: `x is None`, `n != x`)
#   join=True (spec)                         the statements after an if / try become ONE auxiliary definition `f.kN` of the variables
#                                            they read (no textual copies; function level only); locals_={"c": Optional type}: a value
#                                            of the base type assigned to such a local is wrapped in `some`, `None` is `none`
#   f(...), obj.m(...), isinstance, attrs    only through the tables of the spec (`externals`, `isinstance_map`, `attrs`,
#                                            `consts`); an external marked partial is Except-valued
#
# Anything else raises Untranslatable (a broken obligation of the property, never a crash of the harness).

LEAN_KEYWORDS = set("""include open end at from fun have show match with do then else if let in def theorem example namespace
section variable universe instance structure class inductive where deriving by calc this mutual partial private protected
export import prefix infix notation macro syntax set_option attribute local forall exists Type Prop Sort using extends
abbrev opaque axiom noncomputable unsafe nomatch nofun return mut for unless try catch finally break continue""".split())


class E:
    """a translated expression: Lean text, type, and whether the text is `Except String <type>`-valued"""
    __slots__ = ("text", "ty", "partial")

    def __init__(self, text, ty, partial=False):
        self.text, self.ty, self.partial = text, ty, partial


class Ext:
    """an external callee / attribute: Lean text applied to the translated arguments"""

    def __init__(self, lean, ret, partial=False, kw=()):
        self.lean, self.ret, self.partial, self.kw = lean, ret, partial, tuple(kw)


INT, BOOL, CHAR = "Int", "Bool", "Char"


def TList(t):
    return ("List", t)


TEXT = TList(CHAR)


def lean_ty(t):
    if isinstance(t, str):
        return {"Char": "Nat"}.get(t, t)
    if t[0] == "List":
        return "List " + _atom(lean_ty(t[1]))
    if t[0] == "Option":
        return "Option " + _atom(lean_ty(t[1]))
    if t[0] == "Tuple":
        return " × ".join(_atom(lean_ty(x)) for x in t[1:])
    if t[0] == "Opaque":
        return t[1]
    raise Untranslatable("type %r" % (t,))


def _atom(s):
    return s if re.fullmatch(r"[A-Za-z0-9_.]+", s) else "(" + s + ")"


def ann_type(a):
    """a Python annotation -> type"""
    if a is None:
        raise Untranslatable("missing annotation")
    if isinstance(a, ast.Name):
        if a.id in ("str",):
            return TEXT
        if a.id == "int":
            return INT
        if a.id == "bool":
            return BOOL
    if isinstance(a, ast.Subscript) and isinstance(a.value, ast.Name):
        args = a.slice.elts if isinstance(a.slice, ast.Tuple) else [a.slice]
        if a.value.id == "Tuple":
            return ("Tuple",) + tuple(ann_type(x) for x in args)
        if a.value.id in ("List", "Sequence") and len(args) == 1:
            return TList(ann_type(args[0]))
        if a.value.id == "Optional" and len(args) == 1:
            return ("Option", ann_type(args[0]))
    raise Untranslatable("annotation " + ast.unparse(a))


def _ind(text, n=2):
    pad = " " * n
    return "\n".join(pad + l if l else l for l in text.split("\n"))


def _codes(s):
    return "[" + ", ".join(str(ord(c)) for c in s) + "]"


class Tr:
    def __init__(self, lean_name, env, ret_ty, externals=None, isinstance_map=None, attrs=None, consts=None, fuel=None,
                 generic_exc=False, whole=None, methods=None, implicit="", join=False, locals_=None):
        self.name = lean_name
        # generic_exc: the function is abstracted over the exception type `ε` with `exc : String → ε` naming built-in classes
        self.generic = generic_exc
        self.full_ret_ty = None         # methods: (result, mutated attributes...)
        # whole-expression patterns of the spec: source text of an expression -> (lean text, type[, partial]); for
        # operations on dynamically typed values (`x is None`, `n != x`, `not x`) whose meaning the spec supplies
        self.whole = whole or {}
        # other translated methods of the same class called as statements: python method name -> lean function taking the
        # `self_` variables below and returning ((), the mutated ones)
        self.methods = methods or {}
        # implicit binders (type parameters) of the spec, repeated on the auxiliary loop definitions
        self.implicit = (" " + implicit) if implicit else ""
        self.self_params, self.self_state = [], []
        # join=True: the statements after an `if` / `try` are emitted ONCE as a local function `k__N` of the variables the
        # branches assign and the rest reads (instead of being copied into every branch)
        self.join = join
        self.njoin = 0
        # declared types of locals (`Optional[str]` variables: a value of the base type is wrapped in `some`)
        self.declared = dict(locals_ or {})
        self.exc_ty = "ε" if generic_exc else "String"
        self.env = dict(env)            # python variable -> type
        self.ret_ty = ret_ty
        self.externals = externals or {}
        self.isinstance_map = isinstance_map or {}
        self.attrs = attrs or {}        # dotted source text -> (lean text, type)
        self.consts = {"sys.maxsize": ("(9223372036854775807 : Int)", INT)}
        self.consts.update(consts or {})
        self.fuel = list(fuel or [])
        self.aux = []                   # auxiliary definitions (loops), in dependency order
        self.nloop = 0
        self.nfresh = 0
        self.in_loop = False
        self.constructs = set()

    # ---- helpers ---------------------------------------------------------
    def fresh(self):
        self.nfresh += 1
        return "t%d__" % self.nfresh

    def ret(self, text):
        return "(.ret %s)" % text if self.in_loop else "(.ok %s)" % text

    def err(self, text):
        return "(.raise %s)" % text if self.in_loop else "(.error %s)" % text

    def cls(self, name):
        return '(exc "%s")' % name if self.generic else '"%s"' % name

    def prim(self, text):
        """a partial built-in of the prelude (raises a class NAME)"""
        return "(Py.mapErr exc %s)" % text if self.generic else text

    def bind(self, e, var, body):
        """evaluate the (possibly partial) expression `e`, name it `var` (a pattern), continue with `body`"""
        if e.partial:
            return "(match %s with\n  | .error e__ => %s\n  | .ok %s =>\n%s)" % (e.text, self.err("e__"), var, _ind(body, 4))
        return "(let %s := %s\n%s)" % (var, e.text, _ind(body, 1))

    def lift(self, es, build):
        """strict operator: bind the partial operands left to right, then `build(pure texts) -> (text, type)`"""
        names, binds = [], []
        for e in es:
            if e.partial:
                v = self.fresh()
                binds.append((v, e.text))
                names.append(v)
            else:
                names.append(e.text)
        text, ty = build(names)
        if not binds:
            return E(text, ty)
        inner = "(Except.ok %s : Except EXC__ _)" % text
        for v, t in reversed(binds):
            inner = "(match %s with | .error e__ => Except.error e__ | .ok %s => %s)" % (t, v, inner)
        return E(inner, ty, True)

    def truthy(self, e):
        def build(ts):
            (t,) = ts
            ty = e.ty
            if ty == BOOL:
                return t, BOOL
            if ty == INT:
                return "(%s != 0)" % t, BOOL
            if isinstance(ty, tuple) and ty[0] == "List":
                return "(!(%s).isEmpty)" % t, BOOL
            if isinstance(ty, tuple) and ty[0] == "Option":
                return "(%s).isSome" % t, BOOL
            raise Untranslatable("truthiness of a value of type %r" % (ty,))
        return self.lift([e], build)

    def shortcircuit(self, a, b, is_and):
        """`a and b` / `a or b` on Bool-valued (already truthified) operands, `b` evaluated only if needed"""
        if not a.partial and not b.partial:
            return E("(%s %s %s)" % (a.text, "&&" if is_and else "||", b.text), BOOL)
        bt = b.text if b.partial else "(Except.ok %s : Except EXC__ _)" % b.text
        skip = "(Except.ok %s : Except EXC__ _)" % ("false" if is_and else "true")
        v = self.fresh()
        body = "(if %s then %s else %s)" % ((v, bt, skip) if is_and else (v, skip, bt))
        if a.partial:
            return E("(match %s with | .error e__ => Except.error e__ | .ok %s => %s)" % (a.text, v, body), BOOL, True)
        return E("(let %s := %s; %s)" % (v, a.text, body), BOOL, True)

    # ---- expressions -----------------------------------------------------
    def whole_pattern(self, e):
        src = ast.unparse(e)
        if src in self.whole:
            w = self.whole[src]
            self.constructs.add("expression read through the spec's table: " + src)
            return E(w[0], w[1], len(w) > 2 and w[2])
        return None

    def test(self, e):
        """an expression in boolean context"""
        w = self.whole_pattern(e)
        if w is not None and w.ty == BOOL:
            return w
        if isinstance(e, ast.BoolOp):
            is_and = isinstance(e.op, ast.And)
            acc = self.test(e.values[-1])
            for v in reversed(e.values[:-1]):
                acc = self.shortcircuit(self.test(v), acc, is_and)
            return acc
        if isinstance(e, ast.UnaryOp) and isinstance(e.op, ast.Not):
            return self.lift([self.test(e.operand)], lambda ts: ("(!%s)" % ts[0], BOOL))
        return self.truthy(self.expr(e))

    def const_str(self, e, want):
        """a str literal as text or as a single code point"""
        s = e.value
        if want == CHAR:
            if len(s) != 1:
                raise Untranslatable("a character compared with the %d-character literal %r" % (len(s), s))
            return E(str(ord(s)), CHAR)
        return E("(%s : List Nat)" % _codes(s), TEXT)

    def expr(self, e, want=None):
        w = self.whole_pattern(e)
        if w is not None:
            return w
        if isinstance(e, ast.Constant):
            if isinstance(e.value, bool):
                return E("true" if e.value else "false", BOOL)
            if isinstance(e.value, int):
                return E("(%d : Int)" % e.value, INT)
            if isinstance(e.value, str):
                if isinstance(want, tuple) and want[0] == "Option":
                    x = self.const_str(e, want[1])
                    return E("(some %s)" % x.text, want)
                return self.const_str(e, want)
            if e.value is None and isinstance(want, tuple) and want[0] == "Option":
                return E("none", want)
            raise Untranslatable("constant %r" % (e.value,))
        if isinstance(e, ast.Name):
            if e.id in self.env:
                return E(e.id, self.env[e.id])
            if e.id in self.consts:
                return E(*self.consts[e.id])
            raise Untranslatable("free variable " + e.id)
        if isinstance(e, ast.Attribute):
            src = ast.unparse(e)
            if src in self.attrs:
                return E(*self.attrs[src])
            if src in self.consts:
                return E(*self.consts[src])
            # attribute PATHS applied to any expression of a given type: ".name.value" -> (lean function, argument type, result type)
            path, base, cands = "", e, []
            while isinstance(base, ast.Attribute):
                path = "." + base.attr + path
                base = base.value
                if path in self.attrs:
                    cands.append((path, base))
            for path, base in reversed(cands):   # longest path first
                fn, arg_ty, res_ty = self.attrs[path]
                try:
                    x = self.expr(base)
                except Untranslatable:
                    continue
                if x.ty == arg_ty:
                    return self.lift([x], lambda ts: ("(%s %s)" % (fn, ts[0]), res_ty))
            raise Untranslatable("attribute " + src)
        if isinstance(e, ast.List) and e.elts:
            es = [self.expr(x) for x in e.elts]
            if any(x.ty != es[0].ty for x in es):
                raise Untranslatable("list display of mixed types")
            return self.lift(es, lambda ts: ("[" + ", ".join(ts) + "]", TList(es[0].ty)))
        if isinstance(e, ast.Tuple):
            es = [self.expr(x) for x in e.elts]
            return self.lift(es, lambda ts: ("(" + ", ".join(ts) + ")", ("Tuple",) + tuple(x.ty for x in es)))
        if isinstance(e, (ast.BoolOp,)) or (isinstance(e, ast.UnaryOp) and isinstance(e.op, ast.Not)):
            # value context: Python's and/or return an OPERAND; that is the Bool we compute only if every operand is a bool
            if isinstance(e, ast.BoolOp):
                for v in e.values:
                    if not self._is_boolish(v):
                        raise Untranslatable("and/or of non-bool operands used as a value: " + ast.unparse(e))
            return self.test(e)
        if isinstance(e, ast.UnaryOp) and isinstance(e.op, ast.USub):
            a = self.expr(e.operand)
            self.need(a, INT, e)
            return self.lift([a], lambda ts: ("(-%s)" % ts[0], INT))
        if isinstance(e, ast.BinOp):
            a, b = self.expr(e.left), self.expr(e.right)
            if isinstance(e.op, (ast.Add, ast.Sub, ast.Mult)) and a.ty == INT and b.ty == INT:
                op = {ast.Add: "+", ast.Sub: "-", ast.Mult: "*"}[type(e.op)]
                return self.lift([a, b], lambda ts: ("(%s %s %s)" % (ts[0], op, ts[1]), INT))
            if isinstance(e.op, ast.Add) and a.ty == b.ty and isinstance(a.ty, tuple) and a.ty[0] == "List":
                return self.lift([a, b], lambda ts: ("(%s ++ %s)" % (ts[0], ts[1]), a.ty))
            raise Untranslatable("operator in " + ast.unparse(e))
        if isinstance(e, ast.IfExp):
            c, a, b = self.test(e.test), self.expr(e.body), self.expr(e.orelse)
            if a.ty != b.ty:
                raise Untranslatable("branches of different types in " + ast.unparse(e))
            if not (c.partial or a.partial or b.partial):
                return E("(if %s then %s else %s)" % (c.text, a.text, b.text), a.ty)
            raise Untranslatable("partial operation inside a conditional expression: " + ast.unparse(e))
        if isinstance(e, ast.Compare):
            return self.compare(e)
        if isinstance(e, ast.Subscript):
            return self.subscript(e)
        if isinstance(e, ast.Call):
            return self.call(e)
        raise Untranslatable("expression " + ast.unparse(e))

    def _is_boolish(self, v):
        if isinstance(v, (ast.Compare, ast.BoolOp)) or (isinstance(v, ast.UnaryOp) and isinstance(v.op, ast.Not)):
            return True
        try:
            return self.expr(v).ty == BOOL
        except Untranslatable:
            return False

    def need(self, e, ty, node):
        if e.ty != ty:
            raise Untranslatable("%s has type %s, expected %s" % (ast.unparse(node), lean_ty(e.ty), lean_ty(ty)))

    def compare(self, e):
        operands = [e.left] + list(e.comparators)
        parts = []
        for l, op, r in zip(operands, e.ops, operands[1:]):
            parts.append(self.compare1(l, op, r))
        acc = parts[-1]
        for p in reversed(parts[:-1]):
            acc = self.shortcircuit(p, acc, True)   # a < b < c: middle operand is pure here (evaluated twice textually)
        return acc

    def compare1(self, l, op, r):
        isnone = lambda x: isinstance(x, ast.Constant) and x.value is None
        if isinstance(op, (ast.Is, ast.IsNot, ast.Eq, ast.NotEq)) and (isnone(l) or isnone(r)):
            x = self.expr(r if isnone(l) else l)
            neg = isinstance(op, (ast.IsNot, ast.NotEq))
            if x.ty in (CHAR, INT, BOOL, TEXT):   # a str / int is never None
                self.constructs.add("`is None` on a str/int-typed variable -> constant")
                return self.lift([x], lambda ts: ("true" if neg else "false", BOOL))
            if not (isinstance(x.ty, tuple) and x.ty[0] == "Option"):
                raise Untranslatable("comparison with None of a value of type %s" % lean_ty(x.ty))
            return self.lift([x], lambda ts: ("(%s).%s" % (ts[0], "isSome" if neg else "isNone"), BOOL))
        if isinstance(op, (ast.In, ast.NotIn)):
            a = self.expr(l)
            if a.ty == CHAR and isinstance(r, ast.Constant) and isinstance(r.value, str):
                txt = "(%s.contains %s)" if isinstance(op, ast.In) else "(!%s.contains %s)"
                return self.lift([a], lambda ts: (txt % ("(%s : List Nat)" % _codes(r.value), ts[0]), BOOL))
            if a.ty == ("Option", CHAR) and isinstance(r, ast.Constant) and isinstance(r.value, str):
                # Optional[str] variable: None is in no string
                txt = "(match %s with | some c__ => %s.contains c__ | none => false)"
                if isinstance(op, ast.NotIn):
                    raise Untranslatable("`not in` on an optional character")
                return self.lift([a], lambda ts: (txt % (ts[0], "(%s : List Nat)" % _codes(r.value)), BOOL))
            if a.ty == CHAR:
                b = self.expr(r)
                if b.ty == TEXT:
                    txt = "(%s.contains %s)" if isinstance(op, ast.In) else "(!%s.contains %s)"
                    return self.lift([b, a], lambda ts: (txt % (ts[0], ts[1]), BOOL))
            raise Untranslatable("membership test " + ast.unparse(r))
        # literal strings take the type of the other side (text or one character)
        if isinstance(l, ast.Constant) and isinstance(l.value, str):
            b = self.expr(r)
            a = self.expr(l, want=b.ty)
        else:
            a = self.expr(l)
            b = self.expr(r, want=a.ty)
        if a.ty != b.ty:
            raise Untranslatable("comparison of %s with %s" % (lean_ty(a.ty), lean_ty(b.ty)))
        if isinstance(op, (ast.Eq, ast.NotEq)):
            s = "==" if isinstance(op, ast.Eq) else "!="
            return self.lift([a, b], lambda ts: ("(%s %s %s)" % (ts[0], s, ts[1]), BOOL))
        if isinstance(op, (ast.Lt, ast.LtE, ast.Gt, ast.GtE)) and a.ty in (INT, CHAR):
            s = {ast.Lt: "<", ast.LtE: "≤", ast.Gt: ">", ast.GtE: "≥"}[type(op)]
            return self.lift([a, b], lambda ts: ("(decide (%s %s %s))" % (ts[0], s, ts[1]), BOOL))
        raise Untranslatable("comparison " + type(op).__name__)

    def subscript(self, e):
        x = self.expr(e.value)
        if isinstance(x.ty, tuple) and x.ty[0] == "Option" and isinstance(e.slice, ast.Constant) and ("[%r]" % (e.slice.value,)) in self.attrs:
            # d["key"] on an optional record (None -> TypeError), result type from the spec's table
            ty = self.attrs["[%r]" % (e.slice.value,)]
            self.constructs.add("d[key] on an optional record (TypeError on None explicit)")
            g = self.lift([x], lambda ts: (self.prim("(Py.optGet %s)" % ts[0]), ty))
            if g.partial:
                raise Untranslatable("partial operand in " + ast.unparse(e))
            return E(g.text, ty, True)
        if not (isinstance(x.ty, tuple) and x.ty[0] == "List"):
            raise Untranslatable("subscript of a value of type %s" % lean_ty(x.ty))
        sl = e.slice
        if isinstance(sl, ast.Slice):
            if sl.step is not None:
                raise Untranslatable("slice step")
            lo = self.expr(sl.lower) if sl.lower is not None else None
            hi = self.expr(sl.upper) if sl.upper is not None else None
            for b, n in ((lo, sl.lower), (hi, sl.upper)):
                if b is not None:
                    self.need(b, INT, n)
            self.constructs.add("slice")
            if lo is not None and hi is not None:
                return self.lift([x, lo, hi], lambda ts: ("(Py.slice %s %s %s)" % tuple(ts), x.ty))
            if lo is not None:
                return self.lift([x, lo], lambda ts: ("(Py.sliceFrom %s %s)" % tuple(ts), x.ty))
            if hi is not None:
                return self.lift([x, hi], lambda ts: ("(Py.sliceTo %s %s)" % tuple(ts), x.ty))
            return x
        i = self.expr(sl)
        self.need(i, INT, sl)
        self.constructs.add("index (IndexError explicit)")
        g = self.lift([x, i], lambda ts: (self.prim("(Py.getItem %s %s)" % tuple(ts)), x.ty[1]))
        if g.partial:   # operands were partial themselves: flatten Except (Except _)
            v = self.fresh()
            return E("(match %s with | .error e__ => Except.error e__ | .ok %s => %s)" % (g.text, v, v), x.ty[1], True)
        return E(g.text, x.ty[1], True)

    def call(self, e):
        fn = e.func
        src = ast.unparse(fn)
        if src in self.externals:
            ext = self.externals[src]
            if isinstance(ext, (list, tuple)):   # alternatives (lean, [argument types], result type, partial): first match
                if e.keywords:
                    raise Untranslatable("keyword arguments of " + src)
                es = [self.expr(a) for a in e.args]
                for lean, argtys, ret, partial in ext:
                    if [x.ty for x in es] == list(argtys):
                        r = self.lift(es, lambda ts: ("(%s)" % " ".join([lean] + ts), ret))
                        if partial and r.partial:
                            raise Untranslatable("partial operands of " + src)
                        return E(r.text, ret, partial or r.partial)
                raise Untranslatable("no reading of %s for argument types %s" % (src, [lean_ty(x.ty) for x in es]))
            args = list(e.args)
            kws = {k.arg: k.value for k in e.keywords}
            if set(kws) - set(ext.kw):
                raise Untranslatable("keyword arguments of " + src)
            for k in ext.kw:
                if k in kws:
                    args.append(kws[k])
            es = [self.expr(a) for a in args]
            r = self.lift(es, lambda ts: ("(%s)" % " ".join([ext.lean] + ts), ext.ret))
            if ext.partial:
                if r.partial:
                    v = self.fresh()
                    return E("(match %s with | .error e__ => Except.error e__ | .ok %s => %s)" % (r.text, v, v), ext.ret, True)
                return E(r.text, ext.ret, True)
            return r
        if e.keywords and src != "sorted":
            raise Untranslatable("keyword arguments in call of " + src)
        if isinstance(fn, ast.Name) and not e.keywords:
            n, args = fn.id, e.args
            if n == "len" and len(args) == 1:
                x = self.expr(args[0])
                if not (isinstance(x.ty, tuple) and x.ty[0] == "List"):
                    raise Untranslatable("len of " + lean_ty(x.ty))
                return self.lift([x], lambda ts: ("(Py.len %s)" % ts[0], INT))
            if n in ("min", "max") and len(args) == 2:
                a, b = self.expr(args[0]), self.expr(args[1])
                self.need(a, INT, args[0]); self.need(b, INT, args[1])
                return self.lift([a, b], lambda ts: ("(Py.i%s %s %s)" % (n, ts[0], ts[1]), INT))
            if n == "bool" and len(args) == 1:
                return self.test(args[0])
            if n == "enumerate" and len(args) == 1:
                x = self.expr(args[0])
                if not (isinstance(x.ty, tuple) and x.ty[0] == "List"):
                    raise Untranslatable("enumerate of " + lean_ty(x.ty))
                self.constructs.add("enumerate")
                return self.lift([x], lambda ts: ("(Py.enumerate %s)" % ts[0], TList(("Tuple", INT, x.ty[1]))))
            if n == "isinstance" and len(args) == 2:
                classes = list(args[1].elts) if isinstance(args[1], ast.Tuple) else [args[1]]
                keys = [ast.unparse(c) for c in classes]
                if all(k in self.isinstance_map for k in keys):
                    x = self.expr(args[0])
                    return self.lift([x], lambda ts: (
                        "(" + " || ".join("(%s %s)" % (self.isinstance_map[k], ts[0]) for k in keys) + ")", BOOL))
            if n == "range" and len(args) in (1, 2):
                es = [self.expr(a) for a in args]
                for x, a in zip(es, args):
                    self.need(x, INT, a)
                self.constructs.add("range(a, b) -> Py.range (the list of the integers a .. b-1)")
                if len(es) == 1:
                    return self.lift(es, lambda ts: ("(Py.range (0 : Int) %s)" % ts[0], TList(INT)))
                return self.lift(es, lambda ts: ("(Py.range %s %s)" % tuple(ts), TList(INT)))
            if n == "zip" and len(args) == 2:
                a, b = self.expr(args[0]), self.expr(args[1])
                if all(isinstance(x.ty, tuple) and x.ty[0] == "List" for x in (a, b)):
                    self.constructs.add("zip")
                    return self.lift([a, b], lambda ts: ("(List.zip %s %s)" % tuple(ts), TList(("Tuple", a.ty[1], b.ty[1]))))
            if n in ("all", "any") and len(args) == 1 and isinstance(args[0], ast.GeneratorExp):
                return self.quantifier(n, args[0])
        if isinstance(fn, ast.Name) and fn.id == "sorted" and len(e.args) == 1 and [k.arg for k in e.keywords] == ["key"] \
                and isinstance(e.keywords[0].value, ast.Lambda) and "sorted_lt" in self.consts:
            # sorted(xs, key=lambda a: k) -> the stable insertion sort of the prelude, `<` on keys from the spec
            lam = e.keywords[0].value
            if len(lam.args.args) != 1 or lam.args.defaults or lam.args.vararg or lam.args.kwarg:
                raise Untranslatable("key function " + ast.unparse(lam))
            x = self.expr(e.args[0])
            if not (isinstance(x.ty, tuple) and x.ty[0] == "List"):
                raise Untranslatable("sorted of " + lean_ty(x.ty))
            v = lam.args.args[0].arg
            saved = self.env.get(v)
            self.env[v] = x.ty[1]
            k = self.expr(lam.body)
            if saved is None:
                del self.env[v]
            else:
                self.env[v] = saved
            if k.partial:
                raise Untranslatable("partial key function")
            self.constructs.add("sorted(key=lambda) -> Py.sortedBy (stable insertion sort)")
            return self.lift([x], lambda ts: ("(Py.sortedBy %s (fun %s => %s) %s)" % (self.consts["sorted_lt"][0], v, k.text, ts[0]), x.ty))
        if isinstance(fn, ast.Attribute):
            if fn.attr == "lstrip" and len(e.args) == 1 and isinstance(e.args[0], ast.Constant) and isinstance(e.args[0].value, str):
                x = self.expr(fn.value)
                self.need(x, TEXT, fn.value)
                self.constructs.add("str.lstrip(literal set)")
                return self.lift([x], lambda ts: ("(Py.lstrip %s %s)" % (ts[0], _codes(e.args[0].value)), TEXT))
            if fn.attr == "join" and len(e.args) == 1 and isinstance(fn.value, ast.Constant) and isinstance(fn.value.value, str):
                x = self.expr(e.args[0])
                self.need(x, TList(TEXT), e.args[0])
                self.constructs.add("str.join")
                return self.lift([x], lambda ts: ("(Py.join %s %s)" % (_codes(fn.value.value), ts[0]), TEXT))
        raise Untranslatable("call " + ast.unparse(e))

    def quantifier(self, which, g):
        """all(... for x in xs) / any(...): List.all / List.any with a pure body"""
        if len(g.generators) != 1 or g.generators[0].ifs or g.generators[0].is_async:
            raise Untranslatable("generator " + ast.unparse(g))
        gen = g.generators[0]
        it = self.expr(gen.iter)
        if not (isinstance(it.ty, tuple) and it.ty[0] == "List"):
            raise Untranslatable("generator over " + lean_ty(it.ty))
        elem = it.ty[1]
        if isinstance(gen.target, ast.Name):
            targets, tys = [gen.target.id], [elem]
        elif isinstance(gen.target, ast.Tuple) and all(isinstance(x, ast.Name) for x in gen.target.elts) \
                and isinstance(elem, tuple) and elem[0] == "Tuple" and len(elem) - 1 == len(gen.target.elts):
            targets, tys = [x.id for x in gen.target.elts], list(elem[1:])
        else:
            raise Untranslatable("generator target " + ast.unparse(gen.target))
        saved = {t: self.env.get(t) for t in targets}
        for t, ty in zip(targets, tys):
            self.env[t] = ty
        body = self.test(g.elt)
        for t, old in saved.items():
            if old is None:
                del self.env[t]
            else:
                self.env[t] = old
        if body.partial:
            raise Untranslatable("partial operation inside a generator expression")
        self.constructs.add("all/any(generator) -> List.all / List.any")
        pat = targets[0] if len(targets) == 1 else "(" + ", ".join(targets) + ")"
        return self.lift([it], lambda ts: ("(List.%s %s (fun %s => %s))" % (which, ts[0], pat, body.text), BOOL))

    # ---- statements ------------------------------------------------------
    def assign(self, name, ty):
        if name in self.env and self.env[name] != ty:
            raise Untranslatable("variable %s changes type from %s to %s" % (name, lean_ty(self.env[name]), lean_ty(ty)))
        self.env[name] = ty

    def block(self, stmts, k):
        """statements, then the continuation `k()` (text) if control falls through"""
        if not stmts:
            return k()
        s, rest = stmts[0], stmts[1:]
        memo = []

        def cont():
            if not memo:
                memo.append(self.block(rest, k))
            return memo[0]

        if isinstance(s, ast.Expr) and isinstance(s.value, ast.Constant) and isinstance(s.value.value, str):
            return cont()
        if isinstance(s, ast.Pass):
            return cont()
        if isinstance(s, ast.Return):
            if s.value is None:
                raise Untranslatable("bare return")
            e = self.expr(s.value, want=self.ret_ty)
            if e.ty != self.ret_ty:
                if self.ret_ty == BOOL:
                    e = self.test(s.value) if self._is_boolish(s.value) else e
                if e.ty != self.ret_ty:
                    raise Untranslatable("return of %s where %s is declared" % (lean_ty(e.ty), lean_ty(self.ret_ty)))
            if e.partial:
                v = self.fresh()
                return self.bind(e, v, self.ret(v))
            return self.ret(e.text)
        if isinstance(s, ast.Raise):
            exc = s.exc
            cls = exc.func if isinstance(exc, ast.Call) else exc
            if not isinstance(cls, ast.Name):
                raise Untranslatable("raise " + ast.unparse(s))
            self.constructs.add("raise")
            return self.err(self.cls(cls.id))
        if isinstance(s, ast.Break) and self.in_loop:
            return self.loop_break()
        if isinstance(s, ast.Continue) and self.in_loop:
            return self.loop_continue()
        if isinstance(s, ast.AugAssign) and isinstance(s.target, ast.Name):
            return self.block([ast.Assign(targets=[s.target], value=ast.BinOp(left=ast.Name(id=s.target.id, ctx=ast.Load()), op=s.op, right=s.value))] + rest, k)
        if isinstance(s, ast.Assign) and len(s.targets) == 1:
            t = s.targets[0]
            if isinstance(t, ast.Name):
                decl = self.declared.get(t.id)
                e = self.expr(s.value, want=decl or self.env.get(t.id))
                if decl is not None and isinstance(decl, tuple) and decl[0] == "Option" and e.ty == decl[1]:
                    e = self.lift([e], lambda ts: ("(some %s)" % ts[0], decl))
                self.assign(t.id, e.ty)
                return self.bind(e, t.id, cont())
            if isinstance(t, ast.Tuple) and all(isinstance(x, ast.Name) for x in t.elts):
                e = self.expr(s.value)
                if not (isinstance(e.ty, tuple) and e.ty[0] == "Tuple" and len(e.ty) - 1 == len(t.elts)):
                    raise Untranslatable("unpacking of " + lean_ty(e.ty))
                for x, ty in zip(t.elts, e.ty[1:]):
                    self.assign(x.id, ty)
                self.constructs.add("tuple unpacking")
                return self.bind(e, "(" + ", ".join(x.id for x in t.elts) + ")", cont())
            if isinstance(t, ast.Subscript) and isinstance(t.value, ast.Name) and not isinstance(t.slice, ast.Slice):
                xs = self.expr(t.value)
                if not (isinstance(xs.ty, tuple) and xs.ty[0] == "List"):
                    raise Untranslatable("item assignment on " + lean_ty(xs.ty))
                i = self.expr(t.slice)
                self.need(i, INT, t.slice)
                v = self.expr(s.value, want=xs.ty[1])
                self.need(v, xs.ty[1], s.value)
                self.constructs.add("item assignment (IndexError explicit)")
                g = self.lift([i, v], lambda ts: (self.prim("(Py.setItem %s %s %s)" % (xs.text, ts[0], ts[1])), xs.ty))
                if g.partial:
                    raise Untranslatable("partial operands in item assignment")
                return self.bind(E(g.text, xs.ty, True), t.value.id, cont())
        if isinstance(s, ast.Expr) and isinstance(s.value, ast.Call) and isinstance(s.value.func, ast.Attribute) \
                and s.value.func.attr == "pop" and isinstance(s.value.func.value, ast.Name) and not s.value.keywords:
            xs = self.expr(s.value.func.value)
            args = s.value.args
            if isinstance(xs.ty, tuple) and xs.ty[0] == "List":
                self.constructs.add("list.pop (IndexError explicit)")
                if not args:
                    return self.bind(E(self.prim("(Py.popLast %s)" % xs.text), None, True), "(_, %s)" % xs.text, cont())
                if len(args) == 1 and isinstance(args[0], ast.Constant) and args[0].value == 0:
                    return self.bind(E(self.prim("(Py.pop0 %s)" % xs.text), None, True), "(_, %s)" % xs.text, cont())
        if isinstance(s, ast.Expr) and isinstance(s.value, ast.Call) and isinstance(s.value.func, ast.Name) \
                and s.value.func.id.startswith("self_") and s.value.func.id[5:] in self.methods \
                and not s.value.args and not s.value.keywords:
            # self.m(): another translated method run on the current attributes; its exceptions propagate
            self.constructs.add("self.m() -> call of the translated method on the current attribute values")
            call = "(%s)" % " ".join([self.methods[s.value.func.id[5:]]] + self.self_params)
            return self.bind(E(call, None, True), "(_, %s)" % ", ".join(self.self_state), cont())
        if isinstance(s, ast.If):
            c = self.test(s.test)
            v = self.fresh() if c.partial else None
            if self.join and rest:
                return self.joined(list(s.body) + list(s.orelse), cont, lambda kk: self.bind(c, v, "(if %s then\n%s\nelse\n%s)" % (
                    v, _ind(self.block(s.body, kk)), _ind(self.block(s.orelse, kk)))) if c.partial else
                    "(if %s then\n%s\nelse\n%s)" % (c.text, _ind(self.block(s.body, kk)), _ind(self.block(s.orelse, kk))))
            text = "(if %s then\n%s\nelse\n%s)" % (v or c.text, _ind(self.block(s.body, cont)), _ind(self.block(s.orelse, cont)))
            return self.bind(c, v, text) if c.partial else text
        if isinstance(s, ast.Try) and not s.finalbody and s.handlers and (
                len(s.body) == 1 or all(len(h.body) == 1 and isinstance(h.body[0], ast.Raise) for h in s.handlers)):
            if self.join and rest:
                stmts = list(s.body) + [x for h in s.handlers for x in h.body] + list(s.orelse)
                return self.joined(stmts, cont, lambda kk: self.try_stmt(s, kk))
            return self.try_stmt(s, cont)
        if isinstance(s, ast.For) and not s.orelse:
            return self.for_loop(s, cont)
        if isinstance(s, ast.While) and not s.orelse:
            return self.while_loop(s, cont)
        raise Untranslatable("statement " + ast.unparse(s).split("\n")[0])

    # ---- loops -----------------------------------------------------------
    @staticmethod
    def _assigned(stmts):
        out = []
        for n in ast.walk(ast.Module(body=list(stmts), type_ignores=[])):
            tgts = []
            if isinstance(n, ast.Assign):
                tgts = n.targets
            elif isinstance(n, (ast.AugAssign, ast.For)):
                tgts = [n.target]
            elif isinstance(n, ast.Call) and isinstance(n.func, ast.Attribute) and n.func.attr in ("pop", "append", "extend"):
                tgts = [n.func.value]
            for t in tgts:
                while isinstance(t, (ast.Subscript, ast.Attribute)):   # xs[i] = v / o.a = v mutate the base variable
                    t = t.value
                for x in ast.walk(t):
                    if isinstance(x, ast.Name) and x.id not in out:
                        out.append(x.id)
        return out

    @staticmethod
    def _names(nodes):
        out = []
        for n0 in nodes:
            for n in ast.walk(n0):
                if isinstance(n, ast.Name) and n.id not in out:
                    out.append(n.id)
        return out

    def _loop_frame(self, s, targets):
        state = [v for v in self._assigned(s.body) if v in self.env and v not in targets]
        free = [v for v in self._names([s]) if v in self.env and v not in state and v not in targets]
        return state, free

    def _pat(self, names):
        return "()" if not names else (names[0] if len(names) == 1 else "(" + ", ".join(names) + ")")

    def _state_ty(self, state):
        return "Unit" if not state else " × ".join(_atom(lean_ty(self.env[v])) for v in state)

    def _after(self, call, state, cont):
        saved = self.in_loop
        return "(match %s with\n  | .ret r__ => %s\n  | .raise e__ => %s\n  | .fall %s =>\n%s)" % (
            call, self.ret("r__"), self.err("e__"), self._pat(state), _ind(cont(), 4))

    def for_loop(self, s, cont):
        it = self.expr(s.iter)
        if not (isinstance(it.ty, tuple) and it.ty[0] == "List"):
            raise Untranslatable("for over a value of type " + lean_ty(it.ty))
        elem = it.ty[1]
        if isinstance(s.target, ast.Name):
            targets, tys = [s.target.id], [elem]
        elif isinstance(s.target, ast.Tuple) and all(isinstance(x, ast.Name) for x in s.target.elts) \
                and isinstance(elem, tuple) and elem[0] == "Tuple" and len(elem) - 1 == len(s.target.elts):
            targets, tys = [x.id for x in s.target.elts], list(elem[1:])
        else:
            raise Untranslatable("for target " + ast.unparse(s.target))
        state, free = self._loop_frame(s, targets)
        self.nloop += 1
        fname = "%s.loop%d" % (self.name, self.nloop)
        self.constructs.add("for -> structural recursion on the sequence")
        for t, ty in zip(targets, tys):
            self.assign(t, ty)
        call_rec = "(%s)" % " ".join([fname] + free + ["rest__"] + state)
        saved = (self.in_loop, getattr(self, "_brk", None), getattr(self, "_cnt", None))
        self.in_loop, self._brk, self._cnt = True, "(.fall %s)" % self._pat(state), call_rec
        body = self.block(s.body, lambda: call_rec)
        self.in_loop, self._brk, self._cnt = saved
        binders = "".join(" (%s : %s)" % (v, lean_ty(self.env[v])) for v in free)
        sig = "def %s%s%s : %s → %sPy.Flow %s %s" % (
            fname, self.implicit, binders, _atom(lean_ty(it.ty)), "".join(_atom(lean_ty(self.env[v])) + " → " for v in state),
            self.exc_ty + " " + _atom(self._state_ty(state)), _atom(lean_ty(self.full_ret_ty or self.ret_ty)))
        stpat = "".join(", " + v for v in state)
        self.aux.append("%s\n  | []%s => .fall %s\n  | %s :: rest__%s =>\n%s\n" % (
            sig, stpat, self._pat(state), self._pat(targets), stpat, _ind(body, 4)))
        call = "(%s)" % " ".join([fname] + free + [it.text if not it.partial else "it__"] + state)
        text = self._after(call, state, cont)
        return self.bind(it, "it__", text) if it.partial else text

    def while_loop(self, s, cont):
        if not self.fuel:
            raise Untranslatable("while loop without a fuel expression in the spec: " + ast.unparse(s.test))
        fuel = self.expr(ast.parse(self.fuel.pop(0), mode="eval").body)
        self.need(fuel, INT, s.test)
        if fuel.partial:
            raise Untranslatable("partial fuel expression")
        state, free = self._loop_frame(s, [])
        self.nloop += 1
        fname = "%s.while%d" % (self.name, self.nloop)
        self.constructs.add("while -> recursion on explicit fuel (OutOfFuel is an exception)")
        call_rec = "(%s)" % " ".join([fname] + free + ["fuel__"] + state)
        saved = (self.in_loop, getattr(self, "_brk", None), getattr(self, "_cnt", None))
        self.in_loop, self._brk, self._cnt = True, "(.fall %s)" % self._pat(state), call_rec
        c = self.test(s.test)
        v = self.fresh() if c.partial else None
        body = "(if %s then\n%s\nelse\n  (.fall %s))" % (v or c.text, _ind(self.block(s.body, lambda: call_rec)), self._pat(state))
        if c.partial:
            body = self.bind(c, v, body)
        self.in_loop, self._brk, self._cnt = saved
        binders = "".join(" (%s : %s)" % (x, lean_ty(self.env[x])) for x in free)
        sig = "def %s%s%s : Nat → %sPy.Flow %s %s" % (
            fname, self.implicit, binders, "".join(_atom(lean_ty(self.env[x])) + " → " for x in state),
            self.exc_ty + " " + _atom(self._state_ty(state)), _atom(lean_ty(self.full_ret_ty or self.ret_ty)))
        stpat = "".join(", " + x for x in state)
        self.aux.append("%s\n  | 0%s => .raise OUTOFFUEL__\n  | fuel__ + 1%s =>\n%s\n" % (sig, stpat, stpat, _ind(body, 4)))
        call = "(%s)" % " ".join([fname] + free + ["(%s).toNat" % fuel.text] + state)
        return self._after(call, state, cont)

    def joined(self, stmts, cont, build):
        """
        `build(k)` translates a branching statement whose branches continue with `k()`; here every branch calls ONE
        auxiliary definition `<fn>.kN` holding the rest of the block, applied to the variables it reads (first the ones
        that are not assigned by the branches, then the ones that are). Only at function level (inside a loop body the
        rest contains the loop's recursive call: the branches get their own copy as without `join`).
        """
        if self.in_loop:
            return build(cont)
        self.njoin += 1
        name = "%s.k%d" % (self.name, self.njoin)
        before = list(self.env)
        # dry run of the branches, only to learn which variables (and types) they define; everything it emitted is dropped
        snap = (len(self.aux), self.nloop, self.njoin, self.nfresh, list(self.fuel), set(self.constructs))
        build(lambda: "DRY__")
        after_build = set(self.env)
        del self.aux[snap[0]:]
        self.nloop, self.njoin, self.nfresh, self.fuel = snap[1], snap[2], snap[3], snap[4]
        rest_text = cont()      # first: the rest (its own join points come before this one in the file)
        mentioned = lambda v: re.search(r"(?<![A-Za-z0-9_.])%s(?![A-Za-z0-9_])" % re.escape(v), rest_text)
        assigned = self._assigned(stmts)
        live = [v for v in assigned if v in after_build and mentioned(v)]
        free = [v for v in before if v not in live and mentioned(v)]
        self.constructs.add("join point: the statements after an if / try are ONE auxiliary definition of the variables they read")
        binders = "".join(" (%s : %s)" % (v, lean_ty(self.env[v])) for v in free + live)
        self.aux.append("def %s%s%s : Except %s %s :=\n%s\n" % (
            name, self.implicit, binders, self.exc_ty, _atom(lean_ty(self.full_ret_ty or self.ret_ty)), _ind(rest_text)))
        call = "(%s)" % " ".join([name] + free + live)
        return build(lambda: call)

    def try_stmt(self, s, cont):
        """
        try: <ONE statement> except Cls / (Cls, ...): HANDLER [else: ELSE]
        The body is a sub-computation (Flow): it falls through with the variables it assigned, returns, or raises; a raised
        class listed by the handler runs HANDLER (in the enclosing context: it may break / continue / return / raise),
        any other propagates. One statement only (no assignment can be half-done when the exception is raised), or several
        when every handler is a single `raise` (nothing can observe the half-done assignments). Exception classes are
        matched BY NAME: subclass relations between exception classes are not modelled.
        """
        if self.generic:
            raise Untranslatable("try/except in a function abstracted over its exception type")
        for h in s.handlers:
            if h.type is None or h.name is not None:
                raise Untranslatable("bare except / except ... as name")
        assigned = self._assigned(s.body)
        saved = (self.in_loop, getattr(self, "_brk", None), getattr(self, "_cnt", None))
        self.in_loop, self._brk, self._cnt = True, None, None
        holder = {}

        def fall():
            holder["vars"] = [v for v in assigned if v in self.env]
            return "(.fall %s)" % self._pat(holder["vars"])

        body = self.block(s.body, fall)
        self.in_loop, self._brk, self._cnt = saved
        vs = holder.get("vars", [])
        self.constructs.add("try/except <classes> (one-statement body) -> match on the raised class name")
        after = self.block(list(s.orelse), cont) if s.orelse else cont()
        handlers = self.err("e__")          # no handler matches: the exception propagates
        for h in reversed(s.handlers):      # first matching handler wins
            classes = [ast.unparse(c) for c in (h.type.elts if isinstance(h.type, ast.Tuple) else [h.type])]
            test = " || ".join('e__ == "%s"' % c for c in classes)
            handlers = "(if %s then\n%s\nelse\n%s)" % (test, _ind(self.block(h.body, cont)), _ind(handlers))
        return ("(match (%s : Py.Flow String %s %s) with\n  | .ret r__ => %s\n  | .raise e__ =>\n%s\n  | .fall %s =>\n%s)"
                % (body, _atom(self._state_ty(vs)), _atom(lean_ty(self.full_ret_ty or self.ret_ty)), self.ret("r__"),
                   _ind(handlers, 4), self._pat(vs), _ind(after, 4)))

    def loop_break(self):
        if self._brk is None:
            raise Untranslatable("break / continue directly inside a try body")
        return self._brk

    def _unused_loop_break(self):
        return self._brk

    def loop_continue(self):
        if self._cnt is None:
            raise Untranslatable("break / continue directly inside a try body")
        return self._cnt


def translate_function(source, name, lean_name, cls=None, params=None, binders=None, ret=None, self_state=(), **kw):
    """
    Translate the whole function `name` to `def <lean_name> ... : Except String <ret>` (plus one auxiliary definition per
    loop). `params`: python parameter -> type (default: from the annotations); `binders`: Lean binder text replacing the
    automatic `(p : T)` list (for functions abstracted over their environment). Returns (lean text, python source, constructs).
    """
    fn = find_function(source, name, cls)
    pysrc = ast.get_source_segment(source, fn)
    if fn.args.vararg or fn.args.kwarg or fn.args.kwonlyargs or fn.args.defaults:
        raise Untranslatable("signature of " + name)
    # methods: the attribute `self.X` becomes the variable `self_X`; the attributes in `self_state` are mutable state and are
    # returned next to the result: `return e` -> (e, self_X...), falling off the end (return None) -> ((), self_X...)
    class _Self(ast.NodeTransformer):
        def visit_Attribute(self, node):
            if isinstance(node.value, ast.Name) and node.value.id == "self":
                return ast.copy_location(ast.Name(id="self_" + node.attr, ctx=node.ctx), node)
            return self.generic_visit(node)
    if cls:
        fn = _Self().visit(fn)
        ast.fix_missing_locations(fn)
    for n in ast.walk(fn):   # Python identifiers that are Lean keywords get a trailing underscore
        if isinstance(n, ast.Name) and n.id in LEAN_KEYWORDS:
            n.id += "_"
        if isinstance(n, ast.arg) and n.arg in LEAN_KEYWORDS:
            n.arg += "_"
    # generator functions: `yield e` appends to the hidden accumulator `yield__`, which is what the function returns
    # (the list of everything the generator yields when run to its end)
    is_gen = any(isinstance(n, (ast.Yield, ast.YieldFrom)) for n in ast.walk(fn))
    if is_gen:
        class _Yield(ast.NodeTransformer):
            def visit_Expr(self, node):
                if isinstance(node.value, ast.Yield) and node.value.value is not None:
                    return ast.copy_location(ast.Assign(
                        targets=[ast.Name(id="yield__", ctx=ast.Store())],
                        value=ast.BinOp(left=ast.Name(id="yield__", ctx=ast.Load()), op=ast.Add(),
                                        right=ast.List(elts=[node.value.value], ctx=ast.Load()))), node)
                return node
        fn = _Yield().visit(fn)
        ast.fix_missing_locations(fn)
        if any(isinstance(n, (ast.Yield, ast.YieldFrom, ast.Return)) for n in ast.walk(fn)):
            raise Untranslatable("yield used as an expression / yield from / return in a generator")
    if params is None:
        params = {a.arg: ann_type(a.annotation) for a in fn.args.args if a.arg != "self"}
    ret_ty = ret if ret is not None else ann_type(fn.returns)
    state = ["self_" + a for a in self_state]
    inner_ret = ret_ty
    if state:
        ret_ty = ("Tuple", inner_ret) + tuple(params[v] for v in state)
    tr = Tr(lean_name, params, ret_ty, **kw)
    tr.self_params = [p for p in params if p.startswith("self_")]
    tr.self_state = state
    if state:
        tr.ret_ty = inner_ret            # what `return e` must have; wrapped below
        tr.full_ret_ty = ret_ty
        plain_ret = tr.ret
        tr.ret = lambda text: plain_ret(text) if text == "r__" else plain_ret("(%s, %s)" % (text, ", ".join(state)))
        tr.constructs.add("method: self.X -> variable self_X; mutated attributes returned next to the result")

    if is_gen:
        tr.env["yield__"] = ret_ty
        tr.constructs.add("generator: yield e -> append to the accumulator that is returned (the generator run to its end)")

    def off_the_end():
        if is_gen:
            return tr.ret("yield__")
        if inner_ret == "Unit":
            return tr.ret("()")
        raise Untranslatable("control reaches the end of %s without return (returns None)" % name)

    body = tr.block(fn.body, off_the_end)
    if is_gen:
        body = "(let yield__ : %s := []\n%s)" % (lean_ty(ret_ty), _ind(body, 1))
    tr.ret_ty = ret_ty
    if tr.fuel:
        raise Untranslatable("%d fuel expression(s) of the spec unused: the while loops are gone" % len(tr.fuel))
    if binders is None:
        binders = " ".join("(%s : %s)" % (p, lean_ty(t)) for p, t in params.items())
    if tr.generic and tr.aux:
        raise Untranslatable("loops in a function abstracted over its exception type")
    out = "".join(a + "\n" for a in tr.aux)
    out += "def %s %s : Except %s %s :=\n%s\n" % (lean_name, binders, tr.exc_ty, _atom(lean_ty(ret_ty)), _ind(body))
    out = out.replace("EXC__", tr.exc_ty).replace("OUTOFFUEL__", tr.cls("OutOfFuel"))
    return out, pysrc, sorted(tr.constructs)

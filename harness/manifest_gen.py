#!/usr/bin/env python3
# -*- coding: utf-8 -*-
"""Regenerates MANIFEST.json from harness/manifest_data.py (kept valid at all times)."""
import json
import os
import sys

HERE = os.path.dirname(os.path.abspath(__file__))
sys.path.insert(0, HERE)
import manifest_data as md  # noqa: E402
import common  # noqa: E402


def obligations(pid):
    """Names of the property theorems (every non-private theorem of Props/Cxx*.lean), as audited on every run."""
    try:
        names = [n.split(".")[-1] for n in common.theorem_names(pid)]
    except Exception:
        return ""
    return (" OBLIGATIONS re-checked on every run (%d, `#print axioms` within propext/Quot.sound/Classical.choice): %s."
            % (len(names), ", ".join(names)))

ALL = ["C%02d" % i for i in range(1, 21)]


def main():
    checks = []
    for pid in ALL:
        c = md.CHECKS.get(pid)
        if not c:
            continue
        checks.append({
            "property_id": pid,
            "quick_cmd": "/venv/bin/python harness/check.py %s --tier quick" % pid,
            "thorough_cmd": "/venv/bin/python harness/check.py %s --tier thorough" % pid,
            "evidence_file": "evidence/%s.json" % pid,
            "replay_cmd_template": "/venv/bin/python harness/check.py %s --replay {path}" % pid,
            "engine": "lean4-proof+correspondence",
            "level_claimed": {"category": "proof", "text": c["text"] + obligations(pid), "design_ref": c.get("design_ref", "DESIGN.md §5 " + pid)},
            "level_note": c["note"],
            "technique": c["technique"],
        })
    na = [{"property_id": pid, "reason": md.NOT_APPLICABLE.get(pid, "not yet built in this round: no Lean model and correspondence exist for it yet (see DESIGN.md §8)")}
          for pid in ALL if pid not in md.CHECKS]
    m = {
        "version": 1,
        "setup_cmd": "/venv/bin/python harness/setup.py",
        "hooks": {
            "guard": "PY_GQL_VERIF",
            "enable": "none needed: checks import py_gql from /repo/src in-process; PY_GQL_VERIF=1 is exported by the harness but no source hook reads it",
            "baseline_off_cmd": "cd /repo && /venv/bin/python -m pytest -ra -q -p no:cacheprovider --timeout=900 --continue-on-collection-errors",
            "source_commits": md.HOOK_COMMITS,
            "add_only": True,
        },
        "engines": [{
            "name": "lean4-proof+correspondence",
            "path": "lean/ (Lean 4 models, theorems, drivers) + harness/ (extraction, correspondence, oracles)",
            "serves_properties": [c["property_id"] for c in checks],
            "kind_free_text": "Lean 4 theorems about a formal model; model tied to /repo by re-translation of source (Generated/*.lean) and by differential correspondence through a compiled line-protocol driver",
        }],
        "checks": checks,
        "not_applicable": na,
        "notes": md.NOTES,
    }
    with open(os.path.join(HERE, "..", "MANIFEST.json"), "w") as f:
        json.dump(m, f, indent=1)
        f.write("\n")


def lakefile():
    lean = os.path.join(HERE, "..", "lean")
    drivers = sorted(f[:-5] for f in os.listdir(os.path.join(lean, "Driver")) if f.startswith("C") and f.endswith(".lean") and f[1:3].isdigit() and len(f) == 8)
    out = ['name = "PyGqlModel"', 'version = "0.1.0"',
           "defaultTargets = [%s]" % ", ".join(['"PyGqlModel"'] + ['"drv_%s"' % d for d in drivers]), "",
           "[[lean_lib]]", 'name = "PyGqlModel"', 'globs = ["PyGqlModel.+"]', "",
           "[[lean_lib]]", 'name = "Driver"', 'globs = ["Driver.+"]', ""]
    for d in drivers:
        out += ["[[lean_exe]]", 'name = "drv_%s"' % d, 'root = "Driver.%s"' % d, ""]
    with open(os.path.join(lean, "lakefile.toml"), "w") as f:
        f.write("\n".join(out))


if __name__ == "__main__":
    main()
    lakefile()

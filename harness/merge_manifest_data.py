#!/usr/bin/env python3
"""merge_manifest_data.py base.py ours.py theirs.py out.py — three-way merge of manifest_data.py at the level of the VALUES it
computes (CHECKS[prop][field], NOTES, ...): a field the builder changed relative to the base wins, everything else stays ours.
The result is written as plain literals (the history of edits is in git)."""
import pprint
import runpy
import sys

b, o, t = (runpy.run_path(p) for p in sys.argv[1:4])
out = {}
for name in ("HOOK_COMMITS", "NOTES", "NOT_APPLICABLE"):
    out[name] = t[name] if t.get(name) != b.get(name) else o[name]
checks = {}
for prop in sorted(set(o["CHECKS"]) | set(t["CHECKS"])):
    oc, tc, bc = o["CHECKS"].get(prop, {}), t["CHECKS"].get(prop, {}), b["CHECKS"].get(prop, {})
    checks[prop] = {}
    for field in list(oc) + [f for f in tc if f not in oc]:
        checks[prop][field] = tc[field] if (field in tc and tc.get(field) != bc.get(field)) else oc.get(field, tc.get(field))
with open(sys.argv[4], "w") as f:
    f.write('# -*- coding: utf-8 -*-\n"""Per-property manifest entries. One dict entry per CLAIMED property. (Written by harness/merge_manifest_data.py\n'
            'after a three-way merge; edit the literals below directly.)"""\n\n')
    for name in ("HOOK_COMMITS", "NOTES", "NOT_APPLICABLE"):
        f.write("%s = %s\n\n" % (name, pprint.pformat(out[name], width=160)))
    f.write("CHECKS = %s\n" % pprint.pformat(checks, width=160, sort_dicts=False))

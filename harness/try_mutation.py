#!/usr/bin/env python3
"""try_mutation.py <Cxx> <file-relative-to-repo> <old> <new>  — apply a textual mutation to /repo, run the quick check, revert."""
import subprocess
import sys

prop, rel, old, new = sys.argv[1:5]
p = "/repo/" + rel
s = open(p).read()
assert s.count(old) >= 1, "pattern not found"
open(p, "w").write(s.replace(old, new, 1))
try:
    r = subprocess.run(["/venv/bin/python", "/verif/harness/check.py", prop], capture_output=True, text=True, cwd="/verif")
    print("exit", r.returncode)
    print("\n".join(l[:300] for l in r.stdout.splitlines()[-6:]))
    print(r.stderr[-800:])
finally:
    subprocess.run(["git", "-C", "/repo", "checkout", "--", "."])

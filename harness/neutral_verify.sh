#!/bin/bash
# neutral_verify.sh Cxx k — confirm a behaviour-preserving patch from /tmp/neut-out (applies on /repo HEAD, unedited suite
# passes with it) and keep it as /verif/neutral/Cxx-k/{patch.diff,meta.json}
p=$1; k=$2; src=/tmp/neut-out/$p/$k; dst=/verif/neutral/$p-$k; wt=/tmp/nv-repo
[ -f $src/patch.diff ] || { echo "$p-$k: no patch"; exit 2; }
git -C /repo worktree remove --force $wt 2>/dev/null; git -C /repo worktree add -q $wt HEAD || exit 2
cd $wt
if ! git apply $src/patch.diff 2>/dev/null && ! git apply -3 $src/patch.diff 2>/dev/null; then echo "$p-$k: DOES NOT APPLY on HEAD"; cd /; git -C /repo worktree remove --force $wt; exit 1; fi
res=$(PYTHONPATH=$wt/src /venv/bin/python -m pytest -q -p no:cacheprovider 2>&1 | tail -1 | sed 's/\x1b\[[0-9;]*m//g')
git diff > /tmp/nv.diff
cd /; git -C /repo worktree remove --force $wt
case "$res" in *"1895 passed"*) ;; *) echo "$p-$k: SUITE: $res"; exit 1;; esac
case "$res" in *failed*) echo "$p-$k: SUITE: $res"; exit 1;; esac
mkdir -p $dst; cp /tmp/nv.diff $dst/patch.diff; cp $src/meta.json $dst/meta.json
echo "$p-$k: ok ($res)"

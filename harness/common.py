# -*- coding: utf-8 -*-
"""
Shared machinery for every property check.

One run of ``check.py Cxx`` does (see DESIGN.md §2):

1. regenerate the property's ``Generated/*.lean`` files from /repo's working
   tree (``corr/Cxx.py: extract``),
2. ``lake build`` the property's theorem module and its driver executable,
3. audit: forbidden-word grep + ``#print axioms`` for every theorem in
   ``Props/Cxx.lean``,
4. correspondence + direct property oracle (``corr/Cxx.py: run``),
5. classify what was found against ``known_findings.json``, write evidence,
   print ``VIOLATION``/``KNOWN-FINDING`` lines and pick the exit code.
"""
import fcntl
import hashlib
import importlib
import json
import os
import random
import re
import subprocess
import sys
import time
import traceback
from pathlib import Path

VERIF = Path(__file__).resolve().parent.parent
LEAN = VERIF / "lean"
REPO = Path(os.environ.get("PYGQL_REPO", "/repo"))
EVIDENCE = VERIF / "evidence"
REPLAYS = VERIF / "replays"
CORPUS = VERIF / "corpus"
KNOWN = VERIF / "known_findings.json"
GUARD = "PY_GQL_VERIF"

ALLOWED_AXIOMS = {"propext", "Quot.sound", "Classical.choice"}
FORBIDDEN = re.compile(
    r"\bsorry\b|\badmit\b|^\s*axiom\s|native_decide|bv_decide|implemented_by|"
    r"^\s*unsafe\s|maxHeartbeats\s+0\b"
)

TRUSTED_BASE = [
    "Lean 4.33.0 kernel (lake build; thorough tier re-checks the property module with leanchecker)",
    "axioms allowed in property theorems: propext, Quot.sound, Classical.choice (audited with #print axioms on every run)",
    "harness: extract.py / corr/*.py (extraction, generators, canonicalisation, oracles) and the Lean compiler for the driver executable",
    "Python/CPython semantics of str, list, dict, int are modelled, not verified",
]


def ensure_repo_on_path():
    """The checks always import py_gql from /repo's *current working tree*."""
    src = str(REPO / "src")
    if sys.path[0] != src:
        sys.path.insert(0, src)
    os.environ.setdefault(GUARD, "1")


class Timeout(Exception):
    pass


class Driver:
    """Batch interface to a compiled Lean driver (one JSON object per line)."""

    def __init__(self, prop):
        self.prop = prop
        self.exe = LEAN / ".lake" / "build" / "bin" / ("drv_" + prop)
        self.calls = 0
        self.lines = 0

    def available(self):
        return self.exe.exists()

    def ask(self, reqs, timeout=600):
        """Send a list of JSON-able requests, get the list of answers."""
        if not reqs:
            return []
        data = "\n".join(json.dumps(r, ensure_ascii=True, separators=(",", ":")) for r in reqs) + "\n"
        p = subprocess.run(
            [str(self.exe)], input=data.encode("ascii"), stdout=subprocess.PIPE,
            stderr=subprocess.PIPE, timeout=timeout,
        )
        out = p.stdout.decode("utf-8").split("\n")  # NOT splitlines(): U+2028/U+0085 may travel raw inside strings
        if out and out[-1] == "":
            out.pop()
        self.calls += 1
        self.lines += len(reqs)
        if p.returncode != 0 or len(out) != len(reqs):
            raise RuntimeError(
                "driver %s failed: rc=%s, %d answers for %d requests, stderr=%s"
                % (self.exe.name, p.returncode, len(out), len(reqs), p.stderr.decode("utf-8", "replace")[-2000:])
            )
        return [json.loads(l) for l in out]


class Ctx:
    """What a ``corr/Cxx.py`` module gets."""

    def __init__(self, prop, tier, seed):
        self.prop = prop
        self.tier = tier
        self.seed = seed
        self.rng = random.Random((seed * 1000003) ^ int(hashlib.sha1(prop.encode()).hexdigest()[:8], 16))
        self.t0 = time.time()
        self.deadline = self.t0 + (float(os.environ.get("VERIF_BUDGET_S", 0)) or (60 if tier == "quick" else 600))
        self.scale = 1 if tier == "quick" else 8
        self.driver = Driver(prop)
        self.evaluations = 0
        self._nontrivial = set()
        self.samples = []
        self.stats = {}
        self.found = []          # list of dict(kind, signature, what, detail)
        self.notes = []
        self.extra = {}          # extra coverage keys
        self.model_ok = True     # driver built
        self.broken_obligations = []  # names of theorems / correspondences that no longer check
        self._later = []         # (label, thunk, expected, detail) re-evaluated after everything else (see `later`)
        self._later_seen = 0

    # ---- budgets -------------------------------------------------------
    def time_left(self):
        return self.deadline - time.time()

    def out_of_time(self):
        return time.time() > self.deadline

    def n(self, quick, thorough=None):
        """A case count depending on the tier."""
        return quick if self.tier == "quick" else (thorough if thorough is not None else quick * self.scale)

    # ---- coverage ------------------------------------------------------
    def count(self, k=1):
        self.evaluations += k

    def nontrivial(self, key):
        """Register one DISTINCT non-trivial case (key must be hashable/str)."""
        if not isinstance(key, (str, bytes, int, tuple)):
            key = json.dumps(key, sort_keys=True, default=str)
        self._nontrivial.add(hashlib.sha1(repr(key).encode("utf-8", "surrogatepass")).digest()[:10])

    def sample(self, x, cap=6):
        if len(self.samples) < cap:
            self.samples.append(x)

    def stat(self, name, k=1):
        self.stats[name] = self.stats.get(name, 0) + k

    # ---- history independence -----------------------------------------
    def later(self, label, thunk, expected, detail=None, cap=150):
        """
        Register a call on the REAL code to be repeated once everything else the check does in this
        process has happened (reservoir-sampled, at most `cap` per check). Every property here states
        that a result is a function of the inputs of that call: if the repeated call - same input
        OBJECTS, same arguments - no longer gives `expected` (a canonical, comparable value the first
        call produced and the model/oracle agreed with), some call in between left state behind (a cache
        that is not reset, a mutated input tree, module-level registries) and one of the two answers
        contradicts the property. Keep the input objects alive in the thunk's closure and share them
        between calls of the check: that is what makes stale state visible.
        """
        self._later_seen += 1
        item = (label, thunk, expected, detail)
        if len(self._later) < cap:
            self._later.append(item)
        else:
            j = self.rng.randrange(self._later_seen)
            if j < cap:
                self._later[j] = item

    def run_later(self, grace=20.0):
        t_end = max(self.deadline, time.time()) + grace
        done = 0
        for label, thunk, expected, detail in self._later:
            if time.time() > t_end:
                break
            try:
                got = thunk()
            except Exception as e:  # the first call returned: raising now is a different answer
                got = "raised %s: %s" % (type(e).__name__, str(e)[:200])
            done += 1
            if got != expected:
                self.fail("history-dependent:" + label,
                          "the same call on the same input objects gave another result after the other calls of this run",
                          {"label": label, "first": expected, "repeated": got, "input": detail}, kind="property")
        if self._later:
            self.extra["repeated_calls"] = done
        self._later = []

    # ---- findings ------------------------------------------------------
    def fail(self, signature, what, detail, kind="property"):
        """
        Record a failing case.

        kind = "property":        the direct oracle shows the property false on the
                                  real code for the concrete input in `detail`.
        kind = "correspondence":  model and implementation differ on `detail`
                                  (not by itself a violation of the property).
        kind = "obligation":      a theorem / generated definition no longer checks.
        `signature` identifies the failure class computed from the (shrunk)
        case; it is what known_findings.json is matched against.
        """
        for f in self.found:
            if f["signature"] == signature and f["kind"] == kind:
                f["count"] += 1
                return
        self.found.append({"kind": kind, "signature": signature, "what": what, "detail": detail, "count": 1})


def sh(cmd, cwd=None, timeout=3600, env=None):
    p = subprocess.run(cmd, cwd=cwd, stdout=subprocess.PIPE, stderr=subprocess.STDOUT, timeout=timeout, env=env)
    return p.returncode, p.stdout.decode("utf-8", "replace")


class BuildLock:
    def __enter__(self):
        (LEAN / ".lake").mkdir(exist_ok=True)
        self.f = open(LEAN / ".lake" / "verif.lock", "w")
        fcntl.flock(self.f, fcntl.LOCK_EX)
        return self

    def __exit__(self, *a):
        fcntl.flock(self.f, fcntl.LOCK_UN)
        self.f.close()


def write_if_changed(path, content):
    path = Path(path)
    path.parent.mkdir(parents=True, exist_ok=True)
    if path.exists() and path.read_text() == content:
        return False
    path.write_text(content)
    return True


def load_corr(prop):
    sys.path.insert(0, str(VERIF / "harness"))
    return importlib.import_module("corr." + prop)


def props_modules(prop):
    """Props/Cxx.lean plus optional Props/Cxx_<part>.lean (module names)."""
    d = LEAN / "PyGqlModel" / "Props"
    files = sorted(p for p in d.glob(prop + "*.lean") if p.stem == prop or p.stem.startswith(prop + "_"))
    return ["PyGqlModel.Props." + p.stem for p in files]


def theorem_names(prop):
    """Names of the property theorems = every non-private `theorem` in Props/Cxx.lean, Props/Cxx_*.lean."""
    names = []
    for mod in props_modules(prop):
        names += _theorem_names_in((LEAN / (mod.replace(".", "/") + ".lean")).read_text())
    return names


def _theorem_names_in(src):
    ns = []
    names = []
    for line in src.splitlines():
        m = re.match(r"^namespace\s+(\S+)", line)
        if m:
            ns.append(m.group(1))
            continue
        m = re.match(r"^end\s+(\S+)", line)
        if m and ns and ns[-1].split(".")[-1] == m.group(1).split(".")[-1]:
            ns.pop()
            continue
        m = re.match(r"^(?:@\[[^\]]*\]\s*)?(?:protected\s+)?theorem\s+(\S+)", line)
        if m:
            names.append(".".join(ns + [m.group(1)]))
    return names


def lean_files_of(prop):
    """Lean sources this property depends on (transitively, inside the project)."""
    seen = {}
    todo = props_modules(prop) + ["Driver." + prop]
    while todo:
        mod = todo.pop()
        if mod in seen:
            continue
        p = LEAN / (mod.replace(".", "/") + ".lean")
        if not p.exists():
            continue
        seen[mod] = p
        for line in p.read_text().splitlines():
            m = re.match(r"^import\s+(\S+)", line)
            if m and (m.group(1).startswith("PyGqlModel.") or m.group(1).startswith("Driver.")):
                todo.append(m.group(1))
    return seen


def strip_comments(src):
    src = re.sub(r"/-.*?-/", lambda m: "\n" * m.group(0).count("\n"), src, flags=re.S)
    return "\n".join(l.split("--")[0] for l in src.splitlines())


def grep_forbidden(prop):
    hits = []
    for mod, p in lean_files_of(prop).items():
        for i, line in enumerate(strip_comments(p.read_text()).splitlines(), 1):
            if FORBIDDEN.search(line):
                hits.append("%s:%d: %s" % (p.relative_to(LEAN), i, line.strip()))
    return hits


def regenerate(prop, mod, ctx):
    """
    Rewrite Generated/*.lean from /repo's working tree: this property's extractor AND the extractors of
    every other property (their generated files may be imported by this property's model). A failing
    extractor of another property only matters if this property imports one of its files.
    """
    changed = []
    err = None
    mods = [(prop, mod)]
    for p in sorted((VERIF / "harness" / "corr").glob("C[0-9][0-9].py")):
        if p.stem != prop:
            try:
                mods.append((p.stem, load_corr(p.stem)))
            except Exception:
                continue
    mine = None
    # corr/_tr.py: functions re-derived by the statement-level translator (EXTRA[Cxx](ctx) -> files), merged into the
    # property's generated files; a translation failure is handled exactly like a failing `extract`
    try:
        tr = importlib.import_module("corr._tr")
        tr_extra, tr_owned = dict(tr.EXTRA), dict(getattr(tr, "GENERATED", {}))
    except Exception as e:
        tr_extra, tr_owned = {}, {}
        err = "corr/_tr.py cannot be loaded: %s: %s" % (type(e).__name__, e)
    jobs = []
    for name, m in mods:
        if getattr(m, "extract", None) is not None:
            jobs.append((name, m.extract, set(getattr(m, "GENERATED_FILES", []))))
        if name in tr_extra:
            jobs.append((name, tr_extra[name], set(tr_owned.get(name, []))))
    for name, extract, owned in jobs:
        try:
            files = extract(ctx if name == prop else Ctx(name, ctx.tier, ctx.seed)) or {}
        except Exception as e:  # source no longer has the expected shape
            msg = "%s: %s" % (type(e).__name__, e)
            if name == prop:
                err = (err + "; " if err else "") + "extraction failed: " + msg
            else:
                if mine is None:
                    mine = {str(p.relative_to(LEAN)) for p in lean_files_of(prop).values()}
                if owned & mine:
                    err = (err + "; " if err else "") + "extraction for %s failed (its generated files are imported here): %s" % (name, msg)
            continue
        for rel, content in files.items():
            if write_if_changed(LEAN / rel, content) and rel not in changed:
                changed.append(rel)
    return changed, err


def _tr_trusted(prop):
    """additions to the trusted base from corr/_tr.py (translated functions of this property)"""
    try:
        tr = importlib.import_module("corr._tr")
        return list(tr.TRUSTED) + list(getattr(tr, "TRUSTED_PER", {}).get(prop, [])) if prop in tr.EXTRA else []
    except Exception:
        return []


def build(prop):
    """lake build of the property's theorems and driver. Returns dict."""
    res = {"props_ok": False, "driver_ok": False, "log": "", "failed_theorems": []}
    rc, out = sh(["lake", "build", "drv_" + prop], cwd=LEAN)
    res["driver_ok"] = rc == 0
    res["log"] += out[-6000:] if rc else ""
    rc, out = sh(["lake", "build"] + props_modules(prop), cwd=LEAN)
    res["props_ok"] = rc == 0
    if rc:
        res["log"] += out[-12000:]
        # attribute errors to theorems: "error: path:line:col" -> enclosing theorem
        res["failed_theorems"] = attribute_errors(out)
        # which property modules still build on their own: their theorems stay discharged (a broken generated file of
        # one part must not zero the count of the parts that do not import it)
        res["ok_modules"] = [m for m in props_modules(prop) if sh(["lake", "build", m], cwd=LEAN)[0] == 0]
    return res


def attribute_errors(out):
    failed = []
    for m in re.finditer(r"error: (\S+?\.lean):(\d+):(\d+)", out):
        f, line = m.group(1), int(m.group(2))
        p = LEAN / f
        if not p.exists():
            continue
        name = None
        for i, l in enumerate(p.read_text().splitlines(), 1):
            if i > line:
                break
            mm = re.match(r"^(?:@\[[^\]]*\]\s*)?(?:protected\s+|private\s+)?(?:theorem|lemma|def|example|instance)\s*(\S*)", l)
            if mm:
                name = mm.group(1) or "example"
        failed.append("%s:%d (%s)" % (f, line, name))
    for m in re.finditer(r"^- (PyGqlModel\.\S+|Driver\.\S+)$", out, flags=re.M):
        failed.append("module " + m.group(1))
    return sorted(set(failed))


def audit(prop, modules=None):
    """#print axioms for every property theorem (of `modules` only, when given). Returns (names, ok_names, bad, axioms, log)."""
    if modules is None:
        modules = props_modules(prop)
        names = theorem_names(prop)
    else:
        names = []
        for mod in modules:
            names += _theorem_names_in((LEAN / (mod.replace(".", "/") + ".lean")).read_text())
    adir = LEAN / ".lake" / "audit"
    adir.mkdir(parents=True, exist_ok=True)
    f = adir / ("Audit_%s.lean" % prop)
    f.write_text("".join("import %s\n" % m for m in modules) + "".join("#print axioms %s\n" % n for n in names))
    rc, out = sh(["lake", "env", "lean", str(f)], cwd=LEAN)
    ok, bad = [], []
    # output: "'name' depends on axioms: [a, b]" or "'name' does not depend on any axioms"
    blocks = re.findall(r"'([^']+)' (does not depend on any axioms|depends on axioms: \[([^\]]*)\])", out)
    seen = {}
    for name, _, axs in blocks:
        ax = [a.strip() for a in axs.replace("\n", " ").split(",") if a.strip()]
        seen[name] = ax
    for n in names:
        if n not in seen:
            bad.append((n, ["<not printed>"]))
        elif set(seen[n]) - ALLOWED_AXIOMS:
            bad.append((n, sorted(set(seen[n]) - ALLOWED_AXIOMS)))
        else:
            ok.append(n)
    axioms_used = sorted({a for v in seen.values() for a in v})
    return names, ok, bad, axioms_used, out if (rc or bad) else ""


def load_known():
    """known_findings.json (+ per-property fragments known_findings.d/*.json, merged at integration time)."""
    k = {"findings": [], "fixed": []}
    files = ([KNOWN] if KNOWN.exists() else []) + sorted((VERIF / "known_findings.d").glob("*.json"))
    for f in files:
        d = json.loads(f.read_text())
        k["findings"] += d.get("findings", [])
        k["fixed"] += d.get("fixed", [])
    return k


def match_known(prop, signature, known):
    import fnmatch
    for k in known.get("findings", []):
        if k["property"] == prop and (k["signature"] == signature or fnmatch.fnmatchcase(signature, k["signature"])):
            return k
    return None


def write_evidence(prop, ev):
    EVIDENCE.mkdir(exist_ok=True)
    (EVIDENCE / (prop + ".json")).write_text(json.dumps(ev, indent=1, ensure_ascii=True, default=str) + "\n")


def write_replay(prop, payload):
    REPLAYS.mkdir(exist_ok=True)
    blob = json.dumps(payload, indent=1, ensure_ascii=True, sort_keys=True, default=str)
    h = hashlib.sha1(blob.encode()).hexdigest()[:12]
    p = REPLAYS / ("%s-%s.json" % (prop, h))
    p.write_text(blob + "\n")
    return p


def run_check(prop, tier, seed, replay=None):
    t0 = time.time()
    ensure_repo_on_path()
    mod = load_corr(prop)
    ctx = Ctx(prop, tier, seed)
    known = load_known()

    if replay:
        data = json.loads(Path(replay).read_text())
        if str(data.get("signature", "")).startswith("history-dependent:"):
            # the failing "input" is a history: the whole (deterministic) run of that seed and tier replays it
            rc = run_check(prop, data.get("tier", "quick"), int(data.get("seed", 0)))
            print("REPLAY %s: %s" % (prop, "property holds on this history" if rc == 0 else "property FAILS on this history"))
            return rc
        fn = getattr(mod, "replay", None)
        if fn is None:
            print("no replay function for", prop)
            return 2
        ok = fn(ctx, data)
        print("REPLAY %s: %s" % (prop, "property holds on this input" if ok else "property FAILS on this input"))
        return 0 if ok else 1

    obligations_broken = []
    with BuildLock():
        changed, xerr = regenerate(prop, mod, ctx)
        if xerr:
            obligations_broken.append("Generated (%s)" % xerr)
        b = build(prop)
        if not b["props_ok"]:
            obligations_broken.extend(b["failed_theorems"] or ["PyGqlModel.Props.%s does not build" % prop])
        names, ok_names, bad, axioms_used, alog = ([], [], [], [], "")
        if b["props_ok"]:
            names, ok_names, bad, axioms_used, alog = audit(prop)
            for n, ax in bad:
                obligations_broken.append("%s uses axioms %s" % (n, ax))
        else:
            try:
                names = theorem_names(prop)
            except Exception:
                names = []
            if b.get("ok_modules"):
                _, ok_names, bad, axioms_used, alog = audit(prop, b["ok_modules"])
                for n, ax in bad:
                    obligations_broken.append("%s uses axioms %s" % (n, ax))
        forb = grep_forbidden(prop)
        for h in forb:
            obligations_broken.append("forbidden construct: " + h)
        leanchecker = None
        if tier == "thorough" and b["props_ok"]:
            rc, out = sh(["lake", "env", "leanchecker"] + props_modules(prop), cwd=LEAN, timeout=1800)
            leanchecker = "ok" if rc == 0 else "FAILED: " + out[-500:]
            if rc != 0:
                obligations_broken.append("leanchecker rejects PyGqlModel.Props." + prop)
    ctx.model_ok = b["driver_ok"]
    ctx.broken_obligations = obligations_broken
    # the exploration budget starts once the build and the audit are done
    ctx.deadline = time.time() + (ctx.deadline - ctx.t0)

    # ---- correspondence + direct oracle (= the failing-input search) ----
    infra_error = None
    try:
        mod.run(ctx)
        ctx.run_later()
    except subprocess.TimeoutExpired as e:
        infra_error = "timeout: %s" % e
    except Exception as e:
        infra_error = "".join(traceback.format_exception(type(e), e, e.__traceback__))[-4000:]

    # ---- classify ----
    lines = []
    violations = []
    known_seen = []
    prop_fails = [f for f in ctx.found if f["kind"] == "property"]
    corr_fails = [f for f in ctx.found if f["kind"] == "correspondence"]
    for f in prop_fails:
        k = match_known(prop, f["signature"], known)
        if k:
            known_seen.append({"id": k.get("id"), "signature": f["signature"], "count": f["count"]})
            lines.append("KNOWN-FINDING: property=%s %s [%s]" % (prop, k["what"], k.get("id", "")))
        else:
            violations.append(f)
    new_prop_fail = bool(violations)
    for f in violations:
        p = write_replay(prop, {"property": prop, "kind": "property", "signature": f["signature"], "what": f["what"],
                                "input": f["detail"], "seed": seed, "tier": tier})
        lines.append("VIOLATION property=%s replay=%s" % (prop, p))
    # broken obligations / correspondence: a violation unless explained by a concrete failing input above
    unexplained = []
    if obligations_broken:
        unexplained.append({"kind": "obligation", "names": obligations_broken, "log": (b["log"] + alog)[-6000:]})
    for f in corr_fails:
        k = match_known(prop, f["signature"], known)
        if k:
            known_seen.append({"id": k.get("id"), "signature": f["signature"], "count": f["count"]})
            lines.append("KNOWN-FINDING: property=%s %s [%s]" % (prop, k["what"], k.get("id", "")))
            continue
        unexplained.append({"kind": "correspondence", "signature": f["signature"], "what": f["what"], "input": f["detail"]})
    if unexplained and not new_prop_fail:
        p = write_replay(prop, {"property": prop, "kind": "no-failing-input-found",
                                "no_longer_checks": unexplained, "seed": seed, "tier": tier})
        lines.append("VIOLATION property=%s replay=%s no-failing-input-found" % (prop, p))
        violations.append({"signature": "no-failing-input-found"})
    elif unexplained and new_prop_fail:
        # the concrete failing input above is the replay; also record what broke
        write_replay(prop, {"property": prop, "kind": "broken-with-failing-input", "no_longer_checks": unexplained,
                            "seed": seed, "tier": tier})

    n_obl = len(names)
    discharged = len(ok_names)  # when the build is broken: the theorems of the property modules that still build (see build())
    ev = {
        "property_id": prop,
        "tier": tier,
        "seed": seed,
        "level": "proof",
        "coverage": {
            "obligations": n_obl,
            "discharged": discharged,
            "checker_cmd": "cd lean && lake build PyGqlModel.Props.%s drv_%s && lake env lean .lake/audit/Audit_%s.lean  (#print axioms)%s"
                           % (prop, prop, prop, " && lake env leanchecker PyGqlModel.Props.%s" % prop if tier == "thorough" else ""),
            "trusted_base": TRUSTED_BASE + getattr(mod, "TRUSTED", []) + _tr_trusted(prop),
            "theorems": ok_names,
            "theorems_partial": [n for n in ok_names if n.endswith("_partial")],
            "axioms_used": axioms_used,
            "broken_obligations": obligations_broken,
            "generated_files_rewritten": changed,
            "leanchecker": leanchecker,
            "evaluations": ctx.evaluations,
            "distinct_nontrivial": len(ctx._nontrivial),
            "rule": getattr(mod, "RULE", ""),
            "samples": ctx.samples or ["<none>"],
            "input_distribution": ctx.stats,
            "disagreements_checked": sum(f["count"] for f in corr_fails),
            "known_findings_seen": known_seen,
            "driver_requests": ctx.driver.lines,
            "explanation": getattr(mod, "EXPLANATION", ""),
        },
        "assumptions": getattr(mod, "ASSUMPTIONS", []),
        "wall_s": round(time.time() - t0, 2),
        "violations": len(violations),
    }
    ev["coverage"].update(ctx.extra)
    if ctx.notes:
        ev["coverage"]["notes"] = ctx.notes
    if infra_error:
        ev["coverage"]["infrastructure_error"] = infra_error
    write_evidence(prop, ev)

    for l in lines:
        print(l)
    print("%s %s seed=%d: obligations %d/%d, evaluations %d (distinct non-trivial %d), violations %d, known %d, %.1fs"
          % (prop, tier, seed, discharged, n_obl, ctx.evaluations, len(ctx._nontrivial), len(violations),
             len(known_seen), time.time() - t0))
    if violations:
        return 1
    if infra_error:
        sys.stderr.write(infra_error + "\n")
        return 2
    return 0

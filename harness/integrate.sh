#!/bin/bash
# integrate.sh <agent-name> [Cxx ...] — pull a builder's clone into /verif, regenerate manifest/lakefile, build, run checks.
set -u
name=$1; shift
cd /verif || exit 1
git status --porcelain | grep -v '^??' | head -3
git pull --no-edit -q /tmp/w-$name HEAD 2>&1 | tail -5
python3 harness/manifest_gen.py
(cd lean && lake build 2>&1 | grep -E "^✖|error|Build completed" | head -20)
for p in "$@"; do
  for s in 0 1; do VERIF_SEED=$s timeout 900 /venv/bin/python harness/check.py $p 2>&1 | tail -4; done
done
ls proposed_fixes 2>/dev/null

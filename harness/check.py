#!/venv/bin/python
# -*- coding: utf-8 -*-
"""check.py <Cxx> [--tier quick|thorough] [--replay <file>]   (cwd: /verif)"""
import argparse
import os
import sys

sys.path.insert(0, os.path.dirname(os.path.abspath(__file__)))
import common  # noqa: E402


def main():
    ap = argparse.ArgumentParser()
    ap.add_argument("prop")
    ap.add_argument("--tier", default=os.environ.get("VERIF_TIER", "quick"), choices=["quick", "thorough"])
    ap.add_argument("--replay")
    a = ap.parse_args()
    seed = int(os.environ.get("VERIF_SEED", "0") or 0)
    rc = common.run_check(a.prop, a.tier, seed, a.replay)
    # leave without joining threads: a mutated implementation may have left worker threads dead-locked
    sys.stdout.flush()
    sys.stderr.flush()
    os._exit(rc)


if __name__ == "__main__":
    main()

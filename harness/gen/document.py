# -*- coding: utf-8 -*-
"""
Seeded grammar-directed generator of GraphQL documents (executable AND type-system), values and
types, as *token lists* plus a renderer to source text. Shared by the language-side properties.

A token is a pair ``(cls, lexeme)``: ``cls`` is the class name of ``py_gql.lang.token``
("Name", "Integer", "Float", "String", "BlockString", "CurlyOpen", ...), ``lexeme`` the source text of
the token (for strings: the quoted source form, escapes included).

    toks = gen_document(rng, size=12, executable=True, type_system=True, fragment_variables=False)
    text = render(toks)              # canonical: one space between tokens
    text = render(toks, rng)         # random ignored runs (spaces, newlines, commas, comments, BOM, nothing)

Everything generated derives from the June-2018 grammar (+ constant directives on variable
definitions, + fragment variables when asked), and respects the look-ahead restriction that an
optional trailing `{...}` block which is absent is not followed by a `{`-definition.
Names deliberately include keywords in non-keyword positions (`on`, `query`, `type`, `implements`, ...).
Every random choice comes from the `rng` argument (a `random.Random`).
"""

PUNCT = {
    "ExclamationMark": "!", "Dollar": "$", "ParenOpen": "(", "ParenClose": ")", "BracketOpen": "[",
    "BracketClose": "]", "CurlyOpen": "{", "CurlyClose": "}", "Colon": ":", "Equals": "=", "At": "@",
    "Pipe": "|", "Ampersand": "&", "Ellip": "...",
}
PUNCT_BY_TEXT = {v: k for k, v in PUNCT.items()}

PLAIN_NAMES = ["a", "b", "c", "id", "name", "T", "U", "Query", "Foo", "_x", "x1", "Int", "String", "ab_9"]
KEYWORDISH = ["on", "query", "mutation", "subscription", "fragment", "schema", "scalar", "type", "interface",
              "union", "enum", "input", "directive", "extend", "implements", "true", "false", "null",
              "QUERY", "FIELD", "repeatable"]
DIRECTIVE_LOCATIONS = [
    "QUERY", "MUTATION", "SUBSCRIPTION", "FIELD", "FRAGMENT_DEFINITION", "FRAGMENT_SPREAD", "INLINE_FRAGMENT",
    "VARIABLE_DEFINITION", "SCHEMA", "SCALAR", "OBJECT", "FIELD_DEFINITION", "ARGUMENT_DEFINITION", "INTERFACE",
    "UNION", "ENUM", "ENUM_VALUE", "INPUT_OBJECT", "INPUT_FIELD_DEFINITION",
]
INTS = ["0", "1", "-1", "42", "-0", "123456789012345678901"]
FLOATS = ["1.0", "-0.5", "1e3", "1.5E-2", "0.0", "2e+1"]
STRINGS = ['""', '"a"', '"on"', '"implements"', '"a b"', '"\\n\\t\\"q\\""', '"\\u00e9\\u0041"', '"é中"',
           '"\\ud83d"', '"\U0001F600"', '"#no,comment"', '"type"',
           # UTF-16 escapes: a surrogate PAIR (one astral character), lone high, lone low, high + non-low, reversed
           '"\\uD83D\\uDE00"', '"a\\ud83d\\ude00b"', '"\\uDE00"', '"\\uD83D\\u0041"', '"\\uDE00\\uD83D"',
           '"\\uD83D\\uD83D\\uDE00"']
BLOCKS = ['""""""', '"""a"""', '"""\n  a\n   b\n  """', '"""on"""', '"""q \\""" r"""', '"""é"""', '""" x """']


def T(cls, lexeme=None):
    return (cls, PUNCT[cls] if lexeme is None else lexeme)


def N(s):
    return ("Name", s)


class Gen:
    def __init__(self, rng, fragment_variables=False, max_depth=3, keywordish=0.25):
        self.rng = rng
        self.fragment_variables = fragment_variables
        self.max_depth = max_depth
        self.keywordish = keywordish
        self._open = False

    # -- helpers ------------------------------------------------------------------------------
    def chance(self, p):
        return self.rng.random() < p

    def count(self, lo, hi):
        return self.rng.randint(lo, hi)

    def name(self, exclude=()):
        while True:
            pool = KEYWORDISH if self.chance(self.keywordish) else PLAIN_NAMES
            n = self.rng.choice(pool)
            if n not in exclude:
                return N(n)

    def string(self):
        if self.chance(0.35):
            return ("BlockString", self.rng.choice(BLOCKS))
        return ("String", self.rng.choice(STRINGS))

    def description(self, p=0.3):
        return [self.string()] if self.chance(p) else []

    # -- types and values ---------------------------------------------------------------------
    def type_ref(self, depth=0):
        if depth < 3 and self.chance(0.3):
            out = [T("BracketOpen")] + self.type_ref(depth + 1) + [T("BracketClose")]
        else:
            out = [self.name()]
        if self.chance(0.3):
            out.append(T("ExclamationMark"))
        return out

    def value(self, const=False, depth=0):
        if const and getattr(self, "_violate", False) and self._violated == 0 and self.chance(0.25):
            self._violated = 1
            var = [T("Dollar"), self.name()]
            k = self.rng.randrange(3)
            if k == 0:
                return var
            if k == 1:
                return [T("BracketOpen")] + var + [T("BracketClose")]
            return [T("CurlyOpen"), self.name(), T("Colon")] + var + [T("CurlyClose")]
        r = self.rng.random()
        if depth < self.max_depth and r < 0.15:
            out = [T("BracketOpen")]
            for _ in range(self.count(0, 3)):
                out += self.value(const, depth + 1)
            return out + [T("BracketClose")]
        if depth < self.max_depth and r < 0.3:
            out = [T("CurlyOpen")]
            for _ in range(self.count(0, 3)):
                out += [self.name(), T("Colon")] + self.value(const, depth + 1)
            return out + [T("CurlyClose")]
        if r < 0.45 and not const:
            return [T("Dollar"), self.name()]
        k = self.rng.randrange(6)
        if k == 0:
            return [("Integer", self.rng.choice(INTS))]
        if k == 1:
            return [("Float", self.rng.choice(FLOATS))]
        if k == 2:
            return [self.string()]
        if k == 3:
            return [N(self.rng.choice(["true", "false", "null"]))]
        return [self.name(exclude=("true", "false", "null"))]      # enum value

    def arguments(self, const=False, p=0.4):
        if not self.chance(p):
            return []
        out = [T("ParenOpen")]
        for _ in range(self.count(1, 3)):
            out += [self.name(), T("Colon")] + self.value(const)
        return out + [T("ParenClose")]

    def directives(self, const=False, p=0.3):
        out = []
        if self.chance(p):
            for _ in range(self.count(1, 2)):
                out += [T("At"), self.name()] + self.arguments(const, 0.4)
        return out

    # -- executable definitions -----------------------------------------------------------------
    def variable_definitions(self, p=0.4):
        if not self.chance(p):
            return []
        out = [T("ParenOpen")]
        for _ in range(self.count(1, 3)):
            out += [T("Dollar"), self.name(), T("Colon")] + self.type_ref()
            if self.chance(0.4):
                out += [T("Equals")] + self.value(True)
            out += self.directives(True, 0.25)
        return out + [T("ParenClose")]

    def selection_set(self, depth=0):
        out = [T("CurlyOpen")]
        for _ in range(self.count(1, 3)):
            out += self.selection(depth)
        return out + [T("CurlyClose")]

    def selection(self, depth):
        r = self.rng.random()
        deeper = depth < self.max_depth
        if r < 0.15:
            return [T("Ellip"), self.name(exclude=("on",))] + self.directives()
        if r < 0.3 and deeper:
            out = [T("Ellip")]
            if self.chance(0.6):
                out += [N("on"), self.name()]
            return out + self.directives() + self.selection_set(depth + 1)
        out = []
        if self.chance(0.25):
            out += [self.name(), T("Colon")]
        out += [self.name()] + self.arguments() + self.directives()
        if deeper and self.chance(0.35):
            out += self.selection_set(depth + 1)
        return out

    def operation(self):
        if self.chance(0.3):
            return self.selection_set()
        out = [N(self.rng.choice(["query", "mutation", "subscription"]))]
        if self.chance(0.6):
            out.append(self.name())
        return out + self.variable_definitions() + self.directives() + self.selection_set()

    def fragment_definition(self):
        out = [N("fragment"), self.name(exclude=("on",))]
        if self.fragment_variables:
            out += self.variable_definitions(0.5)
        return out + [N("on"), self.name()] + self.directives() + self.selection_set()

    # -- type system ----------------------------------------------------------------------------
    def operation_types(self):
        out = [T("CurlyOpen")]
        for _ in range(self.count(1, 3)):
            out += [N(self.rng.choice(["query", "mutation", "subscription"])), T("Colon"), self.name()]
        return out + [T("CurlyClose")]

    def implements(self, p=0.4):
        if not self.chance(p):
            return []
        out = [N("implements")]
        if self.chance(0.3):
            out.append(T("Ampersand"))
        out.append(self.name())
        for _ in range(self.count(0, 2)):
            out += [T("Ampersand"), self.name()]
        return out

    def input_value(self):
        out = self.description(0.2) + [self.name(), T("Colon")] + self.type_ref()
        if self.chance(0.35):
            out += [T("Equals")] + self.value(True)
        return out + self.directives(True, 0.2)

    def argument_defs(self, p=0.35):
        if not self.chance(p):
            return []
        out = [T("ParenOpen")]
        for _ in range(self.count(1, 3)):
            out += self.input_value()
        return out + [T("ParenClose")]

    def fields_def(self, p=0.75):
        if not self.chance(p):
            return []
        out = [T("CurlyOpen")]
        for _ in range(self.count(1, 3)):
            out += self.description(0.2) + [self.name()] + self.argument_defs() + [T("Colon")] + self.type_ref()
            out += self.directives(True, 0.2)
        return out + [T("CurlyClose")]

    def input_fields_def(self, p=0.75):
        if not self.chance(p):
            return []
        out = [T("CurlyOpen")]
        for _ in range(self.count(1, 3)):
            out += self.input_value()
        return out + [T("CurlyClose")]

    def enum_values_def(self, p=0.75):
        if not self.chance(p):
            return []
        out = [T("CurlyOpen")]
        for _ in range(self.count(1, 3)):
            out += self.description(0.2) + [self.name(exclude=("true", "false", "null"))] + self.directives(True, 0.2)
        return out + [T("CurlyClose")]

    def union_members(self, p=0.75):
        if not self.chance(p):
            return []
        out = [T("Equals")]
        if self.chance(0.3):
            out.append(T("Pipe"))
        out.append(self.name())
        for _ in range(self.count(0, 2)):
            out += [T("Pipe"), self.name()]
        return out

    def block(self, b):
        """a trailing optional `{...}` block: when absent the definition must not be followed by `{`"""
        self._open = not b
        return b

    def type_system_definition(self):
        k = self.rng.randrange(8)
        if k == 0:
            return [N("schema")] + self.directives(True) + self.operation_types()
        d = self.description()
        if k == 1:
            return d + [N("scalar"), self.name()] + self.directives(True)
        if k == 2:
            return d + [N("type"), self.name()] + self.implements() + self.directives(True) + self.block(self.fields_def())
        if k == 3:
            return d + [N("interface"), self.name()] + self.directives(True) + self.block(self.fields_def())
        if k == 4:
            return d + [N("union"), self.name()] + self.directives(True) + self.union_members()
        if k == 5:
            return d + [N("enum"), self.name()] + self.directives(True) + self.block(self.enum_values_def())
        if k == 6:
            return d + [N("input"), self.name()] + self.directives(True) + self.block(self.input_fields_def())
        out = d + [N("directive"), T("At"), self.name()] + self.argument_defs() + [N("on")]
        if self.chance(0.3):
            out.append(T("Pipe"))
        out.append(N(self.rng.choice(DIRECTIVE_LOCATIONS)))
        for _ in range(self.count(0, 2)):
            out += [T("Pipe"), N(self.rng.choice(DIRECTIVE_LOCATIONS))]
        return out

    def type_system_extension(self):
        """an extension always has at least one of its optional parts"""
        k = self.rng.randrange(7)
        head = [N("extend")]
        while True:
            if k == 0:
                parts = [self.directives(True, 0.5), self.operation_types() if self.chance(0.6) else []]
                kw = [N("schema")]
            elif k == 1:
                parts = [self.directives(True, 1.0)]
                kw = [N("scalar"), self.name()]
            elif k == 2:
                parts = [self.implements(0.5), self.directives(True, 0.4), self.fields_def(0.5)]
                kw = [N("type"), self.name()]
            elif k == 3:
                parts = [self.directives(True, 0.4), self.fields_def(0.6)]
                kw = [N("interface"), self.name()]
            elif k == 4:
                parts = [self.directives(True, 0.4), self.union_members(0.6)]
                kw = [N("union"), self.name()]
            elif k == 5:
                parts = [self.directives(True, 0.4), self.enum_values_def(0.6)]
                kw = [N("enum"), self.name()]
            else:
                parts = [self.directives(True, 0.4), self.input_fields_def(0.6)]
                kw = [N("input"), self.name()]
            if any(parts):
                self._open = k not in (1, 4) and not parts[-1]
                return head + kw + [t for p in parts for t in p]

    def document(self, size, executable=True, type_system=False):
        """`size` definitions; respects the `{` look-ahead restriction between definitions"""
        kinds = (["op", "frag"] if executable else []) + (["ts", "ts", "ext"] if type_system else [])
        out = []
        prev_open = False
        for _ in range(max(1, size)):
            while True:
                self._open = False
                k = self.rng.choice(kinds)
                d = {"op": self.operation, "frag": self.fragment_definition, "ts": self.type_system_definition,
                     "ext": self.type_system_extension}[k]()
                if prev_open and d[0][0] == "CurlyOpen":
                    continue
                break
            out += d
            prev_open = self._open
        return out


# ---------------------------------------------------------------------------------------------
# public API

def gen_document(rng, size=4, executable=True, type_system=False, fragment_variables=False, max_depth=3,
                 keywordish=0.25):
    return Gen(rng, fragment_variables, max_depth, keywordish).document(size, executable, type_system)


def gen_value(rng, const=False, max_depth=3):
    return Gen(rng, max_depth=max_depth).value(const)


def gen_type(rng):
    return Gen(rng).type_ref()


# ---------------------------------------------------------------------------------------------
# `Const` positions: mutants that put a VARIABLE where the grammar demands Value[Const]
# (default values; arguments of directives on variable definitions; arguments of every type-system directive).
# Every mutant is OUTSIDE the grammar: a parser must reject it.

CONST_VARIANTS = ["$v", "[$v]", "{k: $v}", "[1, {k: [2, $v]}]", "{a: {b: $v}}"]

# (label, template with one %s at the constant value, needs allow_type_system)
CONST_TEMPLATES = [
    ("variable-default", "query ($a: Int = %s) { f }", False),
    ("variable-directive", "query ($a: Int @d(x: %s)) { f }", False),
    ("variable-default+directive", "query Q($a: [Int] = [1] @d(x: %s) @e, $b: T) @x(y: $a) { f }", False),
    ("fragment-variable-directive", "fragment F($a: Int = 1 @d(x: %s)) on T { f }", False),
    ("fragment-variable-default", "fragment F($a: Int = %s) on T { f }", False),
    ("schema-directive", "schema @d(x: %s) { query: Q }", True),
    ("scalar-directive", "scalar S @d(x: %s)", True),
    ("object-directive", "type T implements I @d(x: %s) { f: Int }", True),
    ("field-definition-directive", "type T { f(a: Int): Int @d(x: %s) }", True),
    ("argument-default", "type T { f(a: Int = %s): Int }", True),
    ("argument-directive", "type T { f(a: Int = 1 @d(x: %s)): Int }", True),
    ("interface-directive", "interface I @d(x: %s) { f: Int }", True),
    ("union-directive", "union U @d(x: %s) = A | B", True),
    ("enum-directive", "enum E @d(x: %s) { A }", True),
    ("enum-value-directive", "enum E { A @d(x: %s) B }", True),
    ("input-directive", "input I @d(x: %s) { a: Int }", True),
    ("input-field-default", "input I { a: Int = %s }", True),
    ("input-field-directive", "input I { a: Int @d(x: %s) }", True),
    ("directive-definition-argument-default", "directive @d(a: Int = %s) on FIELD", True),
    ("directive-definition-argument-directive", "directive @d(a: Int @e(x: %s)) on FIELD", True),
    ("extend-schema-directive", "extend schema @d(x: %s)", True),
    ("extend-scalar-directive", "extend scalar S @d(x: %s)", True),
    ("extend-object-directive", "extend type T @d(x: %s)", True),
    ("extend-interface-directive", "extend interface I @d(x: %s) { f: Int }", True),
    ("extend-union-directive", "extend union U @d(x: %s) = A", True),
    ("extend-enum-directive", "extend enum E @d(x: %s)", True),
    ("extend-input-directive", "extend input I @d(x: %s) { a: Int = %s }", True),
]


def const_variable_mutants():
    """[(label, variant, text, needs_type_system, control_text)]: `text` has a variable in a Const position (must be
    rejected); `control_text` is the same text with a constant (derives from the grammar when the flags allow it)"""
    out = []
    for label, tpl, ts in CONST_TEMPLATES:
        n = tpl.count("%s")
        control = tpl % (("1",) * n)
        for v in CONST_VARIANTS:
            out.append((label, v, tpl % ((v,) + ("1",) * (n - 1)), ts, control))
            if n > 1:
                out.append((label, v, tpl % (("1",) * (n - 1) + (v,)), ts, control))
    return out


def gen_const_violation(rng, type_system=True, fragment_variables=False, size=3, tries=50):
    """a generated document (token list) in which ONE constant value was replaced by a variable / a list or object
    containing one — outside the grammar; None if the generator produced no constant position"""
    for _ in range(tries):
        g = Gen(rng, fragment_variables, max_depth=2)
        g._violate = True
        g._violated = 0
        toks = g.document(size, executable=True, type_system=type_system)
        if g._violated == 1:
            return toks
    return None


IGNORED_RUNS = [" ", " ", "\n", ",", "\t", "  ", " ,\n", "\r\n", " # c, {\n", "﻿", "#\n", " \r"]


def _may_touch(a, b):
    """can tokens a, b be adjacent without any ignored character between them?"""
    if a[0] in PUNCT:
        return True
    return b[0] in PUNCT and b[0] != "Ellip"


def render(toks, rng=None, glue=0.3):
    """source text of a token list; with `rng`: random ignored runs (and none at all where that is safe)"""
    out = []
    prev = None
    for t in toks:
        if prev is not None:
            if rng is None:
                out.append(" ")
            elif _may_touch(prev, t) and rng.random() < glue:
                pass
            else:
                out.append(rng.choice(IGNORED_RUNS))
        elif rng is not None and rng.random() < 0.2:
            out.append(rng.choice(IGNORED_RUNS))
        out.append(t[1])
        prev = t
    if rng is not None and rng.random() < 0.3:
        out.append(rng.choice(IGNORED_RUNS))
    return "".join(out)


def tokens_of_text(text):
    """[(cls, lexeme)] of a source text through the real lexer (raises GraphQLSyntaxError)"""
    from py_gql.lang.lexer import Lexer
    out = []
    for t in Lexer(text):
        c = type(t).__name__
        if c in ("SOF", "EOF"):
            continue
        out.append((c, text[t.start:t.end]))
    return out

# -*- coding: utf-8 -*-
"""
Seeded generator of TYPE-SYSTEM DOCUMENTS (C11/C12).

A document is made from a *declared content* `D` (a description as produced by
`gen/schema.py: gen_schema`, literal defaults as GraphQL text) by

  * splitting the members of every type arbitrarily over one definition and
    0..3 `extend` blocks (relative order of the members of one target kept),
  * choosing between default root names and a `schema { … }` block (+ `extend schema`),
  * decorating with applications of the custom directives declared in `D`,
  * permuting the definitions (extensions of one target keep their relative order).

`expected_dump(D)` is the content the built schema must have (format of
`canon_schema.dump_schema(..., sort=True)`): it is known BY CONSTRUCTION, the
only computed part being the reference coercion of default literals
(`ref_coerce`, the GraphQL spec's literal coercion for constants).

Items (the small SDL-definition AST, also the wire format sent to the Lean model;
`doc_json` produces the same format from a document parsed by the real parser):

  {"k": "type"|"ext", "kind", "name", "desc", "interfaces", "fields", "members", "values", "input_fields", "dirs"}
  {"k": "directive", "name", "desc", "args", "locations"}
  {"k": "schema"|"schema_ext", "ops": [{"op", "type"}], "dirs"}
  {"k": "other"}
"""
import copy
import json

from gen import schema as gs

KINDS = ("scalar", "object", "interface", "union", "enum", "input")


# ---------------------------------------------------------------------------
# literals: text -> small AST (through the real value parser) and reference coercion
# ---------------------------------------------------------------------------

def lit_of_node(node):
    from py_gql.lang import ast as _ast
    if isinstance(node, _ast.NullValue):
        return {"k": "null"}
    if isinstance(node, _ast.IntValue):
        return {"k": "int", "v": node.value, "f": _frepr(node.value)}
    if isinstance(node, _ast.FloatValue):
        return {"k": "float", "v": node.value, "f": _frepr(node.value)}
    if isinstance(node, _ast.StringValue):
        return {"k": "str", "v": node.value}
    if isinstance(node, _ast.BooleanValue):
        return {"k": "bool", "v": bool(node.value)}
    if isinstance(node, _ast.EnumValue):
        return {"k": "enum", "v": node.value}
    if isinstance(node, _ast.ListValue):
        return {"k": "list", "vs": [lit_of_node(v) for v in node.values]}
    if isinstance(node, _ast.ObjectValue):
        return {"k": "obj", "fs": [{"name": f.name.value, "value": lit_of_node(f.value)} for f in node.fields]}
    if isinstance(node, _ast.Variable):
        return {"k": "var", "v": node.name.value}
    raise TypeError(type(node))


def _frepr(text):
    """repr(float(text)) — Python's float()/repr are part of the trusted base (modelled, not verified)."""
    try:
        return repr(float(text))
    except (ValueError, OverflowError):
        return "?"


def parse_lit(text):
    from py_gql.lang import parse_value
    return lit_of_node(parse_value(text))


class Invalid(Exception):
    pass


def untyped(lit):
    k = lit["k"]
    if k == "null":
        return None
    if k == "list":
        return [untyped(v) for v in lit["vs"]]
    if k == "obj":
        return dict(sorted((f["name"], untyped(f["value"])) for f in lit["fs"]))
    return lit["v"]


def ref_coerce(lit, ty, D, depth=0):
    """The spec's coercion of a constant literal to `ty` over the declared content `D`
    (result in `canon_schema.canon_value` form). Raises Invalid (also for cyclic default dependencies)."""
    if depth > 24:
        raise Invalid("cyclic default values")
    if ty[0] == "nonNull":
        if lit["k"] == "null":
            raise Invalid("null for non-null")
        return ref_coerce(lit, ty[1], D, depth)
    if lit["k"] == "null":
        return None
    if ty[0] == "list":
        if lit["k"] != "list":
            return [ref_coerce(lit, ty[1], D, depth)]
        return [ref_coerce(v, ty[1], D, depth) for v in lit["vs"]]
    name = ty[1]
    k = lit["k"]
    if name == "Int":
        if k != "int":
            raise Invalid("Int")
        n = int(lit["v"])
        if not (-2 ** 31 <= n < 2 ** 31):
            raise Invalid("Int range")
        return n
    if name == "Float":
        if k not in ("int", "float"):
            raise Invalid("Float")
        r = repr(float(lit["v"]))
        if r in ("inf", "-inf", "nan"):
            raise Invalid("Float not finite")
        return {"$float": r}
    if name == "String":
        if k != "str":
            raise Invalid("String")
        return lit["v"]
    if name == "Boolean":
        if k != "bool":
            raise Invalid("Boolean")
        return lit["v"]
    if name == "ID":
        if k not in ("str", "int"):
            raise Invalid("ID")
        return lit["v"]
    td = gs.desc_type(D, name)
    if td is None:
        raise Invalid("unknown type " + name)
    if td["kind"] == "scalar":
        # `default_scalar`: the transparent conversion of the literal (fix C11-1): raw value of scalar literals (source
        # text for numbers), name of enum literals, lists / dicts for list / object literals
        return untyped(lit)
    if td["kind"] == "enum":
        if k != "enum" or lit["v"] not in [v["name"] for v in td["values"]]:
            raise Invalid("enum")
        return [v.get("value", v["name"]) for v in td["values"] if v["name"] == lit["v"]][0]
    if td["kind"] == "input":
        if k != "obj":
            raise Invalid("object expected")
        given = {}
        for f in lit["fs"]:
            given[f["name"]] = f["value"]      # last one wins (dict)
        if any(n not in [f["name"] for f in td["fields"]] for n in given):
            raise Invalid("undefined field")
        out = {}
        for f in td["fields"]:
            if f["name"] in given:
                out[f["name"]] = ref_coerce(given[f["name"]], f["type"], D, depth + 1)
            elif f.get("default") is not None:
                out[f["name"]] = ref_coerce(_lit(f["default"]), f["type"], D, depth + 1)
            elif f["type"][0] == "nonNull":
                raise Invalid("missing " + f["name"])
        return dict(sorted(out.items()))
    raise Invalid("not an input type")


# ---------------------------------------------------------------------------
# declared content -> expected dump
# ---------------------------------------------------------------------------

def _lit(x):
    return parse_lit(x) if isinstance(x, str) else x


def _arg_dump(a, D):
    has = a.get("default") is not None
    return {"name": a["name"], "type": gs.ty_json(a["type"]), "has_default": has,
            "default_value": ref_coerce(_lit(a["default"]), a["type"], D) if has else None,
            "desc": a.get("desc")}


def _field_dump(f, D):
    return {"name": f["name"], "type": gs.ty_json(f["type"]), "args": [_arg_dump(a, D) for a in f.get("args") or []],
            "deprecated": f.get("deprecated"), "desc": f.get("desc")}


def expected_dump(D, env=None):
    """Dump of the declared content `D`; default literals are coerced over `env` (default: D itself)."""
    content, D = D, (env or D)
    types = []
    for t in content["types"]:
        d = {"kind": t["kind"], "name": t["name"], "desc": t.get("desc"), "interfaces": [], "fields": [], "members": [],
             "values": [], "input_fields": []}
        if t["kind"] == "object":
            d["interfaces"] = list(t.get("interfaces") or [])
        if t["kind"] in ("object", "interface"):
            d["fields"] = [_field_dump(f, D) for f in t["fields"]]
        if t["kind"] == "union":
            d["members"] = list(t["members"])
        if t["kind"] == "enum":
            d["values"] = [{"name": v["name"], "value": v.get("value", v["name"]), "deprecated": v.get("deprecated"), "desc": v.get("desc")}
                           for v in t["values"]]
        if t["kind"] == "input":
            d["input_fields"] = [_arg_dump(f, D) for f in t["fields"]]
        types.append(d)
    dirs = [{"name": d["name"], "locations": list(d["locations"]), "args": [_arg_dump(a, D) for a in d.get("args") or []],
             "desc": d.get("desc")} for d in content["directives"]]
    types.sort(key=lambda t: t["name"])
    dirs.sort(key=lambda t: t["name"])
    return {"types": types, "directives": dirs, "query": content.get("query"), "mutation": content.get("mutation"),
            "subscription": content.get("subscription")}


# ---------------------------------------------------------------------------
# items -> declared content (the SPECIFICATION `Declared doc` of Spec/SdlSpec.lean, in Python):
# fold definitions and extensions in document order
# ---------------------------------------------------------------------------

def ty_of_json(j):
    return ("named", j["n"]) if j["k"] == "named" else (j["k"], ty_of_json(j["t"]))


def _reason(dirs):
    for d in dirs or []:
        if d["name"] == "deprecated":
            for a in d["args"]:
                if a["name"] == "reason":
                    return a["value"]["v"] if a["value"]["k"] == "str" else None
            return "No longer supported"
    return None


def _c_arg(a):
    return {"name": a["name"], "type": ty_of_json(a["type"]), "default": a.get("default"), "desc": a.get("desc")}


def _c_field(f):
    return {"name": f["name"], "type": ty_of_json(f["type"]), "args": [_c_arg(a) for a in f["args"]],
            "deprecated": _reason(f.get("dirs")), "desc": f.get("desc")}


def declared(items, base_only=False):
    """Content declared by a (valid) document: definitions, then every extension merged into its target in
    document order. `base_only` ignores the extensions (= `ignore_extensions=True`)."""
    D = {"types": [], "directives": [], "query": None, "mutation": None, "subscription": None}
    by = {}
    for it in items:
        if it["k"] == "type":
            t = {"kind": it["kind"], "name": it["name"], "desc": it.get("desc"), "interfaces": [], "fields": [], "members": [], "values": []}
            by[it["name"]] = t
            D["types"].append(t)
        elif it["k"] == "directive":
            D["directives"].append({"name": it["name"], "locations": list(it["locations"]), "args": [_c_arg(a) for a in it["args"]],
                                    "desc": it.get("desc")})
    for it in [i for i in items if i["k"] == "type"] + [i for i in items if i["k"] == "ext"]:
        if it["k"] == "type" or (it["k"] == "ext" and not base_only and it["name"] in by):
            t = by[it["name"]]
            t["interfaces"] += it["interfaces"]
            if t["kind"] == "input":
                t["fields"] += [_c_arg(a) for a in it["input_fields"]]
            else:
                t["fields"] += [_c_field(f) for f in it["fields"]]
            t["members"] += it["members"]
            t["values"] += [{"name": v["name"], "deprecated": _reason(v.get("dirs")), "desc": v.get("desc")} for v in it["values"]]
    sd = [it for it in items if it["k"] == "schema"]
    if sd:
        for o in sd[0]["ops"]:
            D[o["op"]] = o["type"]
    else:
        for op, nm in (("query", "Query"), ("mutation", "Mutation"), ("subscription", "Subscription")):
            if nm in by and by[nm]["kind"] == "object":
                D[op] = nm
    if not base_only:
        for it in items:
            if it["k"] == "schema_ext":
                for o in it["ops"]:
                    D[o["op"]] = o["type"]
    return D


# ---------------------------------------------------------------------------
# D -> items
# ---------------------------------------------------------------------------

DESCS = [
    "plain", "About it.", "line one\nline two", "with \"quotes\" inside", "unicode é ✓", "a - b_c",
    "x" * 75, "two\n\nparagraphs", "  indented first line", "ends with quote\"", "triple \"\"\" inside",
    "back\\slash inside", "tab\tinside",
]


def rename_type(D, old, new):
    """Rename a type everywhere (definition, references, union members, interfaces, roots)."""
    if old == new or gs.desc_type(D, new) is not None or gs.desc_type(D, old) is None:
        return False

    def ren(t):
        return ("named", new if t[1] == old else t[1]) if t[0] == "named" else (t[0], ren(t[1]))

    def slots():
        for t in D["types"]:
            for f in t.get("fields") or []:
                yield f
                for a in f.get("args") or []:
                    yield a
        for d in D["directives"]:
            for a in d.get("args") or []:
                yield a
    for x in slots():
        x["type"] = ren(x["type"])
    for t in D["types"]:
        if t["name"] == old:
            t["name"] = new
        if t.get("members"):
            t["members"] = [new if m == old else m for m in t["members"]]
        if t.get("interfaces"):
            t["interfaces"] = [new if m == old else m for m in t["interfaces"]]
    for k in ("query", "mutation", "subscription"):
        if D.get(k) == old:
            D[k] = new
    return True


CASE_VARIANTS = {"query": ["query", "QUERY", "QuerY"], "mutation": ["mutation", "MUTATION", "mutatioN"],
                 "subscription": ["subscription", "SUBSCRIPTION", "subScription"]}
CONVENTIONAL = {"query": "Query", "mutation": "Mutation", "subscription": "Subscription"}
SCALAR_LOOKALIKES = ["string", "INT", "Id", "float", "boolean", "STRING", "iD"]
DIRECTIVE_LOOKALIKES = ["Deprecated", "SKIP", "Include", "DEPRECATED", "Skip"]


def case_variants(rng, D):
    """Names that differ from the conventional / specified ones ONLY by case (GraphQL names are case-sensitive):
    root types `query` / `MUTATION` / `subscription` (alone or next to a plain type with the conventional name),
    custom scalars `string` / `INT`, custom directives `Deprecated` / `SKIP`."""
    plain = {"name": "x0", "type": gs.named("Int"), "args": [], "deprecated": None, "desc": None}
    forced = False
    for op in ("query", "mutation", "subscription"):
        cur = D.get(op)
        if cur is None or rng.random() < 0.4:
            continue
        if rename_type(D, cur, rng.choice(CASE_VARIANTS[op])):
            forced = True
    if forced:
        for op in ("query", "mutation", "subscription"):
            # a plain (non-root) type carrying the conventional name, next to the case variant
            if D.get(op) is not None and D[op] != CONVENTIONAL[op] and gs.desc_type(D, CONVENTIONAL[op]) is None and rng.random() < 0.5:
                D["types"].append({"kind": "object", "name": CONVENTIONAL[op], "interfaces": [], "desc": None, "fields": [copy.deepcopy(plain)]})
    for t in [t for t in D["types"] if t["kind"] == "scalar"]:
        if rng.random() < 0.6:
            rename_type(D, t["name"], rng.choice(SCALAR_LOOKALIKES))
    for d in D["directives"]:
        if rng.random() < 0.5:
            nm = rng.choice(DIRECTIVE_LOOKALIKES)
            if nm not in [x["name"] for x in D["directives"]]:
                d["name"] = nm
    return D


def shadow_roots(rng, D):
    """Finding H9: a type NAMED Query / Mutation / Subscription that is NOT the corresponding root (the root is absent,
    or is another type). Without a `schema` block such a document would be read with that type as the root."""
    plain = {"name": "x0", "type": gs.named("Int"), "args": [], "deprecated": None, "desc": None}
    for op in ("mutation", "subscription", "query"):
        conv = CONVENTIONAL[op]
        if D.get(op) == conv or gs.desc_type(D, conv) is not None or rng.random() < 0.4:
            continue
        if op == "query" and D.get("query") is None:
            continue
        kind = rng.choice(["object", "object", "scalar", "enum"])
        t = {"kind": kind, "name": conv, "desc": None}
        if kind == "object":
            t.update(interfaces=[], fields=[copy.deepcopy(plain)])
        if kind == "enum":
            t.update(values=[{"name": "ONLY", "deprecated": None, "desc": None}])
        D["types"].append(t)
    return D


# strings with astral / non-BMP characters, combining marks, RTL text and marks, quotes, backslashes, line breaks and
# control characters (deprecation reasons, String defaults)
EXOTIC = [
    "vieux \u00e9 \u2713", "say \"no\"", "astral \U0001F600 x", "tab\tand\\slash", "family \U0001F468\u200d\U0001F469\u200d\U0001F467",
    "combining e\u0301 a\u030a", "rtl \u05e9\u05dc\u05d5\u05dd \u200f!", "arabic \u0645\u0631\u062d\u0628\u0627", "line\nbreak", "cr\rlf\r\n",
    "bell \u0007 unit \u001f", "nbsp\u00a0end", "ls \u2028 ps \u2029", "bmp edge \uffff \ud7ff", "math \U0001D54F", "triple \"\"\" quotes",
    "ends with backslash \\", "\u0000 nul",
]
# descriptions go through block strings: no control characters, no trailing backslash (finding H5)
EXOTIC_DESCS = ["astral \U0001F600 x", "combining e\u0301 a\u030a", "rtl \u05e9\u05dc\u05d5\u05dd \u200f!", "math \U0001D54F and \"quotes\"",
                "nbsp\u00a0inside", "family \U0001F468\u200d\U0001F469"]
# ID values that look numeric under Unicode / lenient rules but are not GraphQL integer literals
ID_LOOKALIKES = ["1\u0662\u0663", "4\uff12", "\u0663", "007", "+5", "-0", "-012", "1e3", "1_000", " 42", "42 ", "4 2", "0x1F", "1.0",
                 "123456789012345678901234567890", "-", "", "\u0967\u0968", "42", "-7", "0"]


CUSTOM_SCALAR_DEFAULTS = ['{a: 1, b: [true, "x", null, FOO], c: {}}', "[]", '[1, "two", [3.5]]', "FOO", '"plain"', "true", "12", "1.5",
                          "{nested: {k: [1]}}", "{}", "null", '"007"', '"42.42"']


def decorate(rng, D, rich=True):
    """In-place variations of the declared content: root names, subscription, richer descriptions."""
    D = copy.deepcopy(D)
    objs = [t for t in D["types"] if t["kind"] == "object"]
    if rng.random() < 0.3:
        # rename the query root => needs a schema block
        q = gs.desc_type(D, "Query")
        q["name"] = "RootQ"
        D["query"] = "RootQ"
    if rng.random() < 0.2 and D.get("subscription") is None:
        nm = rng.choice(["Subscription", "Sub"])
        D["types"].append({"kind": "object", "name": nm, "interfaces": [], "desc": None,
                           "fields": [{"name": "s0", "type": gs.named("Int"), "args": [], "deprecated": None, "desc": None}]})
        D["subscription"] = nm
    if rng.random() < 0.15 and D.get("mutation") is None and objs:
        # an arbitrary object type as the mutation root (through the schema block)
        o = rng.choice([t for t in objs if t["name"] not in ("Query", "RootQ")] or objs)
        if o["name"] not in (D["query"], D.get("subscription")):
            D["mutation"] = o["name"]
    if rng.random() < 0.2:
        case_variants(rng, D)
    if rng.random() < 0.25:
        shadow_roots(rng, D)
    if rich:
        def walk():
            for t in D["types"]:
                yield t
                for f in (t.get("fields") or []):
                    yield f
                    for a in (f.get("args") or []):
                        yield a
                for v in (t.get("values") or []):
                    yield v
            for d in D["directives"]:
                yield d
                for a in d.get("args") or []:
                    yield a
        for x in walk():
            if x.get("desc") is not None and rng.random() < 0.5:
                x["desc"] = rng.choice(DESCS)
            if x.get("deprecated") not in (None, "No longer supported") and rng.random() < 0.5:
                x["deprecated"] = rng.choice(EXOTIC)
            if isinstance(x.get("default"), str) and x["default"].startswith('"') and "type" in x:
                base = gs.ty_base(x["type"])
                if base == "String" and x["type"][0] != "list" and rng.random() < 0.4:
                    x["default"] = json.dumps(rng.choice(EXOTIC), ensure_ascii=False)
                if base == "ID" and x["type"][0] != "list" and rng.random() < 0.6:
                    x["default"] = json.dumps(rng.choice(ID_LOOKALIKES), ensure_ascii=False)
            if x.get("desc") is not None and rng.random() < 0.15:
                x["desc"] = rng.choice(EXOTIC_DESCS)
            if "type" in x and "default" in x and x["type"][0] == "named" and rng.random() < 0.5:
                td = gs.desc_type(D, x["type"][1])
                if td is not None and td["kind"] == "scalar":
                    # JSON-like defaults of custom scalars: every kind of literal (finding C11/1)
                    x["default"] = rng.choice(CUSTOM_SCALAR_DEFAULTS)
    return D


P_DIRS = [0.12]


def _dirs(rng, D, loc):
    """Applications of custom directives declared in D (not part of the dumped content)."""
    out = []
    for d in D["directives"]:
        if rng.random() < P_DIRS[0]:
            args = []
            for a in d.get("args") or []:
                if a.get("default") is not None and rng.random() < 0.5:
                    args.append({"name": a["name"], "value": parse_lit(a["default"])})
            out.append({"name": d["name"], "args": args})
    return out


def _depr_dir(reason):
    if reason is None:
        return []
    if reason == "No longer supported":
        return [{"name": "deprecated", "args": []}]
    return [{"name": "deprecated", "args": [{"name": "reason", "value": {"k": "str", "v": reason}}]}]


def _iv(rng, D, a):
    return {"name": a["name"], "desc": a.get("desc"), "type": gs.ty_json(a["type"]),
            "default": parse_lit(a["default"]) if a.get("default") is not None else None,
            "dirs": _dirs(rng, D, "ARGUMENT_DEFINITION")}


def _fd(rng, D, f):
    return {"name": f["name"], "desc": f.get("desc"), "args": [_iv(rng, D, a) for a in f.get("args") or []],
            "type": gs.ty_json(f["type"]), "dirs": _depr_dir(f.get("deprecated")) + _dirs(rng, D, "FIELD_DEFINITION")}


def _split(rng, seq, nblocks):
    """Split `seq` into `nblocks` consecutive (possibly empty) chunks."""
    cuts = sorted(rng.randint(0, len(seq)) for _ in range(nblocks - 1))
    out, prev = [], 0
    for c in cuts + [len(seq)]:
        out.append(seq[prev:c])
        prev = c
    return out


def items_of(rng, D, p_ext=0.45, s8_safe=True, p_dirs=None):
    if p_dirs is not None:
        saved, P_DIRS[0] = P_DIRS[0], p_dirs
        try:
            return items_of(rng, D, p_ext, s8_safe)
        finally:
            P_DIRS[0] = saved
    return _items_of(rng, D, p_ext, s8_safe)


def _items_of(rng, D, p_ext=0.45, s8_safe=True):
    """Definitions + extensions declaring exactly D. With `s8_safe`, members that default literals may
    depend on (enum values, input fields) stay in the base definition (finding S8)."""
    items = []
    for d in D["directives"]:
        items.append({"k": "directive", "name": d["name"], "desc": d.get("desc"), "locations": list(d["locations"]),
                      "args": [_iv(rng, D, a) for a in d.get("args") or []]})
    for t in D["types"]:
        k = t["kind"]
        nb = 1 + (rng.randint(1, 3) if rng.random() < p_ext else 0)
        base = {"kind": k, "name": t["name"], "interfaces": [], "fields": [], "members": [], "values": [], "input_fields": []}
        blocks = [dict(copy.deepcopy(base), k="type" if i == 0 else "ext", desc=t.get("desc") if i == 0 else None,
                       dirs=_dirs(rng, D, k)) for i in range(nb)]
        safe = s8_safe and k in ("enum", "input")

        def spread(key, vals):
            chunks = [vals] + [[] for _ in range(nb - 1)] if safe else _split(rng, vals, nb)
            for b, c in zip(blocks, chunks):
                b[key] = c
        if k == "object":
            spread("interfaces", list(t.get("interfaces") or []))
        if k in ("object", "interface"):
            spread("fields", [_fd(rng, D, f) for f in t["fields"]])
        if k == "union":
            spread("members", list(t["members"]))
        if k == "enum":
            spread("values", [{"name": v["name"], "desc": v.get("desc"),
                               "dirs": _depr_dir(v.get("deprecated")) + _dirs(rng, D, "ENUM_VALUE")} for v in t["values"]])
        if k == "input":
            spread("input_fields", [_iv(rng, D, f) for f in t["fields"]])
        # an extension must extend something: drop empty extension blocks without directives
        blocks = [b for i, b in enumerate(blocks) if i == 0 or b["dirs"] or any(b[x] for x in ("interfaces", "fields", "members", "values", "input_fields"))]
        items += blocks
    # schema definition
    q, m, s = D.get("query"), D.get("mutation"), D.get("subscription")
    need = q != "Query" or m not in (None, "Mutation") or s not in (None, "Subscription")
    # an ABSENT root shadowed by a type with the conventional name: only the schema block says it is not a root
    need = need or any(r is None and gs.desc_type(D, c) is not None for r, c in ((q, "Query"), (m, "Mutation"), (s, "Subscription")))
    if need or rng.random() < 0.25:
        ops = [("query", q), ("mutation", m), ("subscription", s)]
        ops = [{"op": o, "type": n} for o, n in ops if n]
        rng.shuffle(ops)
        in_ext = []
        if len(ops) > 1 and rng.random() < 0.4:
            # move one non-query operation to an `extend schema`
            idx = [i for i, o in enumerate(ops) if o["op"] != "query"]
            in_ext = [ops.pop(rng.choice(idx))]
        items.append({"k": "schema", "ops": ops, "dirs": _dirs(rng, D, "SCHEMA")})
        if in_ext:
            items.append({"k": "schema_ext", "ops": in_ext, "dirs": []})
    return items


def items_of_content(D):
    """Definitions declaring exactly D, one definition per type, no extension, no directive applications
    (deterministic: the by-name content of an already built schema)."""
    import random
    return items_of(random.Random(0), D, p_ext=0.0, p_dirs=0.0)


def permute(rng, items):
    """A random permutation that keeps the relative order of the extensions of one target
    (and of schema extensions)."""
    idx = list(range(len(items)))
    rng.shuffle(idx)
    return reorder(items, idx)


def reorder(items, idx):
    """Apply the permutation `idx`, then restore the relative order of same-target extension blocks."""
    out = [items[i] for i in idx]
    groups = {}
    for pos, it in enumerate(out):
        if it["k"] in ("ext", "schema_ext"):
            groups.setdefault((it["k"], it.get("name")), []).append(pos)
    for key, poss in groups.items():
        orig = [it for it in items if it["k"] == key[0] and it.get("name") == key[1]]
        for p, it in zip(poss, orig):
            out[p] = it
    return out


# ---------------------------------------------------------------------------
# items -> SDL text
# ---------------------------------------------------------------------------

def ty_str_j(t):
    return t["n"] if t["k"] == "named" else ("[%s]" % ty_str_j(t["t"]) if t["k"] == "list" else ty_str_j(t["t"]) + "!")


def lit_str(l):
    import json
    k = l["k"]
    if k == "null":
        return "null"
    if k in ("int", "float", "enum"):
        return l["v"]
    if k == "var":
        return "$" + l["v"]
    if k == "bool":
        return "true" if l["v"] else "false"
    if k == "str":
        return json.dumps(l["v"], ensure_ascii=False)
    if k == "list":
        return "[" + ", ".join(lit_str(v) for v in l["vs"]) + "]"
    return "{" + ", ".join("%s: %s" % (f["name"], lit_str(f["value"])) for f in l["fs"]) + "}"


def _desc_str(d, ind=""):
    """A description as a string literal denoting exactly `d` (quoted form unless it is a clean multi-line text)."""
    import json
    if d is None:
        return ""
    if "\n" in d and '"""' not in d and "\\" not in d and not d.startswith((" ", "\t", "\n")) and not d.endswith(("\n", '"', " ", "\t")) \
            and all(not l.startswith((" ", "\t")) and l.strip() == l for l in d.split("\n")):
        return ind + '"""\n' + "\n".join((ind + l) if l else "" for l in d.split("\n")) + "\n" + ind + '"""\n'
    return ind + json.dumps(d, ensure_ascii=False) + "\n"


def _dirs_str(dirs):
    out = ""
    for d in dirs or []:
        out += " @" + d["name"]
        if d["args"]:
            out += "(" + ", ".join("%s: %s" % (a["name"], lit_str(a["value"])) for a in d["args"]) + ")"
    return out


def _iv_str(a):
    return "%s: %s%s%s" % (a["name"], ty_str_j(a["type"]), (" = " + lit_str(a["default"])) if a.get("default") is not None else "",
                           _dirs_str(a.get("dirs")))


def _args_str(args):
    if not args:
        return ""
    if any(a.get("desc") is not None for a in args):
        return "(\n" + "\n".join(_desc_str(a.get("desc"), "    ") + "    " + _iv_str(a) for a in args) + "\n  )"
    return "(" + ", ".join(_iv_str(a) for a in args) + ")"


def item_str(it):
    k = it["k"]
    if k == "other":
        return "query { __typename }"
    if k in ("schema", "schema_ext"):
        body = ""
        if it["ops"]:
            body = " {\n" + "\n".join("  %s: %s" % (o["op"], o["type"]) for o in it["ops"]) + "\n}"
        return ("extend " if k == "schema_ext" else "") + "schema" + _dirs_str(it.get("dirs")) + body
    if k == "directive":
        return _desc_str(it.get("desc")) + "directive @%s%s on %s" % (it["name"], _args_str(it["args"]), " | ".join(it["locations"]))
    head = _desc_str(it.get("desc")) if k == "type" else "extend "
    kind = it["kind"]
    kw = {"scalar": "scalar", "object": "type", "interface": "interface", "union": "union", "enum": "enum", "input": "input"}[kind]
    s = head + kw + " " + it["name"]
    if it.get("interfaces"):
        s += " implements " + " & ".join(it["interfaces"])
    s += _dirs_str(it.get("dirs"))
    if kind in ("object", "interface") and it["fields"]:
        s += " {\n" + "\n".join(_desc_str(f.get("desc"), "  ") + "  %s%s: %s%s" % (f["name"], _args_str(f["args"]), ty_str_j(f["type"]),
                                                                               _dirs_str(f.get("dirs"))) for f in it["fields"]) + "\n}"
    if kind == "union" and it["members"]:
        s += " = " + " | ".join(it["members"])
    if kind == "enum" and it["values"]:
        s += " {\n" + "\n".join(_desc_str(v.get("desc"), "  ") + "  " + v["name"] + _dirs_str(v.get("dirs")) for v in it["values"]) + "\n}"
    if kind == "input" and it["input_fields"]:
        s += " {\n" + "\n".join(_desc_str(f.get("desc"), "  ") + "  " + _iv_str(f) for f in it["input_fields"]) + "\n}"
    return s


def render(items):
    return "\n\n".join(item_str(i) for i in items) + "\n"


# ---------------------------------------------------------------------------
# parsed document (real parser) -> items (the wire format for the Lean model)
# ---------------------------------------------------------------------------

def ty_of_node(n):
    from py_gql.lang import ast as _ast
    if isinstance(n, _ast.NonNullType):
        return {"k": "nonNull", "t": ty_of_node(n.type)}
    if isinstance(n, _ast.ListType):
        return {"k": "list", "t": ty_of_node(n.type)}
    return {"k": "named", "n": n.name.value}


def _d(node):
    return node.description.value if getattr(node, "description", None) else None


def _dirs_of(node):
    return [{"name": d.name.value, "args": [{"name": a.name.value, "value": lit_of_node(a.value)} for a in d.arguments]}
            for d in (node.directives or [])]


def _iv_of(n):
    return {"name": n.name.value, "desc": _d(n), "type": ty_of_node(n.type),
            "default": lit_of_node(n.default_value) if n.default_value is not None else None, "dirs": _dirs_of(n)}


def _fd_of(n):
    return {"name": n.name.value, "desc": _d(n), "args": [_iv_of(a) for a in n.arguments or []], "type": ty_of_node(n.type),
            "dirs": _dirs_of(n)}


def doc_json(document):
    """`py_gql.lang.ast.Document` (type-system) -> items."""
    from py_gql.lang import ast as _ast
    kinds = [("scalar", _ast.ScalarTypeDefinition, _ast.ScalarTypeExtension), ("object", _ast.ObjectTypeDefinition, _ast.ObjectTypeExtension),
             ("interface", _ast.InterfaceTypeDefinition, _ast.InterfaceTypeExtension), ("union", _ast.UnionTypeDefinition, _ast.UnionTypeExtension),
             ("enum", _ast.EnumTypeDefinition, _ast.EnumTypeExtension), ("input", _ast.InputObjectTypeDefinition, _ast.InputObjectTypeExtension)]
    out = []
    for n in document.definitions:
        if isinstance(n, (_ast.SchemaDefinition, _ast.SchemaExtension)):
            out.append({"k": "schema" if isinstance(n, _ast.SchemaDefinition) else "schema_ext",
                        "ops": [{"op": o.operation, "type": o.type.name.value} for o in n.operation_types], "dirs": _dirs_of(n)})
            continue
        if isinstance(n, _ast.DirectiveDefinition):
            out.append({"k": "directive", "name": n.name.value, "desc": _d(n), "args": [_iv_of(a) for a in n.arguments or []],
                        "locations": [l.value for l in n.locations]})
            continue
        for kind, dcls, ecls in kinds:
            if isinstance(n, (dcls, ecls)):
                it = {"k": "type" if isinstance(n, dcls) else "ext", "kind": kind, "name": n.name.value,
                      "desc": _d(n) if isinstance(n, dcls) else None, "interfaces": [], "fields": [], "members": [], "values": [],
                      "input_fields": [], "dirs": _dirs_of(n)}
                if kind == "object":
                    it["interfaces"] = [i.name.value for i in n.interfaces or []]
                if kind in ("object", "interface"):
                    it["fields"] = [_fd_of(f) for f in n.fields or []]
                if kind == "union":
                    it["members"] = [t.name.value for t in n.types or []]
                if kind == "enum":
                    it["values"] = [{"name": v.name.value, "desc": _d(v), "dirs": _dirs_of(v)} for v in n.values or []]
                if kind == "input":
                    it["input_fields"] = [_iv_of(f) for f in n.fields or []]
                out.append(it)
                break
        else:
            out.append({"k": "other"})
    return out


# ---------------------------------------------------------------------------
# top level
# ---------------------------------------------------------------------------

def thunk_needs(lit, ty, D, acc, depth=0):
    """Input types whose field list is needed to coerce `lit` at `ty` (an object literal at an input type)."""
    if depth > 8 or lit is None:
        return
    if ty[0] == "nonNull":
        return thunk_needs(lit, ty[1], D, acc, depth)
    if ty[0] == "list":
        for v in (lit["vs"] if lit["k"] == "list" else [lit]):
            thunk_needs(v, ty[1], D, acc, depth)
        return
    td = gs.desc_type(D, ty[1])
    if td is None or td["kind"] != "input" or lit["k"] != "obj":
        return
    acc.add(td["name"])
    given = {f["name"]: f["value"] for f in lit["fs"]}
    for f in td["fields"]:
        if f["name"] in given:
            thunk_needs(given[f["name"]], f["type"], D, acc, depth + 1)


def thunk_cycle(D):
    """Name of an input type whose (lazily built) field list needs itself through object-literal defaults
    (finding S1b: the builder recurses), or None."""
    edges = {}
    for t in D["types"]:
        if t["kind"] == "input":
            acc = set()
            for f in t["fields"]:
                if f.get("default") is not None:
                    thunk_needs(_lit(f["default"]), f["type"], D, acc)
            edges[t["name"]] = acc
    for start in edges:
        seen, todo = set(), list(edges[start])
        while todo:
            x = todo.pop()
            if x == start:
                return start
            if x not in seen:
                seen.add(x)
                todo += list(edges.get(x, ()))
    return None


def _base(ty):
    while ty[0] != "named":
        ty = ty[1]
    return ty[1]


def _has_obj(lit):
    if lit is None:
        return False
    if lit["k"] == "obj":
        return True
    if lit["k"] == "list":
        return any(_has_obj(v) for v in lit["vs"])
    return False


def input_reach(D):
    """name -> input types reachable through the fields of the input type (the type itself included)"""
    edges = {}
    for t in D["types"]:
        if t["kind"] == "input":
            out = set()
            for f in t["fields"]:
                td = gs.desc_type(D, _base(f["type"]))
                if td is not None and td["kind"] == "input":
                    out.add(td["name"])
            edges[t["name"]] = out
    reach = {}
    for start in edges:
        seen, todo = {start}, list(edges[start])
        while todo:
            x = todo.pop()
            if x not in seen:
                seen.add(x)
                todo += list(edges.get(x, ()))
        reach[start] = seen
    return reach


def in_progress_defaults(D):
    """(type, field) of input-object fields whose default holds an object literal of an input type from which the
    field's OWN type can be reached again: since fix C14-T15 every default is evaluated again when the schema is
    extended, the fields of an input type are extended while the type is "in progress", and coercing an object
    literal resolves the (lazily extended) types of the fields it meets — such a default keeps its value over the
    un-extended types or is refused, and what other defaults see of it depends on the order in which the types are
    extended. Part of finding S8; kept out of generated content (corpus: S8-extension-default-*), the model covers
    the order-independent cases."""
    reach = input_reach(D)
    out = []
    for t in D["types"]:
        if t["kind"] != "input":
            continue
        for f in t["fields"]:
            if f.get("default") is None or not _has_obj(_lit(f["default"])):
                continue
            u = gs.desc_type(D, _base(f["type"]))
            if u is not None and u["kind"] == "input" and t["name"] in reach.get(u["name"], ()):
                out.append((t, f))
    return out


def sanitize(D):
    """Drop default literals that are not valid constants of their type over D (e.g. cyclic default
    dependencies between mutually recursive input types) until every remaining default coerces."""
    def slots():
        for t in D["types"]:
            for f in t.get("fields") or []:
                yield f
                for a in f.get("args") or []:
                    yield a
        for d in D["directives"]:
            for a in d.get("args") or []:
                yield a
    changed = True
    while changed:
        changed = False
        for x in slots():
            if x.get("default") is not None:
                try:
                    ref_coerce(_lit(x["default"]), x["type"], D)
                except Invalid:
                    x["default"] = None
                    changed = True
        c = thunk_cycle(D)
        if c is not None:
            for f in gs.desc_type(D, c)["fields"]:
                acc = set()
                if f.get("default") is not None:
                    thunk_needs(_lit(f["default"]), f["type"], D, acc)
                if acc:
                    f["default"] = None
            changed = True
        for _t, f in in_progress_defaults(D):
            f["default"] = None
            changed = True
    return D


def gen_content(rng, size=2, rich=True):
    D = gs.gen_schema(rng, size, recursive_inputs=True, with_subscription=False)
    return sanitize(decorate(rng, D, rich))


def gen_doc(rng, size=2, p_ext=0.45, s8_safe=True):
    """(declared content D, items in a canonical order)."""
    D = gen_content(rng, size)
    return D, items_of(rng, D, p_ext=p_ext, s8_safe=s8_safe)


# ---------------------------------------------------------------------------
# labelled invalid documents: one defect injected into a valid document
# ---------------------------------------------------------------------------

def _first(items, pred):
    xs = [i for i in items if pred(i)]
    return xs[0] if xs else None


def inject(rng, items, label):
    """Return a copy of `items` with the defect `label`, or None if not applicable."""
    try:
        return _inject(rng, items, label)
    except (TypeError, IndexError):
        return None


def _inject(rng, items, label):
    items = copy.deepcopy(items)
    types = [i for i in items if i["k"] == "type"]

    def pick(kind=None, key=None):
        c = [t for t in types if (kind is None or t["kind"] in kind) and (key is None or t[key])]
        return rng.choice(c) if c else None

    def ext_of(t, **kw):
        e = {"k": "ext", "kind": t["kind"], "name": t["name"], "desc": None, "interfaces": [], "fields": [], "members": [],
             "values": [], "input_fields": [], "dirs": []}
        e.update(kw)
        return e

    if label == "dup-type":
        t = pick()
        items.insert(rng.randint(0, len(items)), copy.deepcopy(t))
    elif label == "dup-type-other-kind":
        t = pick()
        items.append({"k": "type", "kind": "scalar", "name": t["name"], "desc": None, "interfaces": [], "fields": [], "members": [],
                      "values": [], "input_fields": [], "dirs": []})
    elif label == "dup-directive":
        d = _first(items, lambda i: i["k"] == "directive")
        if d is None:
            return None
        items.append(copy.deepcopy(d))
    elif label == "dup-field":
        t = pick(("object", "interface"), "fields")
        t["fields"].append(copy.deepcopy(rng.choice(t["fields"])))
    elif label == "dup-input-field":
        t = pick(("input",), "input_fields")
        t["input_fields"].append(copy.deepcopy(rng.choice(t["input_fields"])))
    elif label == "dup-enum-value":
        t = pick(("enum",), "values")
        t["values"].append(copy.deepcopy(rng.choice(t["values"])))
    elif label == "dup-argument":
        c = [f for t in types if t["kind"] in ("object", "interface") for f in t["fields"] if f["args"]]
        if not c:
            return None
        f = rng.choice(c)
        f["args"].append(copy.deepcopy(f["args"][0]))
    elif label == "dup-union-member":
        t = pick(("union",), "members")
        if t is None:
            return None
        t["members"].append(t["members"][0])
    elif label == "unknown-field-type":
        t = pick(("object", "interface"), "fields")
        rng.choice(t["fields"])["type"] = {"k": "named", "n": "Nope"}
    elif label == "unknown-arg-type":
        c = [f for t in types if t["kind"] in ("object", "interface") for f in t["fields"] if f["args"]]
        if not c:
            return None
        rng.choice(c)["args"][0]["type"] = {"k": "list", "t": {"k": "named", "n": "Nope"}}
    elif label == "unknown-input-field-type":
        t = pick(("input",), "input_fields")
        f = rng.choice(t["input_fields"])
        f["type"] = {"k": "named", "n": "Nope"}
        f["default"] = None
    elif label == "unknown-union-member":
        t = pick(("union",), "members")
        if t is None:
            return None
        t["members"].append("Nope")
    elif label == "unknown-interface":
        t = pick(("object",))
        t["interfaces"].append("Nope")
    elif label == "unknown-root":
        items[:] = [i for i in items if i["k"] not in ("schema", "schema_ext")]
        items.append({"k": "schema", "ops": [{"op": "query", "type": "Nope"}], "dirs": []})
    elif label == "ext-wrong-kind":
        t = pick()
        other = rng.choice([k for k in KINDS if k != t["kind"]])
        e = ext_of(t, kind=other, dirs=[{"name": "deprecated", "args": []}])
        items.append(e)
    elif label == "ext-dup-field":
        t = pick(("object", "interface"), "fields")
        items.append(ext_of(t, fields=[copy.deepcopy(t["fields"][0])]))
    elif label == "ext-dup-field-twice":
        t = pick(("object", "interface"), "fields")
        f = copy.deepcopy(t["fields"][0])
        f["name"] = "brand_new"
        items.append(ext_of(t, fields=[f]))
        items.append(ext_of(t, fields=[copy.deepcopy(f)]))
    elif label.startswith("ext-new-"):
        # a member that the base definition does NOT have, repeated among the extension-added members:
        # in two separate `extend` blocks ("-twice") or twice within one block ("-one-block")
        what = label[len("ext-new-"):].rsplit("-", 2 if label.endswith("one-block") else 1)[0]
        one_block = label.endswith("one-block")
        new_field = {"name": "brand_new", "desc": None, "args": [], "type": {"k": "named", "n": "Int"}, "dirs": []}
        if what == "field":
            t, key, m = pick(("object", "interface")), "fields", new_field
        elif what == "value":
            t, key, m = pick(("enum",)), "values", {"name": "BRAND_NEW", "desc": None, "dirs": []}
        elif what == "input-field":
            t, key, m = pick(("input",)), "input_fields", {"name": "brand_new", "desc": None, "type": {"k": "named", "n": "Int"},
                                                           "default": None, "dirs": []}
        elif what == "member":
            t, key, m = pick(("union",)), "members", "BrandNewObj"
            items.append({"k": "type", "kind": "object", "name": "BrandNewObj", "desc": None, "interfaces": [], "fields": [copy.deepcopy(new_field)],
                          "members": [], "values": [], "input_fields": [], "dirs": []})
        elif what == "interface":
            t, key, m = pick(("object",)), "interfaces", "BrandNewIf"
            items.append({"k": "type", "kind": "interface", "name": "BrandNewIf", "desc": None, "interfaces": [], "members": [], "values": [],
                          "input_fields": [], "dirs": [], "fields": [dict(copy.deepcopy(new_field), name="brand_new_if")]})
            items.append(ext_of(t, fields=[dict(copy.deepcopy(new_field), name="brand_new_if")]))
        else:
            raise KeyError(label)
        if one_block:
            items.append(ext_of(t, **{key: [copy.deepcopy(m), copy.deepcopy(m)]}))
        else:
            items.append(ext_of(t, **{key: [copy.deepcopy(m)]}))
            items.append(ext_of(t, **{key: [copy.deepcopy(m)]}))
    elif label == "ext-required-field-invalidates-default":
        # a default that IS a value of the input type as defined, and is not one once an `extend input` block of the
        # same document has added a required field (hunt3 C11/6): argument / input field / directive argument, written
        # in a definition or in an extension block, extension before or after, plain / list / nested literal
        blank = {"desc": None, "interfaces": [], "fields": [], "members": [], "values": [], "input_fields": [], "dirs": []}
        stale = dict(blank, k="type", kind="input", name="ZzStale",
                     input_fields=[{"name": "a", "desc": None, "type": {"k": "named", "n": "Int"}, "default": None, "dirs": []}])
        req = dict(blank, k="ext", kind="input", name="ZzStale",
                   input_fields=[{"name": "b", "desc": None, "type": {"k": "nonNull", "t": {"k": "named", "n": rng.choice(["Int", "String", "ZzStale"])}},
                                  "default": None, "dirs": []}])
        form = rng.choice(["plain", "list", "nested"])
        one = rng.choice([{"k": "obj", "fs": []}, {"k": "obj", "fs": [{"name": "a", "value": {"k": "int", "v": "1", "f": "1.0"}}]}])
        extra = []
        if form == "plain":
            ty, lit = {"k": "named", "n": "ZzStale"}, one
        elif form == "list":
            ty, lit = {"k": "list", "t": {"k": "nonNull", "t": {"k": "named", "n": "ZzStale"}}}, {"k": "list", "vs": [one, {"k": "obj", "fs": []}]}
        else:
            extra = [dict(blank, k="type", kind="input", name="ZzOuter",
                          input_fields=[{"name": "i", "desc": None, "type": {"k": "named", "n": "ZzStale"}, "default": None, "dirs": []}])]
            ty, lit = {"k": "named", "n": "ZzOuter"}, {"k": "obj", "fs": [{"name": "i", "value": one}]}
        slot = {"name": "zz", "desc": None, "type": ty, "default": lit, "dirs": []}
        where = rng.choice(["argument", "input-field", "directive"])
        obj = pick(("object",))
        if where == "directive" or obj is None:
            user = {"k": "directive", "name": "zzStale", "desc": None, "args": [slot], "locations": ["FIELD"]}
        elif where == "argument":
            user = ext_of(obj, fields=[{"name": "zz_f", "desc": None, "args": [slot], "type": {"k": "named", "n": "Int"}, "dirs": []}])
            if rng.random() < 0.5:       # in the definition itself
                obj["fields"].append(user["fields"][0])
                user = None
        else:
            holder = dict(blank, k="type", kind="input", name="ZzHolder", input_fields=[slot])
            if rng.random() < 0.5:
                holder["input_fields"] = [{"name": "k", "desc": None, "type": {"k": "named", "n": "Int"}, "default": None, "dirs": []}]
                extra.append(dict(blank, k="ext", kind="input", name="ZzHolder", input_fields=[slot]))
            user = holder
        new = [stale] + extra + ([user] if user is not None else [])
        new.insert(rng.randint(0, len(new)), req)
        for n in new:
            items.insert(rng.randint(0, len(items)), n)
    elif label == "ext-dup-input-field":
        t = pick(("input",), "input_fields")
        items.append(ext_of(t, input_fields=[copy.deepcopy(t["input_fields"][0])]))
    elif label == "ext-dup-value":
        t = pick(("enum",), "values")
        items.append(ext_of(t, values=[copy.deepcopy(t["values"][0])]))
    elif label == "ext-dup-member":
        t = pick(("union",), "members")
        if t is None:
            return None
        items.append(ext_of(t, members=[t["members"][0]]))
    elif label == "ext-dup-interface":
        t = pick(("object",), "interfaces")
        if t is None:
            return None
        items.append(ext_of(t, interfaces=[t["interfaces"][0]]))
    elif label == "ext-unknown-member-type":
        t = pick(("object", "interface"), "fields")
        f = copy.deepcopy(t["fields"][0])
        f["name"] = "brand_new"
        f["type"] = {"k": "named", "n": "Nope"}
        items.append(ext_of(t, fields=[f]))
    elif label == "dup-schema":
        items[:] = [i for i in items if i["k"] not in ("schema", "schema_ext")]
        q = _first(types, lambda t: t["kind"] == "object")
        s = {"k": "schema", "ops": [{"op": "query", "type": q["name"]}], "dirs": []}
        items.append(s)
        items.insert(0, copy.deepcopy(s))
    elif label == "dup-operation":
        items[:] = [i for i in items if i["k"] not in ("schema", "schema_ext")]
        q = _first(types, lambda t: t["kind"] == "object")
        items.append({"k": "schema", "ops": [{"op": "query", "type": q["name"]}, {"op": "query", "type": q["name"]}], "dirs": []})
    elif label == "ext-redefines-operation":
        q = _first(types, lambda t: t["kind"] == "object" and t["name"] in ("Query", "RootQ"))
        if q is None:
            return None
        items.append({"k": "schema_ext", "ops": [{"op": "query", "type": q["name"]}], "dirs": []})
    elif label == "missing-query":
        items[:] = [i for i in items if i["k"] not in ("schema", "schema_ext")]
        for i in items:
            if i.get("name") == "Query":
                i["name"] = "NotTheQuery"
    elif label == "bad-default":
        c = [a for t in types if t["kind"] in ("object", "interface") for f in t["fields"] for a in f["args"]]
        c += [f for t in types if t["kind"] == "input" for f in t["input_fields"]]
        c = [a for a in c if a["type"]["k"] == "named" or (a["type"]["k"] == "nonNull" and a["type"]["t"]["k"] == "named")]
        # a custom scalar takes every kind of literal (fix C11-1): not a defect there
        custom = {t["name"] for t in types if t["kind"] == "scalar"}
        c = [a for a in c if (a["type"]["n"] if a["type"]["k"] == "named" else a["type"]["t"]["n"]) not in custom]
        if not c:
            return None
        a = rng.choice(c)
        a["default"] = {"k": "list", "vs": [{"k": "obj", "fs": []}]} if rng.random() < 0.5 else {"k": "enum", "v": "NOPE_VALUE"}
    elif label == "null-default-nonnull":
        c = [a for t in types if t["kind"] in ("object", "interface") for f in t["fields"] for a in f["args"] if a["type"]["k"] == "nonNull"]
        if not c:
            return None
        rng.choice(c)["default"] = {"k": "null"}
    elif label == "bad-deprecated-arg":
        t = pick(("object", "interface"), "fields")
        rng.choice(t["fields"])["dirs"] = [{"name": "deprecated", "args": [{"name": "reason", "value": {"k": "int", "v": "1", "f": "1.0"}}]}]
    elif label == "reserved-enum-value":
        t = pick(("enum",), "values")
        t["values"].append({"name": rng.choice(["true", "false", "null"]), "desc": None, "dirs": []})
    elif label == "self-union":
        t = pick(("union",), "members")
        if t is None:
            return None
        t["members"].append(t["name"])
    elif label == "self-interface":
        t = pick(("object",))
        t["interfaces"].append(t["name"])
    elif label == "output-type-as-argument":
        t = pick(("object",), "fields")
        f = rng.choice(t["fields"])
        f["args"].append({"name": "self_arg", "desc": None, "type": {"k": "named", "n": t["name"]}, "default": None, "dirs": []})
    elif label == "ext-output-type-as-argument":
        t = pick(("object",), "fields")
        f = copy.deepcopy(t["fields"][0])
        f["name"] = "brand_new"
        f["args"] = [{"name": "self_arg", "desc": None, "type": {"k": "named", "n": t["name"]}, "default": None, "dirs": []}]
        items.append(ext_of(t, fields=[f]))
    elif label == "input-type-as-field-type":
        t = pick(("object",), "fields")
        i = pick(("input",))
        rng.choice(t["fields"])["type"] = {"k": "named", "n": i["name"]}
    elif label == "empty-object":
        t = pick(("object",), "fields")
        for i in items:
            if i.get("name") == t["name"] and i["k"] in ("type", "ext"):
                i["fields"] = []
        items[:] = [i for i in items if not (i["k"] == "ext" and i.get("name") == t["name"] and not i["dirs"] and not i["interfaces"])]
    elif label == "specified-directive-redefined":
        items.append({"k": "directive", "name": rng.choice(["skip", "include", "deprecated"]), "desc": None, "args": [], "locations": ["FIELD"]})
    elif label == "builtin-name-definition":
        # a definition named like a specified scalar / introspection type (finding C11/7, fix C11-7)
        name = rng.choice(["String", "Int", "Boolean", "ID", "Float", "__Schema", "__Type", "__TypeKind", "__Field"])
        kind = rng.choice(["object", "enum", "scalar", "input"])
        d = {"k": "type", "kind": kind, "name": name, "desc": None, "interfaces": [], "fields": [], "members": [], "values": [],
             "input_fields": [], "dirs": []}
        if kind == "object":
            d["fields"] = [{"name": "a", "desc": None, "args": [], "type": {"k": "named", "n": "Int"}, "dirs": []}]
        if kind == "enum":
            d["values"] = [{"name": "A", "desc": None, "dirs": []}]
        if kind == "input":
            d["input_fields"] = [{"name": "a", "desc": None, "type": {"k": "named", "n": "Int"}, "default": None, "dirs": []}]
        items.insert(rng.randint(0, len(items)), d)
    elif label == "ext-wrong-kind-builtin":
        name, kinds = rng.choice([("Int", ["object", "enum", "input", "union", "interface"]), ("ID", ["enum", "object"]),
                                  ("__Type", ["scalar", "enum", "input"]), ("__TypeKind", ["object", "scalar"])])
        kind = rng.choice(kinds)
        e = {"k": "ext", "kind": kind, "name": name, "desc": None, "interfaces": [], "fields": [], "members": [], "values": [],
             "input_fields": [], "dirs": [{"name": "deprecated", "args": []}]}
        items.append(e)
    elif label == "ext-unknown-target":
        items.append({"k": "ext", "kind": "object", "name": "Nope", "desc": None, "interfaces": [], "members": [], "values": [],
                      "input_fields": [], "dirs": [],
                      "fields": [{"name": "x", "desc": None, "args": [], "type": {"k": "named", "n": "Int"}, "dirs": []}]})
    else:
        raise KeyError(label)
    return items


INVALID_LABELS = [
    "dup-type", "dup-type-other-kind", "dup-directive", "dup-field", "dup-input-field", "dup-enum-value", "dup-argument",
    "dup-union-member", "unknown-field-type", "unknown-arg-type", "unknown-input-field-type", "unknown-union-member",
    "unknown-interface", "unknown-root", "ext-wrong-kind", "ext-dup-field", "ext-dup-field-twice", "ext-dup-input-field",
    "ext-dup-value", "ext-dup-member", "ext-dup-interface", "ext-unknown-member-type", "dup-schema", "dup-operation",
    "ext-redefines-operation", "missing-query", "bad-default", "null-default-nonnull", "bad-deprecated-arg",
    "reserved-enum-value", "self-union", "self-interface", "output-type-as-argument", "ext-output-type-as-argument",
    "input-type-as-field-type", "empty-object", "specified-directive-redefined", "ext-unknown-target",
    "ext-new-field-twice", "ext-new-field-one-block", "ext-new-value-twice", "ext-new-value-one-block",
    "ext-new-input-field-twice", "ext-new-input-field-one-block", "ext-new-member-twice", "ext-new-member-one-block",
    "ext-new-interface-twice", "ext-new-interface-one-block",
    "builtin-name-definition", "ext-wrong-kind-builtin", "ext-required-field-invalidates-default",
]

# -*- coding: utf-8 -*-
"""
Seeded generator of *valid* GraphQL schemas as plain descriptions (dicts) plus a
renderer to SDL. Shared by the schema-side properties.

Type expressions are tuples: ("named", n) | ("list", t) | ("nonNull", t).
"""
import copy

SCALARS = ["Int", "Float", "String", "Boolean", "ID"]


def named(n):
    return ("named", n)


def lst(t):
    return ("list", t)


def nn(t):
    return ("nonNull", t) if t[0] != "nonNull" else t


def ty_str(t):
    return t[1] if t[0] == "named" else ("[%s]" % ty_str(t[1]) if t[0] == "list" else ty_str(t[1]) + "!")


def ty_base(t):
    return t[1] if t[0] == "named" else ty_base(t[1])


def ty_json(t):
    return {"k": "named", "n": t[1]} if t[0] == "named" else {"k": t[0], "t": ty_json(t[1])}


def wrap_random(rng, base, max_depth=2, p_nn=0.3):
    t = named(base)
    if rng.random() < p_nn:
        t = nn(t)
    for _ in range(rng.randint(0, max_depth)):
        if rng.random() < 0.45:
            t = lst(t)
            if rng.random() < p_nn:
                t = nn(t)
    return t


def default_for(rng, t, desc, depth=0):
    """A literal (GraphQL syntax string) of type t, or None."""
    if t[0] == "nonNull":
        return default_for(rng, t[1], desc, depth)
    if rng.random() < 0.1:
        return "null"
    if t[0] == "list":
        if depth > 1:
            return "[]"
        items = [default_for(rng, t[1], desc, depth + 1) for _ in range(rng.randint(0, 2))]
        items = [i for i in items if i is not None]
        if t[1][0] == "nonNull":
            items = [i for i in items if i != "null"]
        return "[" + ", ".join(items) + "]"
    b = t[1]
    if b == "Int":
        return str(rng.choice([0, 1, -7, 42, 2147483646]))
    if b == "Float":
        return rng.choice(["0.5", "1.0", "-2.25", "3"])
    if b == "String":
        return rng.choice(['"a"', '""', '"x y"', '"q\\"uote"'])
    if b == "Boolean":
        return rng.choice(["true", "false"])
    if b == "ID":
        return rng.choice(['"id1"', "7"])
    td = desc_type(desc, b)
    if td is None:
        return None
    if td["kind"] == "enum":
        return rng.choice(td["values"])["name"]
    if td["kind"] == "input":
        if depth > 1:
            # must provide required fields
            pass
        parts = []
        for f in td["fields"]:
            req = f["type"][0] == "nonNull" and f.get("default") is None
            if req or rng.random() < 0.5:
                if ty_base(f["type"]) == b or depth > 1:
                    if req:
                        return None
                    continue
                v = default_for(rng, f["type"], desc, depth + 1)
                if v is None or (v == "null" and f["type"][0] == "nonNull"):
                    if req:
                        return None
                    continue
                parts.append("%s: %s" % (f["name"], v))
        return "{" + ", ".join(parts) + "}"
    return None


def desc_type(desc, name):
    for t in desc["types"]:
        if t["name"] == name:
            return t
    return None


def gen_schema(rng, size=2, with_directives=True, with_descriptions=True, with_defaults=True,
               with_mutation=None, with_subscription=False, recursive_inputs=False,
               divergent_implementations=True):
    """Return a description of a valid schema."""
    n_enum = rng.randint(1, 1 + size // 2)
    n_input = rng.randint(1, 1 + size // 2)
    n_iface = rng.randint(0, 1 + size // 2)
    n_obj = rng.randint(1, 1 + size)
    n_union = rng.randint(0, 1 + size // 2)
    n_scalar = rng.randint(0, 1)
    desc = {"types": [], "directives": [], "query": "Query", "mutation": None, "subscription": None}

    def maybe_desc(what):
        if with_descriptions and rng.random() < 0.3:
            return rng.choice(["%s doc" % what, "About %s." % what, "line one\nline two of %s" % what])
        return None

    def maybe_depr():
        r = rng.random()
        if r < 0.12:
            return "No longer supported"
        if r < 0.2:
            return rng.choice(["use other", "old"])
        return None

    for i in range(n_scalar):
        desc["types"].append({"kind": "scalar", "name": "Sc%d" % i, "desc": maybe_desc("Sc%d" % i)})
    for i in range(n_enum):
        vals = []
        for j in range(rng.randint(1, 4)):
            vals.append({"name": "E%d_V%d" % (i, j), "deprecated": maybe_depr(), "desc": maybe_desc("value")})
        desc["types"].append({"kind": "enum", "name": "En%d" % i, "values": vals, "desc": maybe_desc("En%d" % i)})
    input_names = ["In%d" % i for i in range(n_input)]
    leaf_in = SCALARS + [t["name"] for t in desc["types"] if t["kind"] in ("enum", "scalar")]
    for i, nme in enumerate(input_names):
        desc["types"].append({"kind": "input", "name": nme, "fields": [], "desc": maybe_desc(nme)})
    for i, nme in enumerate(input_names):
        td = desc_type(desc, nme)
        for j in range(rng.randint(1, 3)):
            pool = leaf_in + (input_names if recursive_inputs else input_names[:i])
            base = rng.choice(pool)
            t = wrap_random(rng, base)
            if base in input_names and t[0] == "nonNull" and "list" not in ty_str(t).replace("[", "list"):
                t = t[1]  # avoid unsatisfiable non-null recursion
            if base in input_names:
                # keep recursive references nullable at the outermost level
                if t[0] == "nonNull":
                    t = t[1]
            td["fields"].append({"name": "f%d" % j, "type": t, "default": None, "desc": maybe_desc("input field")})
    if with_defaults:
        for nme in input_names:
            td = desc_type(desc, nme)
            for f in td["fields"]:
                if rng.random() < 0.35:
                    f["default"] = default_for(rng, f["type"], desc)
                    if f["default"] == "null" and f["type"][0] == "nonNull":
                        f["default"] = None

    in_pool = leaf_in + input_names

    def gen_args(k=None):
        args = []
        for j in range(rng.randint(0, 2) if k is None else k):
            t = wrap_random(rng, rng.choice(in_pool))
            d = default_for(rng, t, desc) if (with_defaults and rng.random() < 0.35) else None
            if d == "null" and t[0] == "nonNull":
                d = None
            args.append({"name": "a%d" % j, "type": t, "default": d, "desc": maybe_desc("arg")})
        return args

    iface_names = ["If%d" % i for i in range(n_iface)]
    obj_names = ["Ob%d" % i for i in range(n_obj)]
    union_names = ["Un%d" % i for i in range(n_union)]
    out_leaf = SCALARS + [t["name"] for t in desc["types"] if t["kind"] in ("enum", "scalar")]
    out_pool = out_leaf + iface_names + obj_names + union_names

    def gen_fields(prefix, n):
        fs = []
        for j in range(n):
            fs.append({"name": "%s%d" % (prefix, j), "type": wrap_random(rng, rng.choice(out_pool)),
                       "args": gen_args(), "deprecated": maybe_depr(), "desc": maybe_desc("field")})
        return fs

    for nme in iface_names:
        desc["types"].append({"kind": "interface", "name": nme, "fields": gen_fields("i" + nme[2:] + "_", rng.randint(1, 2)),
                              "desc": maybe_desc(nme)})
    for nme in obj_names:
        impl = [i for i in iface_names if rng.random() < 0.5]
        fields = []
        for i in impl:
            for f in desc_type(desc, i)["fields"]:
                g = copy.deepcopy(f)
                g["deprecated"] = maybe_depr()
                # covariant narrowing sometimes
                if g["type"][0] != "nonNull" and rng.random() < 0.3:
                    g["type"] = nn(g["type"])
                # implementations may declare ADDITIONAL optional arguments and their own defaults
                if divergent_implementations and rng.random() < 0.5:
                    extra = gen_args(1)
                    for a in extra:
                        a["name"] = "x_" + nme.lower() + "_" + a["name"]
                        if a["type"][0] == "nonNull":
                            a["type"] = a["type"][1]
                    g["args"] = g["args"] + extra
                if divergent_implementations and with_defaults and g["args"] and rng.random() < 0.4:
                    a = rng.choice(g["args"])
                    d2 = default_for(rng, a["type"], desc)
                    if not (d2 == "null" and a["type"][0] == "nonNull") and (d2 is not None or a["type"][0] != "nonNull"):
                        a["default"] = d2
                fields.append(g)
        fields += gen_fields("o" + nme[2:] + "_", rng.randint(1, 3))
        desc["types"].append({"kind": "object", "name": nme, "interfaces": impl, "fields": fields, "desc": maybe_desc(nme)})
    for nme in union_names:
        k = rng.randint(1, min(3, len(obj_names)))
        desc["types"].append({"kind": "union", "name": nme, "members": rng.sample(obj_names, k), "desc": maybe_desc(nme)})
    # root
    qfields = []
    for j, tn in enumerate(obj_names + iface_names + union_names + out_leaf[:3 + size]):
        if rng.random() < 0.75 or j == 0:
            qfields.append({"name": "q%d" % j, "type": wrap_random(rng, tn), "args": gen_args(), "deprecated": None,
                            "desc": maybe_desc("root field")})
    desc["types"].append({"kind": "object", "name": "Query", "interfaces": [], "fields": qfields, "desc": None})
    if with_mutation if with_mutation is not None else rng.random() < 0.3:
        desc["types"].append({"kind": "object", "name": "Mutation", "interfaces": [], "desc": None,
                              "fields": [{"name": "m%d" % j, "type": wrap_random(rng, rng.choice(out_pool)),
                                          "args": gen_args(), "deprecated": None, "desc": None}
                                         for j in range(rng.randint(1, 3))]})
        desc["mutation"] = "Mutation"
    if with_directives and rng.random() < 0.6:
        for i in range(rng.randint(1, 2)):
            locs = rng.sample(["FIELD", "QUERY", "FRAGMENT_SPREAD", "INLINE_FRAGMENT", "FIELD_DEFINITION", "OBJECT",
                               "ENUM_VALUE", "ARGUMENT_DEFINITION", "MUTATION", "FRAGMENT_DEFINITION"], rng.randint(1, 3))
            desc["directives"].append({"name": "dir%d" % i, "locations": locs, "args": gen_args(), "desc": maybe_desc("directive")})
    return desc


# ---------------------------------------------------------------------------
# SDL rendering
# ---------------------------------------------------------------------------

def _desc(d, ind=""):
    if d is None:
        return ""
    if "\n" in d:
        return ind + '"""\n' + "\n".join(ind + l for l in d.split("\n")) + "\n" + ind + '"""\n'
    return ind + '"""' + d + '"""\n'


def _depr(r):
    if r is None:
        return ""
    if r == "No longer supported":
        return " @deprecated"
    return ' @deprecated(reason: "%s")' % r


def _args(args):
    if not args:
        return ""
    return "(" + ", ".join(
        "%s: %s%s" % (a["name"], ty_str(a["type"]), (" = " + a["default"]) if a.get("default") is not None else "")
        for a in args) + ")"


def type_sdl(t, descriptions=True):
    d = _desc(t.get("desc")) if descriptions else ""
    k = t["kind"]
    if k == "scalar":
        return d + "scalar %s" % t["name"]
    if k == "enum":
        return d + "enum %s {\n%s\n}" % (t["name"], "\n".join(
            (_desc(v.get("desc"), "  ") if descriptions else "") + "  " + v["name"] + _depr(v.get("deprecated")) for v in t["values"]))
    if k == "input":
        return d + "input %s {\n%s\n}" % (t["name"], "\n".join(
            (_desc(f.get("desc"), "  ") if descriptions else "") + "  %s: %s%s" % (
                f["name"], ty_str(f["type"]), (" = " + f["default"]) if f.get("default") is not None else "")
            for f in t["fields"]))
    if k == "union":
        return d + "union %s = %s" % (t["name"], " | ".join(t["members"]))
    if k in ("object", "interface"):
        head = "type" if k == "object" else "interface"
        impl = ""
        if k == "object" and t.get("interfaces"):
            impl = " implements " + " & ".join(t["interfaces"])
        return d + "%s %s%s {\n%s\n}" % (head, t["name"], impl, "\n".join(
            (_desc(f.get("desc"), "  ") if descriptions else "") + "  %s%s: %s%s" % (
                f["name"], _args(f.get("args")), ty_str(f["type"]), _depr(f.get("deprecated")))
            for f in t["fields"]))
    raise ValueError(k)


def directive_sdl(d, descriptions=True):
    return (_desc(d.get("desc")) if descriptions else "") + "directive @%s%s on %s" % (
        d["name"], _args(d.get("args")), " | ".join(d["locations"]))


def to_sdl(desc, order=None, descriptions=True):
    """Render; `order` optionally permutes the list of definitions."""
    defs = [directive_sdl(d, descriptions) for d in desc["directives"]] + [type_sdl(t, descriptions) for t in desc["types"]]
    if desc.get("query") != "Query" or desc.get("mutation") not in (None, "Mutation") or desc.get("subscription") not in (None, "Subscription"):
        ops = ["query: %s" % desc["query"]]
        if desc.get("mutation"):
            ops.append("mutation: %s" % desc["mutation"])
        if desc.get("subscription"):
            ops.append("subscription: %s" % desc["subscription"])
        defs.append("schema {\n  %s\n}" % "\n  ".join(ops))
    if order is not None:
        defs = [defs[i] for i in order]
    return "\n\n".join(defs) + "\n"


def _has_schema_block(desc):
    return (desc.get("query") != "Query" or desc.get("mutation") not in (None, "Mutation")
            or desc.get("subscription") not in (None, "Subscription"))


def n_definitions(desc):
    """number of definitions `to_sdl` renders (the `schema { }` block included when the roots need one)"""
    return len(desc["directives"]) + len(desc["types"]) + (1 if _has_schema_block(desc) else 0)

# -*- coding: utf-8 -*-
"""
Generator CLASS `leading-node`: VALID documents in which ONE field node with a sub-selection is the FIRST node of two
DIFFERENT merged node lists of the same response key within one request. The merged sub-selection of a response key is a
function of the WHOLE node list (CollectFields / MergeSelectionSets), not of its first node: anything memoised per
leading node (seeded C04-11 / C05-12) gives the second list the sub-fields of the first - objects lose or gain keys.

Deterministic: a function of the schema description alone (no random choice), so every quick run that generates a
schema with a suitable (root field q : T, composite field g of T, two leaf fields of g's type) gets its quota.

  reuse      { x: q { ...P g { h2 } }  y: q { ...P } }  fragment P on T { g { h1 } }      (x.g = {h1,h2}, y.g = {h1})
  reuse-rev  { y: q { ...P }  x: q { ...P g { h2 } } }  ...
  typed      { q { g { h1 } ... on O { g { h2 } } } }    for an interface T with >= 2 implementations and a list-typed q
                                                          (needs two runtime types in one list: world-dependent)
"""
from gen.schema import desc_type, ty_base


def _kind(desc, name):
    t = desc_type(desc, name)
    return t["kind"] if t else "scalar"


def _free(f):
    """no required argument: the field can be written without arguments"""
    return not any(a["type"][0] == "nonNull" and a.get("default") is None for a in f.get("args") or [])


def _is_list(t):
    return t[0] == "list" or (t[0] == "nonNull" and _is_list(t[1]))


def leading_node_documents(desc, limit=4):
    """[(label, text, variables)]"""
    out = []
    root = desc_type(desc, desc["query"])
    for q in (root or {}).get("fields", []):
        if not _free(q):
            continue
        tn = ty_base(q["type"])
        t = desc_type(desc, tn)
        if t is None or t["kind"] not in ("object", "interface"):
            continue
        for g in t.get("fields", []):
            if not _free(g):
                continue
            gn = ty_base(g["type"])
            gt = desc_type(desc, gn)
            if gt is None or gt["kind"] not in ("object", "interface"):
                continue
            leafs = [h["name"] for h in gt.get("fields", []) if _free(h) and _kind(desc, ty_base(h["type"])) in ("scalar", "enum")]
            h1, h2 = (leafs + ["__typename", "__typename"])[:2]
            if h1 == h2:
                h2 = "tn: __typename"
            frag = "fragment P on %s { %s { %s } }" % (tn, g["name"], h1)
            out.append(("leading-node-reuse", "{ x: %s { ...P %s { %s } } y: %s { ...P } } %s" % (q["name"], g["name"], h2, q["name"], frag), {}))
            out.append(("leading-node-reuse-rev", "{ y: %s { ...P } x: %s { ...P %s { %s } } } %s" % (q["name"], q["name"], g["name"], h2, frag), {}))
            if t["kind"] == "interface" and _is_list(q["type"]):
                impls = [o["name"] for o in desc["types"] if o["kind"] == "object" and tn in o.get("interfaces", [])]
                if len(impls) >= 2:
                    out.append(("leading-node-typed", "{ %s { __typename %s { %s } ... on %s { %s { %s } } } }"
                                % (q["name"], g["name"], h1, impls[0], g["name"], h2), {}))
            if len(out) >= limit:
                return out
            break       # one g per root field
    return out


# a fixed schema on which the class is always non-empty (named probe beside the generated quota)
FIXED_SDL = ("type Query { pets: [Pet!], pet: Pet, me: Owner }\n"
             "interface Pet { name: String, owner: Owner }\n"
             "type Dog implements Pet { name: String, owner: Owner, bark: Int }\n"
             "type Cat implements Pet { name: String, owner: Owner }\n"
             "type Owner { name: String, phone: String, friend: Owner, pets: [Pet!] }\n")
FIXED_DOCS = [
    ("leading-node-reuse", "{ x: me { ...P friend { phone } } y: me { ...P } } fragment P on Owner { friend { name } }", {}),
    ("leading-node-reuse-rev", "{ y: me { ...P } x: me { ...P friend { phone } } } fragment P on Owner { friend { name } }", {}),
    ("leading-node-typed", "{ pets { __typename owner { name } ... on Dog { owner { phone } } } }", {}),
    ("leading-node-typed-fragment", "{ pets { ...O ... on Cat { owner { phone friend { name } } } } } fragment O on Pet { owner { name } }", {}),
    # several merged groups of same-key object fields of ONE type completed one after the other, different sub-selections
    # (temporaries of an earlier group must not be mistaken for a later one: seeded C04-6)
    ("same-key-groups-sequence", "{ a: me { name } a: me { phone } b: me { friend { name } } b: me { pets { name } } c: me { phone } "
     "c: me { name friend { phone } } d: me { pets { __typename } } d: me { name } }", {}),
    ("same-key-groups-list", "{ pets { o: owner { name } o: owner { phone } } a: me { friend { name } } a: me { phone } "
     "me { friend { name } friend { pets { name } } } }", {}),
    ("leading-node-nested", "{ me { pets { owner { name } ... on Dog { owner { phone } } } } x: pet { owner { name } } }", {}),
]
FIXED_SEEDS = [17, 21, 28, 29, 53, 0, 1, 2, 3, 4]

# -*- coding: utf-8 -*-
"""
SINGLE LABELLED RULE VIOLATIONS for property C06: one injector per validation rule of §5 of
the June-2018 specification. Each injector takes a document tree that is valid by construction
(`gen/valid_ops.py`) and returns `(new_tree, feature)` — `feature` names the structural variant
used (part of failure signatures) — or `None` when the document offers no place for it.

`INJECTORS` rows: (label, spec section, names of the rule visitor(s) of py-gql the error must be
attributable to, function).
"""
import copy

from gen import schema as gs
from gen import valid_ops as vo


# ---------------------------------------------------------------------------
# positions
# ---------------------------------------------------------------------------

class Pos:
    """All selection lists / fields of a document with their static parent type."""

    def __init__(self, sv, doc):
        self.sv = sv
        self.doc = doc
        self.lists = []    # (sels list, parent type name, definition, depth)
        self.fields = []   # (field node, parent type name, definition, containing list)
        self.spreads = []  # (spread node, parent type, definition, containing list)
        self.inlines = []
        for d in doc["defs"]:
            if d["k"] == "op":
                self._walk(d["sels"], sv.root(d["op"]), d, 0)
            elif d["k"] == "frag":
                self._walk(d["sels"], d["on"], d, 0)

    def _walk(self, sels, parent, d, depth):
        self.lists.append((sels, parent, d, depth))
        for s in sels:
            if s["k"] == "field":
                self.fields.append((s, parent, d, sels))
                if s["sels"] is not None:
                    f = self.sv.field(parent, s["name"]) if parent else None
                    self._walk(s["sels"], gs.ty_base(f["type"]) if f else None, d, depth + 1)
            elif s["k"] == "spread":
                self.spreads.append((s, parent, d, sels))
            else:
                self.inlines.append((s, parent, d, sels))
                self._walk(s["sels"], s["on"] or parent, d, depth + 1)

    def fielddef(self, s, parent):
        return self.sv.field(parent, s["name"]) if parent else None


def ops(doc):
    return [d for d in doc["defs"] if d["k"] == "op"]


def frags(doc):
    return [d for d in doc["defs"] if d["k"] == "frag"]


def typename(alias=None):
    return {"k": "field", "alias": alias, "name": "__typename", "args": [], "dirs": [], "sels": None}


def leaf_field(sv, tname, want=None):
    """(field def) of a leaf field of tname without required arguments (optionally of base type `want`)"""
    out = []
    for f in sv.fields(tname):
        b = gs.ty_base(f["type"])
        if sv.is_leaf(b) and not any(a["type"][0] == "nonNull" and a.get("default") is None for a in f.get("args") or []):
            if want is None or want(f):
                out.append(f)
    return out


def mk_field(f, alias=None, sels=None, args=None):
    return {"k": "field", "alias": alias, "name": f["name"], "args": args or [], "dirs": [], "sels": sels}


# ---------------------------------------------------------------------------
# injectors
# ---------------------------------------------------------------------------

def executable_definitions(rng, sv, doc):
    d = copy.deepcopy(doc)
    text, feat = rng.choice([
        ("scalar Zz", "scalar"), ("type Zz { a: Int }", "object"), ("extend type Query { zz: Int }", "extension"),
        ("schema { query: Query }", "schema"), ("directive @zz on FIELD", "directive"), ("enum Zz { A }", "enum"),
        ("input Zz { a: Int }", "input"), ("interface Zz { a: Int }", "interface"), ("union Zz = Query", "union"),
    ])
    d["defs"].insert(rng.randint(0, len(d["defs"])), {"k": "ts", "text": text})
    return d, feat


def unique_operation_names(rng, sv, doc):
    d = copy.deepcopy(doc)
    named = [o for o in ops(d) if o["name"]]
    if not named:
        return None
    if len(named) >= 2 and rng.random() < 0.5:
        a, b = rng.sample(named, 2)
        b["name"] = a["name"]
        return d, "renamed"
    c = copy.deepcopy(rng.choice(named))
    d["defs"].insert(rng.randint(0, len(d["defs"])), c)
    return d, "copied"


def lone_anonymous_operation(rng, sv, doc):
    d = copy.deepcopy(doc)
    os_ = ops(d)
    if len(os_) >= 2 and rng.random() < 0.5:
        rng.choice(os_)["name"] = None
        return d, "one-of-many-anonymous"
    if any(o["name"] is None for o in os_):
        new = {"k": "op", "op": "query", "name": "OpX", "vars": [], "dirs": [], "sels": [typename()]}
        feat = "named-added-to-anonymous"
    else:
        new = {"k": "op", "op": "query", "name": None, "vars": [], "dirs": [], "sels": [typename()]}
        feat = "anonymous-added"
    d["defs"].insert(rng.randint(0, len(d["defs"])), new)
    return d, feat


def single_field_subscriptions(rng, sv, doc):
    root = sv.root("subscription")
    if not root:
        return None
    d = copy.deepcopy(doc)
    subs = [o for o in ops(d) if o["op"] == "subscription"]
    lf = leaf_field(sv, root)
    if subs and lf:
        o = rng.choice(subs)
        o["sels"].insert(rng.randint(0, len(o["sels"])), mk_field(rng.choice(lf), alias="zz1"))
        return d, "second-root-field"
    if not lf:
        return None
    if any(o["name"] is None for o in ops(d)):
        return None
    f1, f2 = rng.choice(lf), rng.choice(lf)
    new = {"k": "op", "op": "subscription", "name": "SubX", "vars": [], "dirs": [],
           "sels": [mk_field(f1, alias="zz1"), mk_field(f2, alias="zz2")]}
    d["defs"].insert(rng.randint(0, len(d["defs"])), new)
    return d, "new-subscription-two-fields"


def single_field_subscriptions_collected(rng, sv, doc):
    """a second root field of a subscription that is only visible to `CollectFields` (spec 5.2.3.1, counter-examples
    102 / 103): inside an inline fragment (with or without type condition) or a fragment (hunt2 C06/2: the rule counted
    the WRITTEN selections). New operation `SubY` so that the rest of the document stays as it is."""
    root = sv.root("subscription")
    if not root:
        return None
    d = copy.deepcopy(doc)
    lf = leaf_field(sv, root)
    if not lf or any(o["name"] is None for o in ops(d)):
        return None
    f1, f2 = rng.choice(lf), rng.choice(lf)
    a, b = mk_field(f1, alias="zy1"), mk_field(f2, alias="zy2")
    how = rng.choice(["inline-typed", "inline-bare", "fragment", "nested-fragment", "field-and-fragment"])
    uid = "Zs%d" % rng.randint(0, 999)
    if how == "inline-typed":
        sels = [{"k": "inline", "on": root, "dirs": [], "sels": [a, b]}]
    elif how == "inline-bare":
        sels = [{"k": "inline", "on": None, "dirs": [], "sels": [a, b]}]
    elif how == "fragment":
        d["defs"].insert(rng.randint(0, len(d["defs"])), {"k": "frag", "name": uid, "on": root, "dirs": [], "sels": [a, b]})
        sels = [{"k": "spread", "name": uid, "dirs": []}]
    elif how == "nested-fragment":
        d["defs"].insert(rng.randint(0, len(d["defs"])), {"k": "frag", "name": uid + "b", "on": root, "dirs": [], "sels": [b]})
        d["defs"].insert(rng.randint(0, len(d["defs"])), {"k": "frag", "name": uid, "on": root, "dirs": [],
                                                          "sels": [a, {"k": "spread", "name": uid + "b", "dirs": []}]})
        sels = [{"k": "spread", "name": uid, "dirs": []}]
    else:
        d["defs"].insert(rng.randint(0, len(d["defs"])), {"k": "frag", "name": uid, "on": root, "dirs": [], "sels": [b]})
        sels = [a, {"k": "spread", "name": uid, "dirs": []}]
        rng.shuffle(sels)
    d["defs"].insert(rng.randint(0, len(d["defs"])), {"k": "op", "op": "subscription", "name": "SubY", "vars": [], "dirs": [], "sels": sels})
    return d, "second-root-field-through-" + how


def fields_on_correct_type(rng, sv, doc):
    d = copy.deepcopy(doc)
    p = Pos(sv, d)
    r = rng.random()
    if r < 0.5:
        cands = [(s, par) for s, par, _, _ in p.fields if s["name"] != "__typename" and par and s["alias"]]
        if cands:
            s, par = rng.choice(cands)
            s["name"] = "zzUnknown"
            return d, "renamed-field-on-" + sv.kind(par)
    cands = [(l, par) for l, par, _, _ in p.lists if par]
    l, par = rng.choice(cands)
    if sv.kind(par) == "union" or r < 0.75:
        l.insert(rng.randint(0, len(l)), mk_field({"name": "zzUnknown"}, alias="zz1"))
        return d, "added-unknown-field-on-" + sv.kind(par)
    # a field of ANOTHER type
    other = [f for t in sv.composites() if t != par for f in sv.fields(t) if not sv.field(par, f["name"])
             and sv.is_leaf(gs.ty_base(f["type"]))]
    if not other:
        l.insert(rng.randint(0, len(l)), mk_field({"name": "zzUnknown"}, alias="zz1"))
        return d, "added-unknown-field-on-" + sv.kind(par)
    l.insert(rng.randint(0, len(l)), mk_field(rng.choice(other), alias="zz1"))
    return d, "field-of-other-type-on-" + sv.kind(par)


def overlapping_fields(rng, sv, doc):
    """two fields with one response name that cannot be merged"""
    d = copy.deepcopy(doc)
    p = Pos(sv, d)
    variants = ["direct", "inline", "spread", "nested", "args", "types", "nested-spread", "nested-fragment-vs-direct",
                "nested-fragment-vs-direct", "leaf-vs-composite", "leaf-vs-composite"]
    rng.shuffle(variants)
    for v in variants:
        if v == "leaf-vs-composite":
            r = _leaf_vs_composite(rng, sv, d, p)
            if r:
                return d, r
            continue
        objlists = [(l, par, df, depth) for l, par, df, depth in p.lists if par and sv.kind(par) in ("object", "interface")
                    and not (df["k"] == "op" and df["op"] == "subscription" and depth == 0)]
        rng.shuffle(objlists)
        for l, par, df, depth in objlists:
            lf = leaf_field(sv, par, lambda f: not f.get("args"))
            if v in ("direct", "inline", "spread", "nested-spread") and len(lf) >= 2:
                f1, f2 = rng.sample(lf, 2)
                a = mk_field(f1, alias="zc")
                b = mk_field(f2, alias="zc")
                if v == "direct":
                    l.insert(rng.randint(0, len(l)), a)
                    l.insert(rng.randint(0, len(l)), b)
                elif v == "inline":
                    l.insert(rng.randint(0, len(l)), a)
                    l.insert(rng.randint(0, len(l)), {"k": "inline", "on": rng.choice([None, par]), "dirs": [], "sels": [b]})
                elif v == "spread":
                    name = rng.choice(["Zx", "Y"])
                    l.insert(rng.randint(0, len(l)), a)
                    l.insert(rng.randint(0, len(l)), {"k": "spread", "name": name, "dirs": []})
                    d["defs"].insert(rng.randint(0, len(d["defs"])), {"k": "frag", "name": name, "on": par, "dirs": [], "sels": [b]})
                else:
                    # both fields reached only through NESTED fragments: l -> P1 -> P2 {a}, l -> Q1 -> Q2 {b}
                    n = ["Zp1", "Zp2", "Zq1", "Zq2"] if rng.random() < 0.5 else ["P", "Q", "R", "S"]
                    l.insert(rng.randint(0, len(l)), {"k": "spread", "name": n[0], "dirs": []})
                    l.insert(rng.randint(0, len(l)), {"k": "spread", "name": n[2], "dirs": []})
                    new = [{"k": "frag", "name": n[0], "on": par, "dirs": [], "sels": [{"k": "spread", "name": n[1], "dirs": []}]},
                           {"k": "frag", "name": n[1], "on": par, "dirs": [], "sels": [a]},
                           {"k": "frag", "name": n[2], "on": par, "dirs": [], "sels": [{"k": "spread", "name": n[3], "dirs": []}]},
                           {"k": "frag", "name": n[3], "on": par, "dirs": [], "sels": [b]}]
                    for x in new:
                        d["defs"].insert(rng.randint(0, len(d["defs"])), x)
                    v = "nested-spread-" + ("long-names" if len(n[0]) > 1 else "one-letter-names")
                return d, v
            if v == "args":
                wa = [f for f in sv.fields(par) if sv.is_leaf(gs.ty_base(f["type"])) and any(
                    gs.ty_base(a["type"]) in ("Int", "String", "Boolean") and a["type"][0] != "list" and
                    strip(a["type"])[0] == "named" for a in f.get("args") or [])
                    and not any(a["type"][0] == "nonNull" and a.get("default") is None and
                                gs.ty_base(a["type"]) not in ("Int", "String", "Boolean") for a in f["args"])]
                if wa:
                    f = rng.choice(wa)

                    def argsv(k):
                        out = []
                        for a in f["args"]:
                            b = gs.ty_base(a["type"])
                            if b in ("Int", "String", "Boolean") and strip(a["type"])[0] == "named":
                                val = {"Int": ("int", str(k)), "String": ("str", "s%d" % k), "Boolean": ("bool", k == 1)}[b]
                                out.append({"name": a["name"], "value": val})
                            elif a["type"][0] == "nonNull" and a.get("default") is None:
                                return None
                        return out
                    a1, a2 = argsv(1), argsv(2)
                    if a1 is None:
                        continue
                    feat = "different-arguments"
                    optional = [a for a in a2 if not any(x["name"] == a["name"] and x["type"][0] == "nonNull"
                                                         and x.get("default") is None for x in f["args"])]
                    if optional and rng.random() < 0.5:
                        a2 = [a for a in a2 if a is not optional[0]]
                        feat = "different-number-of-arguments"
                    l.insert(rng.randint(0, len(l)), mk_field(f, alias="zc", args=a1))
                    l.insert(rng.randint(0, len(l)), mk_field(f, alias="zc", args=a2))
                    return d, feat
            if v == "nested-fragment-vs-direct":
                # zo: f { ...Zx }   zo: f { zc: g2 }   fragment Zx on T { zc: g1 }   (both selection orders)
                comp = [f for f in sv.fields(par) if sv.kind(gs.ty_base(f["type"])) in ("object", "interface")
                        and not f.get("args")]
                for f in comp:
                    t = gs.ty_base(f["type"])
                    inner = leaf_field(sv, t, lambda g: not g.get("args"))
                    if len(inner) >= 2:
                        g1, g2 = rng.sample(inner, 2)
                        name = rng.choice(["Zx", "Y"])
                        a = mk_field(f, alias="zo", sels=[{"k": "spread", "name": name, "dirs": []}])
                        b = mk_field(f, alias="zo", sels=[mk_field(g2, alias="zc")])
                        first_frag = rng.random() < 0.5
                        i = rng.randint(0, len(l))
                        l[i:i] = [a, b] if first_frag else [b, a]
                        d["defs"].insert(rng.randint(0, len(d["defs"])),
                                         {"k": "frag", "name": name, "on": t, "dirs": [], "sels": [mk_field(g1, alias="zc")]})
                        return d, "nested-" + ("fragment-first-direct-second" if first_frag else "direct-first-fragment-second")
            if v == "nested":
                comp = [f for f in sv.fields(par) if sv.kind(gs.ty_base(f["type"])) in ("object", "interface")
                        and not f.get("args")]
                for f in comp:
                    inner = leaf_field(sv, gs.ty_base(f["type"]), lambda g: not g.get("args"))
                    if len(inner) >= 2:
                        g1, g2 = rng.sample(inner, 2)
                        l.insert(rng.randint(0, len(l)), mk_field(f, alias="zo", sels=[mk_field(g1, alias="zc")]))
                        l.insert(rng.randint(0, len(l)), mk_field(f, alias="zo", sels=[mk_field(g2, alias="zc")]))
                        return d, "nested-subfields"
            if v == "types" and sv.kind(par) == "interface":
                # same response name under two DIFFERENT object types with conflicting leaf types
                objs = sorted(sv.possible(par))
                for i, o1 in enumerate(objs):
                    for o2 in objs[i + 1:]:
                        for f1 in leaf_field(sv, o1, lambda g: not g.get("args")):
                            for f2 in leaf_field(sv, o2, lambda g: not g.get("args")):
                                if types_conflict(f1["type"], f2["type"]):
                                    l.insert(rng.randint(0, len(l)), {"k": "inline", "on": o1, "dirs": [], "sels": [mk_field(f1, alias="zc")]})
                                    l.insert(rng.randint(0, len(l)), {"k": "inline", "on": o2, "dirs": [], "sels": [mk_field(f2, alias="zc")]})
                                    return d, "conflicting-types-exclusive-parents"
    return None


def _shape(t):
    return "N" if t[0] == "named" else t[0][0] + _shape(t[1])


def _leaf_vs_composite(rng, sv, d, p):
    """same response key under two DIFFERENT object types: a leaf field (scalar / enum) on one side, a composite field
    WITH a sub-selection on the other, both with the same list / non-null wrappers (SameResponseShape: invalid);
    inline fragments or named fragments, either order"""
    lists = [(l, par) for l, par, df, depth in p.lists if par and sv.kind(par) in ("interface", "union")]
    rng.shuffle(lists)
    noreq = lambda f: not any(a["type"][0] == "nonNull" and a.get("default") is None for a in f.get("args") or [])
    for l, par in lists:
        objs = sorted(sv.possible(par))
        pairs = []
        for o1 in objs:
            for o2 in objs:
                if o1 == o2:
                    continue
                for f1 in sv.fields(o1):
                    if not (sv.is_leaf(gs.ty_base(f1["type"])) and noreq(f1)):
                        continue
                    for f2 in sv.fields(o2):
                        if sv.is_composite(gs.ty_base(f2["type"])) and noreq(f2) and _shape(f1["type"]) == _shape(f2["type"]):
                            pairs.append((o1, f1, o2, f2))
        if not pairs:
            continue
        o1, f1, o2, f2 = rng.choice(pairs)
        leaf = mk_field(f1, alias="zc")
        comp = mk_field(f2, alias="zc", sels=[typename()])
        leaf_kind = sv.kind(gs.ty_base(f1["type"]))
        comp_kind = sv.kind(gs.ty_base(f2["type"]))
        named = rng.random() < 0.5
        if named:
            n1, n2 = rng.choice([("Zl", "Zk"), ("L", "K")])
            a = {"k": "spread", "name": n1, "dirs": []}
            b = {"k": "spread", "name": n2, "dirs": []}
            d["defs"].insert(rng.randint(0, len(d["defs"])), {"k": "frag", "name": n1, "on": o1, "dirs": [], "sels": [leaf]})
            d["defs"].insert(rng.randint(0, len(d["defs"])), {"k": "frag", "name": n2, "on": o2, "dirs": [], "sels": [comp]})
        else:
            a = {"k": "inline", "on": o1, "dirs": [], "sels": [leaf]}
            b = {"k": "inline", "on": o2, "dirs": [], "sels": [comp]}
        leaf_first = rng.random() < 0.5
        i = rng.randint(0, len(l))
        l[i:i] = [a, b] if leaf_first else [b, a]
        return "%s-leaf-vs-%s-composite-%s-%s" % (leaf_kind, comp_kind, "fragments" if named else "inline",
                                                   "leaf-first" if leaf_first else "composite-first")
    return None


def strip(t):
    return t[1] if t[0] == "nonNull" else t


def types_conflict(a, b):
    if a[0] != "named" or b[0] != "named":
        return a[0] != b[0] or types_conflict(a[1], b[1])
    return a != b


def leaf_field_selections(rng, sv, doc):
    d = copy.deepcopy(doc)
    p = Pos(sv, d)
    if rng.random() < 0.5:
        cands = [(s, par) for s, par, _, _ in p.fields if s["sels"] is None and s["name"] != "__typename" and par]
        if cands:
            s, par = rng.choice(cands)
            s["sels"] = [typename()]
            return d, "selection-on-leaf"
    # a composite field WITHOUT selection (added, so that nothing else becomes unused)
    lists = [(l, par) for l, par, _, _ in p.lists if par]
    rng.shuffle(lists)
    for l, par in lists:
        comp = [f for f in sv.fields(par) if sv.is_composite(gs.ty_base(f["type"])) and
                not any(a["type"][0] == "nonNull" and a.get("default") is None for a in f.get("args") or [])]
        if comp:
            l.insert(rng.randint(0, len(l)), mk_field(rng.choice(comp), alias="zz1"))
            return d, "no-selection-on-composite"
    cands = [(s, par) for s, par, _, _ in p.fields if s["sels"] is None and s["name"] != "__typename" and par]
    if cands:
        s, par = rng.choice(cands)
        s["sels"] = [typename()]
        return d, "selection-on-leaf"
    return None


def _arg_sites(sv, d):
    """(node with 'args', list of argument definitions, kind)"""
    p = Pos(sv, d)
    out = []
    for s, par, _, _ in p.fields:
        f = p.fielddef(s, par)
        if f is not None:
            out.append((s, f.get("args") or [], "field"))
    for dr in vo.all_dirs(d):
        if dr["name"] in sv.directives:
            out.append((dr, sv.directives[dr["name"]]["args"], "directive"))
    return out


def known_argument_names(rng, sv, doc):
    d = copy.deepcopy(doc)
    sites = _arg_sites(sv, d)
    if not sites:
        return None
    node, defs, kind = rng.choice(sites)
    node["args"].insert(rng.randint(0, len(node["args"])), {"name": "zzArg", "value": ("int", "1")})
    return d, "unknown-argument-on-" + kind


def unique_argument_names(rng, sv, doc):
    d = copy.deepcopy(doc)
    sites = [(n, df, k) for n, df, k in _arg_sites(sv, d) if n["args"]]
    if not sites:
        # add a @skip(if: true, if: true) on some field
        p = Pos(sv, d)
        s = rng.choice(p.fields)[0]
        if any(x["name"] == "skip" for x in s["dirs"]):
            return None
        s["dirs"].append({"name": "skip", "args": [{"name": "if", "value": ("bool", True)}, {"name": "if", "value": ("bool", True)}]})
        return d, "duplicated-on-new-directive"
    node, defs, kind = rng.choice(sites)
    a = copy.deepcopy(rng.choice(node["args"]))
    node["args"].insert(rng.randint(0, len(node["args"])), a)
    return d, "duplicated-argument-on-" + kind


def provided_required_arguments(rng, sv, doc):
    d = copy.deepcopy(doc)
    sites = []
    for node, defs, kind in _arg_sites(sv, d):
        for a in node["args"]:
            ad = [x for x in defs if x["name"] == a["name"]]
            if ad and ad[0]["type"][0] == "nonNull" and ad[0].get("default") is None and a["value"][0] != "var":
                sites.append((node, a, kind))
    if sites and rng.random() < 0.7:
        node, a, kind = rng.choice(sites)
        node["args"].remove(a)
        return d, "removed-required-argument-of-" + kind
    p = Pos(sv, d)
    cands = [s for s, _, _, _ in p.fields if not any(x["name"] == "skip" for x in s["dirs"])]
    if not cands:
        return None
    rng.choice(cands)["dirs"].append({"name": "skip", "args": []})
    return d, "directive-without-required-argument"


def unique_fragment_names(rng, sv, doc):
    d = copy.deepcopy(doc)
    fs = frags(d)
    if not fs:
        return None
    c = copy.deepcopy(rng.choice(fs))
    d["defs"].insert(rng.randint(0, len(d["defs"])), c)
    return d, "copied-fragment"


def _use_var(sv, o, name):
    """use variable `name` as a directive argument somewhere inside operation `o`"""
    fs = Pos(sv, {"defs": [o]}).fields
    cands = [f[0] for f in fs if not any(x["name"] in ("skip", "include") for x in f[0]["dirs"])]
    if cands:
        cands[0]["dirs"].append({"name": "include", "args": [{"name": "if", "value": ("var", name)}]})
    elif o["op"] != "subscription":
        t = typename("zzt")
        t["dirs"].append({"name": "include", "args": [{"name": "if", "value": ("var", name)}]})
        o["sels"].append(t)


def known_type_names(rng, sv, doc):
    """an unknown type in a variable definition"""
    d = copy.deepcopy(doc)
    os_ = [o for o in ops(d)]
    o = rng.choice(os_)
    o["long"] = True
    t = rng.choice([("named", "ZzUnknown"), ("list", ("named", "ZzUnknown")), ("nonNull", ("named", "ZzUnknown"))])
    o["vars"].insert(rng.randint(0, len(o["vars"])), {"name": "zzv", "type": t, "default": None})
    # use it, so that only the type is wrong
    _use_var(sv, o, "zzv")
    return d, "variable-of-unknown-type"


def fragment_spread_type_existence(rng, sv, doc):
    """spec 5.5.1.2: the type condition names a type that does not exist (V1: validation raises today)"""
    d = copy.deepcopy(doc)
    p = Pos(sv, d)
    if p.inlines and rng.random() < 0.5:
        rng.choice(p.inlines)[0]["on"] = "ZzUnknown"
        return d, "inline-fragment-on-unknown-type"
    fs = frags(d)
    if fs:
        rng.choice(fs)["on"] = "ZzUnknown"
        return d, "fragment-on-unknown-type"
    l = rng.choice(p.lists)[0]
    l.append({"k": "inline", "on": "ZzUnknown", "dirs": [], "sels": [typename()]})
    return d, "inline-fragment-on-unknown-type"


def fragments_on_composite_types(rng, sv, doc):
    d = copy.deepcopy(doc)
    p = Pos(sv, d)
    non = ["Int", "String", "Boolean"] + [t["name"] for t in sv.desc["types"] if t["kind"] in ("enum", "input", "scalar")]
    t = rng.choice(non)
    if rng.random() < 0.5:
        l = rng.choice(p.lists)[0]
        l.insert(rng.randint(0, len(l)), {"k": "inline", "on": t, "dirs": [], "sels": [typename()]})
        return d, "inline-on-" + (sv.kind(t) or "scalar")
    l = rng.choice(p.lists)[0]
    l.insert(rng.randint(0, len(l)), {"k": "spread", "name": "Zx", "dirs": []})
    d["defs"].insert(rng.randint(0, len(d["defs"])), {"k": "frag", "name": "Zx", "on": t, "dirs": [], "sels": [typename()]})
    return d, "fragment-on-" + (sv.kind(t) or "scalar")


def no_unused_fragments(rng, sv, doc):
    d = copy.deepcopy(doc)
    on = rng.choice(sv.composites())
    new = [{"k": "frag", "name": "Zu", "on": on, "dirs": [], "sels": [typename()]}]
    feat = "unused-fragment"
    if rng.random() < 0.3:
        # an unused fragment spreading another fragment that nothing else uses (V6: counted as used)
        new[0]["sels"].append({"k": "spread", "name": "Zu2", "dirs": []})
        new.append({"k": "frag", "name": "Zu2", "on": on, "dirs": [], "sels": [typename()]})
        feat = "unused-chain"
    for x in new:
        d["defs"].insert(rng.randint(0, len(d["defs"])), x)
    return d, feat


def known_fragment_names(rng, sv, doc):
    d = copy.deepcopy(doc)
    p = Pos(sv, d)
    l = rng.choice(p.lists)[0]
    defined = {x["name"] for x in frags(d)}
    name = rng.choice([n for n in ["ZzUndefined", "Zx", "A", "B", "Fr1", "Fr2", "Y"] if n not in defined])
    l.insert(rng.randint(0, len(l)), {"k": "spread", "name": name, "dirs": []})
    return d, "undefined-fragment"


def no_fragment_cycles(rng, sv, doc):
    d = copy.deepcopy(doc)
    fs = frags(d)
    if fs and rng.random() < 0.4:
        f = rng.choice(fs)
        f["sels"].insert(rng.randint(0, len(f["sels"])), {"k": "spread", "name": f["name"], "dirs": []})
        return d, "self-spread"
    # a fresh 2- or 3-cycle reachable from an operation
    o = rng.choice(ops(d))
    root = sv.root(o["op"])
    if o["op"] == "subscription":
        return None
    k = rng.choice([1, 2, 3])
    names = ["Zc%d" % i for i in range(k)] if rng.random() < 0.5 else list("XYZ")[:k]
    o["sels"].append({"k": "spread", "name": names[0], "dirs": []})
    for i, n in enumerate(names):
        d["defs"].insert(rng.randint(0, len(d["defs"])),
                         {"k": "frag", "name": n, "on": root, "dirs": [],
                          "sels": [typename(), {"k": "spread", "name": names[(i + 1) % k], "dirs": []}]})
    return d, "cycle-of-%d" % k


def no_fragment_cycles_entry(rng, sv, doc):
    """an ACYCLIC entry chain E0 > .. > E(e-1) (length 1-3) leading INTO a cycle C0 > .. > C(c-1) > C0 (length 1-3);
    only E0 is spread by an operation. A search that prunes every fragment reached from an entry that is not itself on
    a cycle never starts from C0. All relative definition orders occur: entry first, cycle first, interleaved."""
    d = copy.deepcopy(doc)
    cands = [o for o in ops(d) if o["op"] != "subscription"]
    if not cands:
        return None
    o = rng.choice(cands)
    root = sv.root(o["op"])
    e, c = rng.choice([1, 2, 3]), rng.choice([1, 2, 3])
    uid = rng.randint(0, 99)
    entry = ["Ze%d_%d" % (uid, i) for i in range(e)]
    cyc = ["Zy%d_%d" % (uid, i) for i in range(c)]
    new = []
    for i, n in enumerate(entry):
        nxt = entry[i + 1] if i + 1 < e else cyc[0]
        new.append({"k": "frag", "name": n, "on": root, "dirs": [], "sels": [typename(), {"k": "spread", "name": nxt, "dirs": []}]})
    for i, n in enumerate(cyc):
        new.append({"k": "frag", "name": n, "on": root, "dirs": [],
                    "sels": [typename(), {"k": "spread", "name": cyc[(i + 1) % c], "dirs": []}]})
    order = rng.choice(["entry-first", "cycle-first", "shuffled"])
    if order == "cycle-first":
        new = new[e:] + new[:e]
    elif order == "shuffled":
        rng.shuffle(new)
    o["sels"].append({"k": "spread", "name": entry[0], "dirs": []})
    # keep the relative order of the new definitions; place them among the old ones (entry-first: before all old
    # fragment definitions half of the time, so that the entry is the first search root)
    if rng.random() < 0.5:
        first_frag = next((i for i, x in enumerate(d["defs"]) if x["k"] == "frag"), len(d["defs"]))
        d["defs"][first_frag:first_frag] = new
    else:
        slots = sorted(rng.randint(0, len(d["defs"])) for _ in new)
        for off, (s, x) in enumerate(zip(slots, new)):
            d["defs"].insert(s + off, x)
    return d, "entry-%d-into-cycle-of-%d-%s" % (e, c, order)


def no_fragment_cycles_below_field(rng, sv, doc):
    """hunt2 C05/1: a fragment cycle that passes through the SUB-SELECTION of a field (`F on T { f { g { ...F } ...F } }`,
    self-spread or two mutually spreading fragments, depth 1-3, spread at every level / first / innermost only).
    Needs a type T with a field whose type overlaps T (then the same step can be repeated)."""
    d = copy.deepcopy(doc)
    p = Pos(sv, d)
    places = [(sels, par) for sels, par, df, _ in p.lists if df["k"] == "op" and df["op"] != "subscription" or df["k"] == "frag"]
    rng.shuffle(places)
    for sels, par in places:
        steps = []
        for T in sv.composites():
            if not sv.overlap(T, par):
                continue
            for f in sv.fields(T):
                U = gs.ty_base(f["type"])
                if sv.is_composite(U) and sv.overlap(U, T):
                    # further steps: fields of U whose type overlaps T again (U itself when U == T)
                    nxt = [g for g in sv.fields(U) if sv.is_composite(gs.ty_base(g["type"])) and
                           sv.overlap(gs.ty_base(g["type"]), T) and gs.ty_base(g["type"]) == U]
                    steps.append((T, f, U, nxt))
        if not steps:
            continue
        T, f, U, nxt = rng.choice(steps)

        def fld(fd):
            args = []
            for a in fd.get("args") or []:
                if a["type"][0] == "nonNull" and a.get("default") is None:
                    lit = _good_literal(sv, a["type"])
                    if lit is None:
                        return None
                    args.append({"name": a["name"], "value": lit})
            return mk_field(fd, args=args)
        depth = rng.choice([1, 2, 3]) if nxt else 1
        shape = rng.choice(["every-level", "spread-first", "innermost"])
        mutual = rng.random() < 0.4
        uid = rng.randint(0, 99)
        names = ["Zb%d" % uid, "Zq%d" % uid] if mutual else ["Zb%d" % uid]

        def body(target):
            chain = [f] + [rng.choice(nxt) for _ in range(depth - 1)]
            inner = None
            for lvl, fd in enumerate(reversed(chain)):       # innermost first
                node = fld(fd)
                if node is None:
                    return None
                sp = {"k": "spread", "name": target, "dirs": []}
                own = [] if inner is None else [inner]
                if inner is None or shape != "innermost":
                    own = ([sp] + own) if shape == "spread-first" else (own + [sp])
                node["sels"] = own
                inner = node
            return [inner]
        new = []
        for i, n in enumerate(names):
            b = body(names[(i + 1) % len(names)])
            if b is None:
                return None
            new.append({"k": "frag", "name": n, "on": T, "dirs": [], "sels": b})
        sels.append({"k": "spread", "name": names[0], "dirs": []})
        for x in new:
            d["defs"].insert(rng.randint(0, len(d["defs"])), x)
        return d, "cycle-below-field:%s:%s:depth%d" % ("mutual" if mutual else "self", shape, depth)
    return None


def possible_fragment_spreads(rng, sv, doc):
    d = copy.deepcopy(doc)
    p = Pos(sv, d)
    lists = [(l, par) for l, par, _, _ in p.lists if par]
    rng.shuffle(lists)
    for l, par in lists:
        others = [c for c in sv.composites() if not sv.overlap(c, par)]
        if others:
            t = rng.choice(others)
            if rng.random() < 0.5:
                l.insert(rng.randint(0, len(l)), {"k": "inline", "on": t, "dirs": [], "sels": [typename()]})
                return d, "inline-%s-in-%s" % (sv.kind(t), sv.kind(par))
            l.insert(rng.randint(0, len(l)), {"k": "spread", "name": "Zx", "dirs": []})
            d["defs"].insert(rng.randint(0, len(d["defs"])), {"k": "frag", "name": "Zx", "on": t, "dirs": [], "sels": [typename()]})
            return d, "spread-%s-in-%s" % (sv.kind(t), sv.kind(par))
    return None


def _bad_literal(rng, sv, t):
    """(literal NOT of type t, feature) or None"""
    if t[0] == "nonNull":
        if rng.random() < 0.3:
            return ("null",), "null-for-non-null"
        return _bad_literal(rng, sv, t[1])
    if t[0] == "list":
        r = _bad_literal(rng, sv, t[1])
        if r is None:
            return None
        v, f = r
        if f.startswith("null-for-non-null"):
            return ("list", [v]), f + "-in-list"      # a bare `null` would be a valid null LIST
        return (("list", [v]), f + "-in-list") if rng.random() < 0.7 else (v, f + "-as-single-item")
    b = t[1]
    k = sv.kind(b)
    if b in ("Int", "String", "Boolean") and rng.random() < 0.12:
        good = {"Int": ("int", "1"), "String": ("str", "s"), "Boolean": ("bool", True)}[b]
        return ("list", [good]), "list-literal-for-non-list"
    if b == "Int":
        return rng.choice([(("str", "x"), "string-for-Int"), (("float", "1.5"), "float-for-Int"), (("bool", True), "boolean-for-Int"),
                           (("int", "2147483648"), "out-of-range-Int"), (("enum", "FOO"), "enum-for-Int")])
    if b == "Float":
        return rng.choice([(("str", "x"), "string-for-Float"), (("bool", True), "boolean-for-Float")])
    if b == "String":
        return rng.choice([(("int", "1"), "int-for-String"), (("bool", True), "boolean-for-String"), (("enum", "FOO"), "enum-for-String")])
    if b == "Boolean":
        return rng.choice([(("int", "1"), "int-for-Boolean"), (("str", "true"), "string-for-Boolean")])
    if b == "ID":
        return rng.choice([(("float", "1.5"), "float-for-ID"), (("bool", True), "boolean-for-ID")])
    if k == "enum":
        return rng.choice([(("enum", "ZZ_UNKNOWN"), "unknown-enum-value"), (("str", "E"), "string-for-enum"), (("int", "1"), "int-for-enum")])
    if k == "input":
        req = [f for f in sv.types[b]["fields"] if f["type"][0] == "nonNull" and f.get("default") is None]
        if not req:
            return rng.choice([(("int", "1"), "int-for-input-object"), (("str", "x"), "string-for-input-object")])
        return ("obj", []), "missing-required-input-field"
    return None   # custom scalars accept every scalar literal


def values_of_correct_type(rng, sv, doc):
    d = copy.deepcopy(doc)
    sites = []
    for node, defs, kind in _arg_sites(sv, d):
        for a in node["args"]:
            ad = [x for x in defs if x["name"] == a["name"]]
            if ad and a["value"][0] != "var":
                sites.append((a, ad[0]["type"], kind))
    rng.shuffle(sites)
    for a, t, kind in sites:
        r = _bad_literal(rng, sv, t)
        if r:
            a["value"] = r[0]
            return d, r[1] + "@" + kind + "-argument"
    # fall back: @skip(if: "x")
    p = Pos(sv, d)
    cands = [s for s, _, _, _ in p.fields if not any(x["name"] == "skip" for x in s["dirs"])]
    if not cands:
        return None
    rng.choice(cands)["dirs"].append({"name": "skip", "args": [{"name": "if", "value": ("str", "x")}]})
    return d, "string-for-Boolean@directive-argument"


def _obj_sites(sv, d):
    """(object literal value holder, input type name): holder = (container, key) with container[key] = ('obj', fields)"""
    out = []

    def scan(container, key, t):
        v = container[key]
        t = strip(t)
        if v[0] == "list" and t[0] == "list":
            for i in range(len(v[1])):
                scan(v[1], i, t[1])
        elif v[0] == "obj" and t[0] == "named" and sv.kind(t[1]) == "input":
            out.append((container, key, t[1]))
    for node, defs, kind in _arg_sites(sv, d):
        for a in node["args"]:
            ad = [x for x in defs if x["name"] == a["name"]]
            if ad:
                scan(a, "value", ad[0]["type"])
    return out


def _ensure_obj_site(rng, sv, d):
    sites = _obj_sites(sv, d)
    if sites:
        return sites
    # add a field with an input-object argument
    p = Pos(sv, d)
    lists = [(l, par) for l, par, _, _ in p.lists if par]
    rng.shuffle(lists)
    for l, par in lists:
        for f in sv.fields(par):
            if not sv.is_leaf(gs.ty_base(f["type"])):
                continue
            args = []
            hit = False
            okf = True
            for a in f.get("args") or []:
                st = strip(a["type"])
                if st[0] == "named" and sv.kind(st[1]) == "input" and not hit:
                    it = sv.types[st[1]]
                    fs = []
                    for g in it["fields"]:
                        if g["type"][0] == "nonNull" and g.get("default") is None:
                            lit = _good_literal(sv, g["type"])
                            if lit is None:
                                okf = False
                            fs.append((g["name"], lit))
                    args.append({"name": a["name"], "value": ("obj", fs)})
                    hit = True
                elif a["type"][0] == "nonNull" and a.get("default") is None:
                    lit = _good_literal(sv, a["type"])
                    if lit is None:
                        okf = False
                    args.append({"name": a["name"], "value": lit})
            if hit and okf:
                l.insert(rng.randint(0, len(l)), mk_field(f, alias="zz1", args=args))
                return _obj_sites(sv, d)
    return []


def _good_literal(sv, t):
    t = strip(t)
    if t[0] == "list":
        return ("list", [])
    b = t[1]
    k = sv.kind(b)
    if b in ("Int", "ID") or (k == "scalar" and b not in vo.SCALARS):
        return ("int", "1")
    if b == "Float":
        return ("float", "1.5")
    if b == "String":
        return ("str", "s")
    if b == "Boolean":
        return ("bool", True)
    if k == "enum":
        return ("enum", sv.types[b]["values"][0]["name"])
    if k == "input":
        fs = []
        for g in sv.types[b]["fields"]:
            if g["type"][0] == "nonNull" and g.get("default") is None:
                lit = _good_literal(sv, g["type"])
                if lit is None:
                    return None
                fs.append((g["name"], lit))
        return ("obj", fs)
    return None


def input_object_field_names(rng, sv, doc):
    d = copy.deepcopy(doc)
    sites = _ensure_obj_site(rng, sv, d)
    if not sites:
        return None
    c, k, t = rng.choice(sites)
    fs = list(c[k][1])
    fs.insert(rng.randint(0, len(fs)), ("zzField", ("int", "1")))
    c[k] = ("obj", fs)
    return d, "unknown-input-field"


def input_object_field_uniqueness(rng, sv, doc):
    d = copy.deepcopy(doc)
    sites = [s for s in _ensure_obj_site(rng, sv, d) if s[0][s[1]][1]]
    if not sites:
        return None
    c, k, t = rng.choice(sites)
    fs = list(c[k][1])
    fs.insert(rng.randint(0, len(fs)), copy.deepcopy(rng.choice(fs)))
    c[k] = ("obj", fs)
    return d, "duplicated-input-field"


BUILTIN_SCALARS = ("Int", "Float", "String", "Boolean", "ID")


def input_field_uniqueness_in_custom_scalar(rng, sv, doc):
    """a duplicated key inside an object literal given where a CUSTOM SCALAR is expected (hunt2 C06/1: the values rule
    accepted the literal and raised SkipNode, hiding the duplicate from UniqueInputFieldNamesChecker)"""
    d = copy.deepcopy(doc)
    p = Pos(sv, d)
    cands = []
    for s, par, df, _ in p.fields:
        f = p.fielddef(s, par)
        for ad in (f.get("args") or []) if f else []:
            b = gs.ty_base(ad["type"])
            if sv.kind(b) == "scalar" and b not in BUILTIN_SCALARS and strip(ad["type"])[0] == "named":
                cands.append((s, ad))
    if not cands:
        return None
    s, ad = rng.choice(cands)
    dup = ("obj", [("k", ("int", "1")), ("j", ("str", "x")), ("k", ("int", "2"))])
    val = dup if rng.random() < 0.6 else ("obj", [("outer", dup)])
    s["args"] = [a for a in s["args"] if a["name"] != ad["name"]] + [{"name": ad["name"], "value": val}]
    return d, "duplicated-input-field-inside-custom-scalar-object"


def directives_are_defined(rng, sv, doc):
    d = copy.deepcopy(doc)
    p = Pos(sv, d)
    r = rng.random()
    if r < 0.6:
        rng.choice(p.fields)[0]["dirs"].append({"name": "zzUnknown", "args": []})
        return d, "unknown-directive-on-field"
    x = rng.choice(ops(d) + frags(d))
    if x["k"] == "op":
        x["long"] = True
    x["dirs"].append({"name": "zzUnknown", "args": []})
    return d, "unknown-directive-on-definition"


def directives_in_valid_locations(rng, sv, doc):
    d = copy.deepcopy(doc)
    p = Pos(sv, d)
    x = rng.choice(ops(d) + frags(d))
    if rng.random() < 0.6 or not sv.desc["directives"]:
        if x["k"] == "op":
            x["long"] = True
        x["dirs"].append({"name": "skip", "args": [{"name": "if", "value": ("bool", True)}]})
        return d, "skip-on-" + ("operation" if x["k"] == "op" else "fragment-definition")
    # a schema directive at a location it does not list
    locs = {"FIELD": [s for s, _, _, _ in p.fields], "FRAGMENT_SPREAD": [s for s, _, _, _ in p.spreads],
            "INLINE_FRAGMENT": [s for s, _, _, _ in p.inlines]}
    for dd in sv.desc["directives"]:
        if any(a["type"][0] == "nonNull" and a.get("default") is None for a in dd["args"]):
            continue
        for loc, nodes in locs.items():
            if loc not in dd["locations"] and nodes:
                n = rng.choice(nodes)
                if not any(y["name"] == dd["name"] for y in n["dirs"]):
                    n["dirs"].append({"name": dd["name"], "args": []})
                    return d, "schema-directive-on-" + loc
    if x["k"] == "op":
        x["long"] = True
    x["dirs"].append({"name": "include", "args": [{"name": "if", "value": ("bool", True)}]})
    return d, "include-on-" + ("operation" if x["k"] == "op" else "fragment-definition")


def unique_directives_per_location(rng, sv, doc):
    d = copy.deepcopy(doc)
    p = Pos(sv, d)
    withd = [s for s, _, _, _ in p.fields + p.spreads + p.inlines if s["dirs"]]
    if withd and rng.random() < 0.6:
        s = rng.choice(withd)
        s["dirs"].insert(rng.randint(0, len(s["dirs"])), copy.deepcopy(rng.choice(s["dirs"])))
        return d, "copied-directive"
    s = rng.choice(p.fields)[0]
    if any(x["name"] == "include" for x in s["dirs"]):
        return None
    for _ in range(2):
        s["dirs"].append({"name": "include", "args": [{"name": "if", "value": ("bool", True)}]})
    return d, "include-twice"


def unique_variable_names(rng, sv, doc):
    d = copy.deepcopy(doc)
    withv = [o for o in ops(d) if o["vars"]]
    if not withv:
        o = rng.choice(ops(d))
        o["long"] = True
        _use_var(sv, o, "zzv")
        for _ in range(2):
            o["vars"].append({"name": "zzv", "type": ("nonNull", ("named", "Boolean")), "default": None})
        return d, "new-variable-twice"
    o = rng.choice(withv)
    o["vars"].insert(rng.randint(0, len(o["vars"])), copy.deepcopy(rng.choice(o["vars"])))
    return d, "copied-variable-definition"


def variables_are_input_types(rng, sv, doc):
    d = copy.deepcopy(doc)
    o = rng.choice(ops(d))
    o["long"] = True
    t = rng.choice(sv.composites())
    ty = rng.choice([("named", t), ("list", ("named", t)), ("nonNull", ("named", t))])
    o["vars"].insert(rng.randint(0, len(o["vars"])), {"name": "zzv", "type": ty, "default": None})
    _use_var(sv, o, "zzv")
    return d, "variable-of-%s-type" % sv.kind(t)


def _var_use_sites(sv, d):
    """(container dict, key, position type, has default, scope definition) for every argument value"""
    out = []
    p = Pos(sv, d)
    for s, par, df, _ in p.fields:
        f = p.fielddef(s, par)
        if f:
            for a in s["args"]:
                ad = [x for x in f.get("args") or [] if x["name"] == a["name"]]
                if ad:
                    out.append((a, "value", ad[0]["type"], ad[0].get("default") is not None, df))
    return out


def all_variable_uses_defined(rng, sv, doc):
    d = copy.deepcopy(doc)
    withv = [o for o in ops(d) if o["vars"]]
    if withv and rng.random() < 0.5:
        o = rng.choice(withv)
        v = rng.choice(o["vars"])
        o["vars"].remove(v)
        return d, "removed-definition"
    p = Pos(sv, d)
    s, par, df, _ = rng.choice(p.fields)
    if any(x["name"] in ("skip", "include") for x in s["dirs"]):
        return None
    s["dirs"].append({"name": "include", "args": [{"name": "if", "value": ("var", "zzUndefined")}]})
    return d, "undefined-variable-in-" + ("operation" if df["k"] == "op" else "fragment")


def all_variables_used(rng, sv, doc):
    d = copy.deepcopy(doc)
    o = rng.choice(ops(d))
    o["long"] = True
    o["vars"].insert(rng.randint(0, len(o["vars"])), {"name": "zzUnused", "type": ("named", "Int"), "default": None})
    return d, "unused-variable"


def variable_usages_allowed(rng, sv, doc):
    d = copy.deepcopy(doc)
    # variant A (V3): a variable that already has a VALID usage gets a second, incompatible usage in the same scope
    sites = _var_use_sites(sv, d)
    r = rng.random()
    if r < 0.5:
        used = [(c, k, t, hd, df) for c, k, t, hd, df in sites if c[k][0] == "var"]
        rng.shuffle(used)
        for c, k, t, hd, df in used:
            name = c[k][1]
            decl = None
            for o in ops(d):
                for v in o["vars"]:
                    if v["name"] == name:
                        decl = v
            if decl is None:
                continue
            for c2, k2, t2, hd2, df2 in sites:
                if df2 is df and c2 is not c and c2[k2][0] != "var" and not vo.var_allowed(
                        decl["type"], decl["default"] not in (None, ("null",)), t2, hd2) and _clear_base(decl["type"], t2):
                    c2[k2] = ("var", name)
                    return d, "second-usage-of-used-variable"
    # variant B: a fresh variable of the wrong type at an argument position
    cand = [(c, k, t, hd, df) for c, k, t, hd, df in sites if c[k][0] != "var"]
    rng.shuffle(cand)
    for c, k, t, hd, df in cand:
        wrong = _wrong_var_type(rng, sv, t, hd)
        if wrong is None:
            continue
        reach = _ops_reaching(d, df)
        for o in reach:
            o["long"] = True
            o["vars"].append({"name": "zzv", "type": wrong[0], "default": None})
        c[k] = ("var", "zzv")
        return d, wrong[1]
    # variant C: String variable at @include(if:)
    p = Pos(sv, d)
    s, par, df, _ = rng.choice(p.fields)
    if any(x["name"] in ("skip", "include") for x in s["dirs"]):
        return None
    for o in _ops_reaching(d, df):
        o["long"] = True
        o["vars"].append({"name": "zzv", "type": ("named", "String"), "default": None})
    s["dirs"].append({"name": "include", "args": [{"name": "if", "value": ("var", "zzv")}]})
    return d, "String-variable-at-Boolean-directive-argument"


def _has_var(v):
    if v[0] == "var":
        return True
    if v[0] == "list":
        return any(_has_var(x) for x in v[1])
    if v[0] == "obj":
        return any(_has_var(x) for _, x in v[1])
    return False


def _item_paths(sv, t, nlist=0, nobj=0):
    """positions INSIDE a literal of type t that lie below at least one list literal (at most two list levels, one
    object level): (wrap: value at the position -> whole literal, position type, position has default, #lists, #objects)"""
    out = []
    st = strip(t)
    if st[0] == "list":
        if nlist < 2:
            it = st[1]
            out.append((lambda v: ("list", [v]), it, False, nlist + 1, nobj))
            for w2, t2, hd2, a, b in _item_paths(sv, it, nlist + 1, nobj):
                out.append((lambda v, w2=w2: ("list", [w2(v)]), t2, hd2, a, b))
    elif sv.kind(st[1]) == "input" and nobj < 1:
        fields = sv.types[st[1]]["fields"]
        for f in fields:
            others = []
            for g in fields:
                if g is not f and g["type"][0] == "nonNull" and g.get("default") is None:
                    lit = _good_literal(sv, g["type"])
                    if lit is None:
                        others = None
                        break
                    others.append((g["name"], lit))
            if others is None:
                continue

            def wobj(v, f=f, others=others):
                return ("obj", [(f["name"], v)] + list(others))
            if nlist >= 1:
                out.append((wobj, f["type"], f.get("default") is not None, nlist, nobj + 1))
            for w2, t2, hd2, a, b in _item_paths(sv, f["type"], nlist, nobj + 1):
                out.append((lambda v, w2=w2, wobj=wobj: wobj(w2(v)), t2, hd2, a, b))
    return out


def variable_in_list_literal(rng, sv, doc):
    """5.8.5 INSIDE list literals (hunt C06/2): a fresh variable as an item of a list literal (depth 1 or 2, possibly in
    a field of an object inside the list) whose type is too shallow / too deep for the item position, or nullable where
    the item position is non-null"""
    d = copy.deepcopy(doc)
    p = Pos(sv, d)
    sites = []    # (set value fn, position type, scope definition)
    for s, par, df, _ in p.fields:
        f = p.fielddef(s, par)
        if not f:
            continue
        given = {a["name"]: a for a in s["args"]}
        for ad in f.get("args") or []:
            a = given.get(ad["name"])
            if a is not None and _has_var(a["value"]):
                continue
            sites.append((s, ad, a, df))
    cands = {}    # kind of mismatch -> [(site, wrap, variable type, #lists, #objects)]
    for site in sites:
        for wrap, pt, hd, nl, no in _item_paths(sv, site[1]["type"]):
            opts = []
            sp = strip(pt)
            if pt[0] == "nonNull" and not hd:
                opts.append((pt[1], "nullable-for-non-null"))
            if sp[0] == "list":
                opts.append((("named", gs.ty_base(sp)), "too-shallow"))
            else:
                opts.append((("list", sp), "too-deep"))
            for vt, what in opts:
                if not vo.var_allowed(vt, False, pt, hd):
                    cands.setdefault((what, nl), []).append((site, wrap, vt, nl, no))
    if not cands:
        return None
    # every kind of mismatch and both depths equally often (not: as often as the schemas offer them)
    what, _ = key = rng.choice(sorted(cands))
    (s, ad, a, df), wrap, vt, nl, no = rng.choice(cands[key])
    val = wrap(("var", "zzv"))
    if a is None:
        s["args"].append({"name": ad["name"], "value": val})
    else:
        a["value"] = val
    for o in _ops_reaching(d, df):
        o["long"] = True
        o["vars"].append({"name": "zzv", "type": vt, "default": None})
    return d, "var-in-list:depth%d%s:%s" % (nl, ":object-field" if no else "", what)


def variable_in_list_at_custom_scalar(rng, sv, doc):
    """`f(sc: [ $v ])` with `sc: Sc` an SDL custom scalar and `$v: Int`: the items of a list literal written at a
    non-list position are typed with the position's nullable type (graphql-js parity), so 5.8.5 is violated"""
    d = copy.deepcopy(doc)
    p = Pos(sv, d)
    sites = []
    for s, par, df, _ in p.fields:
        f = p.fielddef(s, par)
        if not f:
            continue
        given = {a["name"]: a for a in s["args"]}
        for ad in f.get("args") or []:
            st = strip(ad["type"])
            a = given.get(ad["name"])
            if st[0] == "named" and sv.kind(st[1]) == "scalar" and st[1] not in vo.SCALARS and not (a and _has_var(a["value"])):
                sites.append((s, ad, a, df))
    if not sites:
        return None
    s, ad, a, df = rng.choice(sites)
    vt, what = rng.choice([(("named", "Int"), "Int"), (("list", strip(ad["type"])), "list-of-the-scalar")])
    val = ("list", [("var", "zzv")])
    if a is None:
        s["args"].append({"name": ad["name"], "value": val})
    else:
        a["value"] = val
    for o in _ops_reaching(d, df):
        o["long"] = True
        o["vars"].append({"name": "zzv", "type": vt, "default": None})
    return d, "var-in-list-at-custom-scalar:" + what


def _clear_base(vt, lt):
    return True


def _wrong_var_type(rng, sv, t, has_default):
    """a variable type NOT allowed at position type t"""
    opts = []
    b = gs.ty_base(t)
    other = "String" if b != "String" else "Int"
    opts.append((_rebase(t, other), "other-base-type"))
    if t[0] == "nonNull" and not has_default:
        opts.append((t[1], "nullable-variable-at-non-null-position"))
    st = strip(t)
    if st[0] == "list":
        opts.append((strip(st[1]), "item-variable-at-list-position"))
    else:
        opts.append((("list", st), "list-variable-at-item-position"))
    return rng.choice(opts)


def _rebase(t, b):
    return ("named", b) if t[0] == "named" else (t[0], _rebase(t[1], b))


def _ops_reaching(d, df):
    if df["k"] == "op":
        return [df]
    direct = {}
    for x in d["defs"]:
        if x["k"] in ("op", "frag"):
            names = set()
            vo.walk_sels(x["sels"], lambda s: names.add(s["name"]) if s["k"] == "spread" else None)
            direct[id(x)] = names
    byname = {x["name"]: x for x in frags(d)}
    out = []
    for o in ops(d):
        seen, todo = set(), list(direct[id(o)])
        while todo:
            n = todo.pop()
            if n in seen or n not in byname:
                continue
            seen.add(n)
            todo += list(direct[id(byname[n])])
        if df["name"] in seen:
            out.append(o)
    return out


def overlapping_same_key_subfields(rng, sv, doc):
    """invalid twin of `valid_ops.exclusive_parents_construct`: the two parents CAN overlap (same object type)"""
    d = copy.deepcopy(doc)
    feat = vo.exclusive_parents_construct(rng, sv, d, exclusive=False)
    if feat is None:
        return None
    return d, feat


def overlapping_typename_vs_leaf(rng, sv, doc):
    """`zt: __typename` (String!) against a leaf of another type under mutually exclusive parents (hunt C06/3)"""
    d = copy.deepcopy(doc)
    feat = vo.typename_alias_construct(rng, sv, d, conflict=True)
    if feat is None:
        return None
    return d, feat


def vardef_directive(rng, sv, doc):
    """a directive ON A VARIABLE DEFINITION (fix 370692d: they are visited now): unknown, or misplaced (`@skip`; no
    directive of the generated schemas has location VARIABLE_DEFINITION). The Lean model does not carry these
    directives: such documents go to the direct oracle only (corr/C06_model.py counts them)."""
    d = copy.deepcopy(doc)
    cands = [o for o in ops(d) if o["vars"]]
    if not cands:
        return None
    v = rng.choice(rng.choice(cands)["vars"])
    if rng.random() < 0.5:
        v["dirs"] = [{"name": "zzUnknownDirective", "args": []}]
        return d, "unknown-directive-on-variable-definition"
    v["dirs"] = [{"name": "skip", "args": [{"name": "if", "value": ("bool", True)}]}]
    return d, "misplaced-directive-on-variable-definition"


def allowed_position_multi_op(rng, sv, doc):
    """two operations share a fragment (directly or through a nested fragment) that uses `$zzm`; one operation
    declares it with an allowed type, the other with a type that is not allowed at that position (spec 5.8.5 is per
    operation); both definition orders"""
    d = copy.deepcopy(doc)
    root = sv.root("query")
    for o in ops(d):
        if o["name"] is None:
            o["name"] = "OpAnon"
            o["long"] = True
    sites = []
    for f in sv.fields(root):
        if not sv.is_leaf(gs.ty_base(f["type"])):
            continue
        for a in f.get("args") or []:
            others = [x for x in f["args"] if x is not a and x["type"][0] == "nonNull" and x.get("default") is None]
            lits = [(x["name"], _good_literal(sv, x["type"])) for x in others]
            if all(l is not None for _, l in lits):
                sites.append((f, a, lits))
    if sites and rng.random() < 0.75:
        f, a, lits = rng.choice(sites)
        t = a["type"]
        wrong = _wrong_var_type(rng, sv, t, a.get("default") is not None)
        use = mk_field(f, alias="zm", args=[{"name": a["name"], "value": ("var", "zzm")}] +
                       [{"name": n, "value": l} for n, l in lits])
        feat = wrong[1]
        wrong_t = wrong[0]
    else:
        t = ("nonNull", ("named", "Boolean"))
        wrong_t, feat = rng.choice([(("named", "Boolean"), "nullable-variable-at-non-null-position"),
                                    (("named", "String"), "other-base-type")])
        use = {"k": "field", "alias": "zm", "name": "__typename", "args": [],
               "dirs": [{"name": "include", "args": [{"name": "if", "value": ("var", "zzm")}]}], "sels": None}
    nested = rng.random() < 0.5
    names = rng.choice([("Zm", "Zn"), ("M", "N")])
    fr = [{"k": "frag", "name": names[0], "on": root, "dirs": [], "sels": [use]}]
    top = names[0]
    if nested:
        fr.append({"k": "frag", "name": names[1], "on": root, "dirs": [], "sels": [{"k": "spread", "name": names[0], "dirs": []}]})
        top = names[1]

    def op(name, ty):
        return {"k": "op", "op": "query", "name": name, "vars": [{"name": "zzm", "type": ty, "default": None}], "dirs": [],
                "sels": [{"k": "spread", "name": top, "dirs": []}]}
    good, bad = op("ZmGood", t), op("ZmBad", wrong_t)
    allowed_first = rng.random() < 0.5
    i = rng.randint(0, len(d["defs"]))
    d["defs"][i:i] = [good, bad] if allowed_first else [bad, good]
    for x in fr:
        d["defs"].insert(rng.randint(0, len(d["defs"])), x)
    return d, "two-operations-share-fragment-%s-%s:%s" % ("nested" if nested else "direct",
                                                          "allowed-first" if allowed_first else "disallowed-first", feat)


def stack_leak_unknown_field(rng, sv, doc):
    """`p { f { ... { __typename } }  ... { zz: g } }`: g is a field of the type of f but NOT of the type of p; the untyped
    inline fragment inside f comes first, the shallower untyped one after it (a type-stack leak would accept g)"""
    d = copy.deepcopy(doc)
    p = Pos(sv, d)
    lists = [(l, par, df, depth) for l, par, df, depth in p.lists if par
             and not (df["k"] == "op" and df["op"] == "subscription" and depth == 0)]
    rng.shuffle(lists)
    noreq = lambda f: not any(a["type"][0] == "nonNull" and a.get("default") is None for a in f.get("args") or [])
    for l, par, _, _ in lists:
        cands = []
        for f in sv.fields(par):
            o = gs.ty_base(f["type"])
            if sv.kind(o) in ("object", "interface") and o != par and noreq(f):
                for g in sv.fields(o):
                    if sv.is_leaf(gs.ty_base(g["type"])) and noreq(g) and not sv.field(par, g["name"]):
                        cands.append((f, g))
        if cands:
            f, g = rng.choice(cands)
            leak = mk_field(f, alias="zk", sels=[{"k": "inline", "on": None, "dirs": [], "sels": [typename()]}])
            dirs = [] if rng.random() < 0.5 else [{"name": "include", "args": [{"name": "if", "value": ("bool", True)}]}]
            probe = {"k": "inline", "on": None, "dirs": dirs, "sels": [mk_field(g, alias="zz1")]}
            i = rng.randint(0, len(l))
            l[i:i] = [leak, probe]
            return d, "field-of-child-type-after-untyped-inline-in-%s-on-%s" % (sv.kind(gs.ty_base(f["type"])), sv.kind(par))
    return None


def bare_inline_site(rng, sv, d):
    """(selection list, its parent type): the body of a condition-less inline fragment `... { }` /
    `... @include(if: true) { }` directly under a field whose type is WRAPPED (list / non-null); created if absent"""
    p = Pos(sv, d)
    sites = []
    for s, par, df, _ in p.fields:
        f = p.fielddef(s, par)
        if f and s["sels"] is not None and f["type"][0] in ("list", "nonNull") and sv.is_composite(gs.ty_base(f["type"])):
            sites.append((s["sels"], gs.ty_base(f["type"])))
    if not sites:
        lists = [(l, par, df, depth) for l, par, df, depth in p.lists if par
                 and not (df["k"] == "op" and df["op"] == "subscription" and depth == 0)]
        rng.shuffle(lists)
        for l, par, _, _ in lists:
            comp = [f for f in sv.fields(par) if f["type"][0] in ("list", "nonNull") and sv.is_composite(gs.ty_base(f["type"]))
                    and not any(a["type"][0] == "nonNull" and a.get("default") is None for a in f.get("args") or [])]
            if comp:
                f = rng.choice(comp)
                new = mk_field(f, alias="zw", sels=[])
                l.insert(rng.randint(0, len(l)), new)
                sites.append((new["sels"], gs.ty_base(f["type"])))
                break
    if not sites:
        return None
    sels, t = rng.choice(sites)
    dirs = [] if rng.random() < 0.5 else [{"name": "include", "args": [{"name": "if", "value": ("bool", True)}]}]
    inner = {"k": "inline", "on": None, "dirs": dirs, "sels": [typename("zt")]}
    sels.insert(rng.randint(0, len(sels)), inner)
    return inner["sels"], t


def _bare(feature_fn):
    def fn(rng, sv, doc):
        d = copy.deepcopy(doc)
        site = bare_inline_site(rng, sv, d)
        if site is None:
            return None
        l, t = site
        r = feature_fn(rng, sv, d, l, t)
        if r is None:
            return None
        return d, r + "@bare-inline-under-wrapped-field"
    return fn


def _b_unknown_field(rng, sv, d, l, t):
    l.insert(rng.randint(0, len(l)), mk_field({"name": "zzUnknown"}, alias="zz1"))
    return "added-unknown-field-on-" + sv.kind(t)


def _b_leaf(rng, sv, d, l, t):
    comp = [f for f in sv.fields(t) if sv.is_composite(gs.ty_base(f["type"])) and
            not any(a["type"][0] == "nonNull" and a.get("default") is None for a in f.get("args") or [])]
    lf = leaf_field(sv, t)
    if comp and (not lf or rng.random() < 0.5):
        l.insert(rng.randint(0, len(l)), mk_field(rng.choice(comp), alias="zz1"))
        return "no-selection-on-composite"
    if lf:
        l.insert(rng.randint(0, len(l)), mk_field(rng.choice(lf), alias="zz1", sels=[typename()]))
        return "selection-on-leaf"
    return None


def _b_unknown_arg(rng, sv, d, l, t):
    lf = leaf_field(sv, t)
    if not lf:
        return None
    l.insert(rng.randint(0, len(l)), mk_field(rng.choice(lf), alias="zz1", args=[{"name": "zzArg", "value": ("int", "1")}]))
    return "unknown-argument-on-field"


def _b_bad_value(rng, sv, d, l, t):
    for f in leaf_field(sv, t):
        for a in f.get("args") or []:
            r = _bad_literal(rng, sv, a["type"])
            if r and "list" not in r[1]:
                l.insert(rng.randint(0, len(l)), mk_field(f, alias="zz1", args=[{"name": a["name"], "value": r[0]}]))
                return r[1] + "@field-argument"
    l.insert(rng.randint(0, len(l)), {"k": "field", "alias": "zz1", "name": "__typename", "args": [],
                                      "dirs": [{"name": "skip", "args": [{"name": "if", "value": ("str", "x")}]}], "sels": None})
    return "string-for-Boolean@directive-argument"


def _b_required(rng, sv, d, l, t):
    for f in sv.fields(t):
        if sv.is_leaf(gs.ty_base(f["type"])) and any(a["type"][0] == "nonNull" and a.get("default") is None for a in f.get("args") or []):
            l.insert(rng.randint(0, len(l)), mk_field(f, alias="zz1"))
            return "field-without-required-argument"
    return None


def _b_spread(rng, sv, d, l, t):
    others = [c for c in sv.composites() if not sv.overlap(c, t)]
    if not others:
        return None
    o = rng.choice(others)
    l.insert(rng.randint(0, len(l)), {"k": "inline", "on": o, "dirs": [], "sels": [typename()]})
    return "inline-%s-in-%s" % (sv.kind(o), sv.kind(t))


INJECTORS = [
    ("executable_definitions", "5.1.1", ["ExecutableDefinitionsChecker"], executable_definitions),
    ("unique_operation_names", "5.2.1.1", ["UniqueOperationNameChecker"], unique_operation_names),
    ("lone_anonymous_operation", "5.2.2.1", ["LoneAnonymousOperationChecker"], lone_anonymous_operation),
    ("single_field_subscriptions", "5.2.3.1", ["SingleFieldSubscriptionsChecker"], single_field_subscriptions),
    ("single_field_subscriptions", "5.2.3.1", ["SingleFieldSubscriptionsChecker"], single_field_subscriptions_collected),
    ("fields_on_correct_type", "5.3.1", ["FieldsOnCorrectTypeChecker"], fields_on_correct_type),
    ("overlapping_fields_can_be_merged", "5.3.2", ["OverlappingFieldsCanBeMergedChecker"], overlapping_fields),
    ("leaf_field_selections", "5.3.3", ["ScalarLeafsChecker"], leaf_field_selections),
    ("known_argument_names", "5.4.1", ["KnownArgumentNamesChecker"], known_argument_names),
    ("unique_argument_names", "5.4.2", ["UniqueArgumentNamesChecker"], unique_argument_names),
    ("provided_required_arguments", "5.4.2.1", ["ProvidedRequiredArgumentsChecker"], provided_required_arguments),
    ("unique_fragment_names", "5.5.1.1", ["UniqueFragmentNamesChecker"], unique_fragment_names),
    ("known_type_names", "5.5.1.2/5.8.2", ["KnownTypeNamesChecker"], known_type_names),
    ("fragment_spread_type_existence", "5.5.1.2", ["KnownTypeNamesChecker", "FragmentsOnCompositeTypesChecker"], fragment_spread_type_existence),
    ("fragments_on_composite_types", "5.5.1.3", ["FragmentsOnCompositeTypesChecker"], fragments_on_composite_types),
    ("no_unused_fragments", "5.5.1.4", ["NoUnusedFragmentsChecker"], no_unused_fragments),
    ("known_fragment_names", "5.5.2.1", ["KnownFragmentNamesChecker"], known_fragment_names),
    ("no_fragment_cycles", "5.5.2.2", ["NoFragmentCyclesChecker"], no_fragment_cycles),
    ("no_fragment_cycles", "5.5.2.2", ["NoFragmentCyclesChecker"], no_fragment_cycles_entry),
    ("no_fragment_cycles", "5.5.2.2", ["NoFragmentCyclesChecker"], no_fragment_cycles_below_field),
    ("possible_fragment_spreads", "5.5.2.3", ["PossibleFragmentSpreadsChecker"], possible_fragment_spreads),
    ("values_of_correct_type", "5.6.1", ["ValuesOfCorrectTypeChecker"], values_of_correct_type),
    ("input_object_field_names", "5.6.2", ["ValuesOfCorrectTypeChecker"], input_object_field_names),
    ("input_object_field_uniqueness", "5.6.3", ["UniqueInputFieldNamesChecker"], input_object_field_uniqueness),
    ("input_object_field_uniqueness", "5.6.3", ["UniqueInputFieldNamesChecker"], input_field_uniqueness_in_custom_scalar),
    ("directives_are_defined", "5.7.1", ["KnownDirectivesChecker"], directives_are_defined),
    ("directives_in_valid_locations", "5.7.2", ["KnownDirectivesChecker"], directives_in_valid_locations),
    ("unique_directives_per_location", "5.7.3", ["UniqueDirectivesPerLocationChecker"], unique_directives_per_location),
    ("known_directives", "5.7.1", ["KnownDirectivesChecker"], vardef_directive),
    ("unique_variable_names", "5.8.1", ["UniqueVariableNamesChecker"], unique_variable_names),
    ("variables_are_input_types", "5.8.2", ["VariablesAreInputTypesChecker"], variables_are_input_types),
    ("all_variable_uses_defined", "5.8.3", ["NoUndefinedVariablesChecker"], all_variable_uses_defined),
    ("all_variables_used", "5.8.4", ["NoUnusedVariablesChecker"], all_variables_used),
    ("all_variable_usages_allowed", "5.8.5", ["VariablesInAllowedPositionChecker"], variable_usages_allowed),
    ("all_variable_usages_allowed", "5.8.5", ["VariablesInAllowedPositionChecker"], allowed_position_multi_op),
    ("all_variable_usages_allowed", "5.8.5", ["VariablesInAllowedPositionChecker"], variable_in_list_literal),
    ("all_variable_usages_allowed", "5.8.5", ["VariablesInAllowedPositionChecker"], variable_in_list_at_custom_scalar),
    ("overlapping_fields_can_be_merged", "5.3.2", ["OverlappingFieldsCanBeMergedChecker"], overlapping_same_key_subfields),
    ("overlapping_fields_can_be_merged", "5.3.2", ["OverlappingFieldsCanBeMergedChecker"], overlapping_typename_vs_leaf),
    ("fields_on_correct_type", "5.3.1", ["FieldsOnCorrectTypeChecker"], stack_leak_unknown_field),
    # the same rules, violated inside `... { }` under a list / non-null field
    ("fields_on_correct_type", "5.3.1", ["FieldsOnCorrectTypeChecker"], _bare(_b_unknown_field)),
    ("leaf_field_selections", "5.3.3", ["ScalarLeafsChecker"], _bare(_b_leaf)),
    ("known_argument_names", "5.4.1", ["KnownArgumentNamesChecker"], _bare(_b_unknown_arg)),
    ("values_of_correct_type", "5.6.1", ["ValuesOfCorrectTypeChecker"], _bare(_b_bad_value)),
    ("provided_required_arguments", "5.4.2.1", ["ProvidedRequiredArgumentsChecker"], _bare(_b_required)),
    ("possible_fragment_spreads", "5.5.2.3", ["PossibleFragmentSpreadsChecker"], _bare(_b_spread)),
]

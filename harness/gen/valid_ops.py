# -*- coding: utf-8 -*-
"""
Executable documents VALID BY CONSTRUCTION over a schema description of `gen/schema.py`,
as plain trees (dicts / tuples), a printer with controllable spelling of the ignored
tokens, the metamorphic transformations of property C06 and single labelled rule
violations (`gen/violations.py`).

Tree format
-----------
doc   = {"defs": [op | frag | ts]}
op    = {"k": "op", "op": "query"|"mutation"|"subscription", "name": str|None, "vars": [vdef], "dirs": [dir], "sels": [sel]}
frag  = {"k": "frag", "name": str, "on": str, "dirs": [dir], "sels": [sel]}
ts    = {"k": "ts", "text": "<type-system definition text>"}
vdef  = {"name": str, "type": ty, "default": value|None}
sel   = {"k": "field", "alias": str|None, "name": str, "args": [arg], "dirs": [dir], "sels": [sel]|None}
      | {"k": "spread", "name": str, "dirs": [dir]}
      | {"k": "inline", "on": str|None, "dirs": [dir], "sels": [sel]}
arg   = {"name": str, "value": value}
dir   = {"name": str, "args": [arg]}
value = ("var", n) | ("int", "1") | ("float", "1.5") | ("str", "s") | ("bool", True) | ("null",)
      | ("enum", "X") | ("list", [value]) | ("obj", [(name, value)])
ty    = ("named", n) | ("list", ty) | ("nonNull", ty)      (same as gen/schema.py)
"""
import copy

from gen import schema as gs

SCALARS = gs.SCALARS
BUILTIN_DIRECTIVES = [
    {"name": "skip", "locations": ["FIELD", "FRAGMENT_SPREAD", "INLINE_FRAGMENT"],
     "args": [{"name": "if", "type": ("nonNull", ("named", "Boolean")), "default": None}]},
    {"name": "include", "locations": ["FIELD", "FRAGMENT_SPREAD", "INLINE_FRAGMENT"],
     "args": [{"name": "if", "type": ("nonNull", ("named", "Boolean")), "default": None}]},
]


class SchemaView:
    """Look-ups over a generator schema description."""

    def __init__(self, desc):
        self.desc = desc
        self.types = {t["name"]: t for t in desc["types"]}
        self.directives = {d["name"]: d for d in BUILTIN_DIRECTIVES}
        for d in desc["directives"]:
            self.directives[d["name"]] = d

    def kind(self, n):
        if n in SCALARS:
            return "scalar"
        t = self.types.get(n)
        return t["kind"] if t else None

    def is_composite(self, n):
        return self.kind(n) in ("object", "interface", "union")

    def is_leaf(self, n):
        return self.kind(n) in ("scalar", "enum")

    def is_input(self, n):
        return self.kind(n) in ("scalar", "enum", "input")

    def fields(self, n):
        t = self.types.get(n)
        return t["fields"] if t and t["kind"] in ("object", "interface") else []

    def field(self, n, f):
        for x in self.fields(n):
            if x["name"] == f:
                return x
        return None

    def possible(self, n):
        """set of object type names possible for composite type n"""
        k = self.kind(n)
        if k == "object":
            return {n}
        if k == "union":
            return set(self.types[n]["members"])
        if k == "interface":
            return {t["name"] for t in self.desc["types"] if t["kind"] == "object" and n in t.get("interfaces", [])}
        return set()

    def overlap(self, a, b):
        return a == b or bool(self.possible(a) & self.possible(b))

    def composites(self):
        return [t["name"] for t in self.desc["types"] if t["kind"] in ("object", "interface", "union")]

    def root(self, op):
        return {"query": self.desc.get("query"), "mutation": self.desc.get("mutation"),
                "subscription": self.desc.get("subscription")}.get(op)


def add_subscription(rng, desc):
    """gen/schema.py has no subscription root: add a small one (two leaf fields, one composite)."""
    objs = [t["name"] for t in desc["types"] if t["kind"] == "object" and t["name"] not in ("Query", "Mutation")]
    fields = [{"name": "s0", "type": ("named", "Int"), "args": [], "deprecated": None, "desc": None},
              {"name": "s1", "type": ("named", "String"), "args": [], "deprecated": None, "desc": None}]
    if objs:
        fields.append({"name": "s2", "type": ("named", rng.choice(objs)), "args": [], "deprecated": None, "desc": None})
    desc["types"].append({"kind": "object", "name": "Subscription", "interfaces": [], "desc": None, "fields": fields})
    desc["subscription"] = "Subscription"
    return desc


# ---------------------------------------------------------------------------
# subtyping on type tuples (spec AreTypesCompatible, used only to CONSTRUCT valid usages)
# ---------------------------------------------------------------------------

def strip_nn(t):
    return t[1] if t[0] == "nonNull" else t


def var_allowed(var_ty, var_has_default, loc_ty, loc_has_default):
    """IsVariableUsageAllowed of the June-2018 spec (+ the default-value relaxation)."""
    if loc_ty[0] == "nonNull" and var_ty[0] != "nonNull":
        if not var_has_default and not loc_has_default:
            return False
        return compatible(var_ty, loc_ty[1])
    return compatible(var_ty, loc_ty)


def strengthen(rng, t):
    """t with `nonNull` added at random depths (a subtype of t)"""
    def bare(u):   # u is not a nonNull
        return ("list", strengthen(rng, u[1])) if u[0] == "list" else u
    if t[0] == "nonNull":
        return ("nonNull", bare(t[1]))
    inner = bare(t)
    return ("nonNull", inner) if rng.random() < 0.5 else inner


def compatible(v, l):
    if l[0] == "nonNull":
        return v[0] == "nonNull" and compatible(v[1], l[1])
    if v[0] == "nonNull":
        return compatible(v[1], l)
    if l[0] == "list":
        return v[0] == "list" and compatible(v[1], l[1])
    if v[0] == "list":
        return False
    return v == l


# ---------------------------------------------------------------------------
# generator
# ---------------------------------------------------------------------------

FRAG_NAMES_SHORT = list("ABCDEFGHJKLMNPQRSTUVWXYZ")


class DocGen:
    def __init__(self, rng, desc, size=2):
        self.rng = rng
        self.sv = SchemaView(desc)
        self.size = size
        self.frags = []          # completed fragment definitions (dicts), in creation-completion order
        self.frag_uses = {}      # fragment name -> set(var names used directly), set(fragment names spread directly)
        self.vars = {}           # doc-wide variable pool: name -> {"type": ty, "default": value|None}
        self.nresp = 0
        self.used_resp = set()
        self.nfrag = 0
        self.nvar = 0
        self.short_names = rng.random() < 0.5
        self.scope_stack = []    # per definition: {"vars": set(), "spreads": set()}

    # -- names -----------------------------------------------------------
    def fresh_alias(self):
        self.nresp += 1
        return "r%d" % self.nresp

    def fresh_frag(self):
        self.nfrag += 1
        if self.short_names and self.nfrag <= len(FRAG_NAMES_SHORT):
            return FRAG_NAMES_SHORT[self.nfrag - 1]
        return "Fr%d" % self.nfrag

    # -- values ----------------------------------------------------------
    def literal(self, t, depth=0, allow_null=True, const=False):
        rng = self.rng
        if t[0] == "nonNull":
            return self.literal(t[1], depth, allow_null=False, const=const)
        if allow_null and rng.random() < 0.08:
            return ("null",)
        if t[0] == "list":
            if depth < 2 and rng.random() < 0.85:
                # items: literals, or (outside constants) VARIABLES allowed at the item position - at depth 1 and 2,
                # also below object fields inside lists (hunt C06/1, C06/2: the item position has the list's item type)
                return ("list", [self.value(t[1], False, depth + 1, p_var=0.3)
                                 if not const and self.scope_stack and rng.random() < 0.5
                                 else self.literal(t[1], depth + 1, const=const)
                                 for _ in range(rng.randint(0, 2))])
            if t[1][0] == "list" or strip_nn(t[1])[0] == "list":
                return ("list", [])
            return self.literal(t[1], depth + 1, allow_null=False, const=const)   # single item coerced to a list
        b = t[1]
        if b == "Int":
            return ("int", str(rng.choice([0, 1, -7, 42, 2147483646, -2147483647])))
        if b == "Float":
            return rng.choice([("float", "0.5"), ("float", "-2.25"), ("int", "3"), ("float", "1e3")])
        if b == "String":
            return ("str", rng.choice(["a", "", "x y", "q\\\"uote", "multi word"]))
        if b == "Boolean":
            return ("bool", rng.random() < 0.5)
        if b == "ID":
            return rng.choice([("str", "id1"), ("int", "7")])
        k = self.sv.kind(b)
        if k == "scalar":
            # custom scalars built from SDL accept every literal without variables (a2b8a10): also null, lists, objects
            r = rng.random()
            if not const and self.scope_stack and r < 0.12:
                # a VARIABLE inside a structured literal at a custom scalar (hunt3 C06/1): it is a usage (5.8.3 / 5.8.4),
                # the position has no type (anything is allowed there), and the literal is accepted
                self.nvar += 1
                n = "v%d" % self.nvar
                inner = ("var", n)
                shape = rng.randrange(4)
                # shape 1, `[ $v ]` DIRECTLY at the scalar position: the items of a list literal written at a non-list
                # position are typed with the position's nullable type (TypeInfoVisitor.enter_list_value, as graphql-js)
                # and VariablesInAllowedPosition compares against it - only a variable of that scalar is allowed there.
                # Below an object field (shapes 0, 2, 3) the position has no type: any variable type.
                vt = ("named", b) if shape == 1 else rng.choice([("named", "Int"), ("named", b), ("list", ("named", "String"))])
                self.vars[n] = {"type": vt, "default": None}
                self.scope_stack[-1]["vars"].add(n)
                return [("obj", [("a", inner)]), ("list", [inner]), ("obj", [("a", ("list", [("int", "1"), inner]))]),
                        ("list", [("obj", [("b", inner)])])][shape]
            if r < 0.25:
                return ("obj", [("k%d" % i, rng.choice([("int", "1"), ("str", "s"), ("null",), ("list", [("int", "2")]),
                                                        ("obj", [("n", ("bool", True))])])) for i in range(rng.randint(0, 3))])
            if r < 0.35:
                return ("list", [("int", "1"), ("obj", [("a", ("str", "x"))])][:rng.randint(0, 2)])
            return rng.choice([("int", "5"), ("str", "cs"), ("bool", True), ("float", "2.5"), ("enum", "ANY")])
        if k == "enum":
            return ("enum", rng.choice(self.sv.types[b]["values"])["name"])
        if k == "input":
            fs = []
            for f in self.sv.types[b]["fields"]:
                req = f["type"][0] == "nonNull" and f.get("default") is None
                if req or rng.random() < 0.5:
                    fs.append((f["name"], self.literal(f["type"], depth + 1, const=True) if const
                               else self.value(f["type"], f.get("default") is not None, depth + 1)))
            rng.shuffle(fs)
            return ("obj", fs)
        raise ValueError("no literal for %r" % (t,))

    def value(self, t, loc_has_default=False, depth=0, p_var=None):
        """literal or variable conforming to position type t"""
        rng = self.rng
        if self.scope_stack and rng.random() < (p_var if p_var is not None else 0.3 if depth == 0 else 0.12):
            # reuse a variable allowed here, or create one
            ok = [n for n, v in self.vars.items()
                  if var_allowed(v["type"], v["default"] not in (None, ("null",)), t, loc_has_default)]
            if ok and rng.random() < 0.6:
                n = rng.choice(ok)
            else:
                self.nvar += 1
                n = "v%d" % self.nvar
                vt = t
                r = rng.random()
                default = None
                if t[0] != "nonNull" and r < 0.3:
                    vt = ("nonNull", t)
                elif t[0] == "nonNull" and loc_has_default and r < 0.5:
                    vt = t[1]
                elif t[0] == "nonNull" and r < 0.25:
                    vt = t[1]
                    default = self.literal(t, 0, allow_null=False, const=True)
                elif t[0] != "nonNull" and r < 0.55:
                    default = self.literal(t, 0, const=True)
                if default is None and rng.random() < 0.35:
                    # a STRICTER variable type is allowed too: non-null added at any depth (`[Int!]!` at `[Int]!`)
                    vt2 = strengthen(rng, vt)
                    if var_allowed(vt2, False, t, loc_has_default):
                        vt = vt2
                self.vars[n] = {"type": vt, "default": default}
            self.scope_stack[-1]["vars"].add(n)
            return ("var", n)
        return self.literal(t, depth)

    def args_for(self, argdefs):
        out = []
        for a in argdefs:
            req = a["type"][0] == "nonNull" and a.get("default") is None
            if req or self.rng.random() < 0.55:
                out.append({"name": a["name"], "value": self.value(a["type"], a.get("default") is not None)})
        self.rng.shuffle(out)
        return out

    def directives(self, location):
        rng = self.rng
        out = []
        if rng.random() < 0.22:
            cands = [d for d in self.sv.directives.values() if location in d["locations"]]
            rng.shuffle(cands)
            for d in cands[:rng.randint(1, 2)]:
                out.append({"name": d["name"], "args": self.args_for(d["args"])})
        return out

    # -- selections --------------------------------------------------------
    def selection_set(self, tname, depth):
        """non-empty list of selections valid on composite type `tname`"""
        rng = self.rng
        sv = self.sv
        sels = []
        fields = sv.fields(tname)
        n = rng.randint(1, 2 + self.size)
        for _ in range(n):
            r = rng.random()
            if r < 0.62 and fields:
                f = rng.choice(fields)
                base = gs.ty_base(f["type"])
                if sv.is_composite(base) and depth <= 0:
                    leafs = [x for x in fields if sv.is_leaf(gs.ty_base(x["type"]))]
                    if not leafs:
                        continue
                    f = rng.choice(leafs)
                    base = gs.ty_base(f["type"])
                sels.append(self.field(tname, f, depth))
            elif r < 0.70:
                sels.append(self.typename())
            elif r < 0.85 and depth > 0:
                cands = [c for c in sv.composites() if sv.overlap(c, tname)]
                on = rng.choice(cands + [None])
                sels.append({"k": "inline", "on": on, "dirs": self.directives("INLINE_FRAGMENT"),
                             "sels": self.selection_set(on or tname, depth - 1)})
            elif depth > 0 and self.scope_stack:
                name = self.spreadable(tname, depth - 1)
                if name:
                    self.scope_stack[-1]["spreads"].add(name)
                    sels.append({"k": "spread", "name": name, "dirs": self.directives("FRAGMENT_SPREAD")})
        if not sels:
            sels.append(self.typename())
        # mergeable duplicates: an identical copy of a field (scalar/enum literal arguments only: V2)
        if rng.random() < 0.3:
            cands = [s for s in sels if s["k"] == "field" and _plain_args(s["args"])]
            if cands:
                c = copy.deepcopy(rng.choice(cands))
                c["dirs"] = []
                if c["sels"] is not None:
                    keep = [s for s in c["sels"] if _plain_subtree(s)]
                    c["sels"] = keep[:rng.randint(1, 2)] if keep and rng.random() < 0.6 else [self.typename()]
                sels.insert(rng.randint(0, len(sels)), c)
        return sels

    def typename(self):
        alias = None
        if "__typename" in self.used_resp and self.rng.random() < 0.5:
            alias = self.fresh_alias()
        self.used_resp.add("__typename")
        return {"k": "field", "alias": alias, "name": "__typename", "args": [], "dirs": [], "sels": None}

    def field(self, parent, f, depth):
        rng = self.rng
        base = gs.ty_base(f["type"])
        alias = None
        if f["name"] in self.used_resp or rng.random() < 0.3:
            alias = self.fresh_alias()
        else:
            self.used_resp.add(f["name"])
        sub = None
        if self.sv.is_composite(base):
            sub = self.selection_set(base, depth - 1)
        return {"k": "field", "alias": alias, "name": f["name"], "args": self.args_for(f.get("args") or []),
                "dirs": self.directives("FIELD"), "sels": sub}

    def spreadable(self, tname, depth):
        rng = self.rng
        ok = [f["name"] for f in self.frags if self.sv.overlap(f["on"], tname)]
        if ok and rng.random() < 0.5:
            return rng.choice(ok)
        if len(self.frags) + len(self.scope_stack) > 3 + 2 * self.size:
            return rng.choice(ok) if ok else None
        cands = [c for c in self.sv.composites() if self.sv.overlap(c, tname)]
        return self.fragment(rng.choice(cands), depth)

    def fragment(self, on, depth):
        name = self.fresh_frag()
        self.scope_stack.append({"vars": set(), "spreads": set()})
        sels = self.selection_set(on, depth)
        dirs = self.directives("FRAGMENT_DEFINITION")
        sc = self.scope_stack.pop()
        self.frags.append({"k": "frag", "name": name, "on": on, "dirs": dirs, "sels": sels})
        self.frag_uses[name] = sc
        return name

    def operation(self, op, name):
        root = self.sv.root(op)
        self.scope_stack.append({"vars": set(), "spreads": set()})
        depth = self.rng.randint(1, 2 + (self.size > 1))
        if op == "subscription":
            f = self.rng.choice(self.sv.fields(root))
            sels = [self.field(root, f, depth)]
        else:
            sels = self.selection_set(root, depth)
        dirs = self.directives(op.upper())
        sc = self.scope_stack.pop()
        # variables reached directly or through the spread closure
        seen, todo = set(), list(sc["spreads"])
        used = set(sc["vars"])
        while todo:
            x = todo.pop()
            if x in seen:
                continue
            seen.add(x)
            used |= self.frag_uses[x]["vars"]
            todo += list(self.frag_uses[x]["spreads"])
        return {"k": "op", "op": op, "name": name, "vars": sorted(used), "dirs": dirs, "sels": sels, "_reach": seen}

    def document(self):
        rng = self.rng
        nops = rng.choice([1, 1, 1, 2, 3])
        kinds = ["query"]
        if self.sv.root("mutation"):
            kinds.append("mutation")
        if self.sv.root("subscription"):
            kinds.append("subscription")
        ops = []
        for i in range(nops):
            k = rng.choice(kinds) if rng.random() < 0.4 else "query"
            name = None if (nops == 1 and rng.random() < 0.5) else "Op%d" % i
            ops.append(self.operation(k, name))
        reached = set()
        for o in ops:
            reached |= o.pop("_reach")
        for o in ops:
            o["vars"] = [{"name": n, "type": self.vars[n]["type"], "default": copy.deepcopy(self.vars[n]["default"])}
                         for n in o["vars"]]
            rng.shuffle(o["vars"])
        defs = ops + [f for f in self.frags if f["name"] in reached]
        # fragments created but only reached from dropped ones cannot exist: every fragment is created
        # inside a definition that spreads it, and operations are generated last.
        rng.shuffle(defs)
        return {"defs": defs}


def _plain_args(args):
    return all(a["value"][0] in ("int", "float", "str", "bool", "enum") for a in args)


def _plain_subtree(s):
    """a selection whose identical copy merges with it without reaching V2 (list/object/null/variable arguments)"""
    if s["k"] == "spread":
        return True
    if s["k"] == "field":
        return _plain_args(s["args"]) and (s["sels"] is None or all(_plain_subtree(x) for x in s["sels"]))
    return all(_plain_subtree(x) for x in s["sels"])


def _shape(t):
    return "N" if t[0] == "named" else t[0][0] + _shape(t[1])


def exclusive_parents_construct(rng, sv, doc, exclusive=True):
    """Same response key `zk` on two composite fields under two parent types, with sub-selections that give the SAME
    key `zx` to DIFFERENT fields OF ONE TYPE (`__typename` / a `String!` leaf, or two leaves of one type): VALID when
    the parents are two different object types (mutually exclusive: names and arguments may differ, the response
    shapes must still agree), INVALID when the parents can overlap (`exclusive=False`: the same object type twice;
    there `__typename` / any leaf). Each side reaches its `zx` field through 0, 1 or 2 levels of nested fragment spreads.
    Returns the feature string or None (document modified in place)."""
    lists = []

    def walk(sels, parent, d, depth):
        if parent and sv.kind(parent) in ("interface", "union") and not (d["k"] == "op" and d["op"] == "subscription" and depth == 0):
            lists.append((sels, parent))
        for s in sels:
            if s["k"] == "field" and s["sels"] is not None:
                f = sv.field(parent, s["name"]) if parent else None
                walk(s["sels"], gs.ty_base(f["type"]) if f else None, d, depth + 1)
            elif s["k"] == "inline":
                walk(s["sels"], s["on"] or parent, d, depth + 1)
    for d in doc["defs"]:
        if d["k"] == "op":
            walk(d["sels"], sv.root(d["op"]), d, 0)
        elif d["k"] == "frag":
            walk(d["sels"], d["on"], d, 0)
    rng.shuffle(lists)
    noreq = lambda f: not any(a["type"][0] == "nonNull" and a.get("default") is None for a in f.get("args") or [])
    # places where a field of abstract type can be ADDED (the construct then goes into its selection set)
    creatable = []

    def walk2(sels, parent, d, depth):
        if parent and not (d["k"] == "op" and d["op"] == "subscription" and depth == 0):
            for h in sv.fields(parent):
                if sv.kind(gs.ty_base(h["type"])) in ("interface", "union") and noreq(h):
                    creatable.append((sels, h))
        for s in sels:
            if s["k"] == "field" and s["sels"] is not None:
                f = sv.field(parent, s["name"]) if parent else None
                walk2(s["sels"], gs.ty_base(f["type"]) if f else None, d, depth + 1)
            elif s["k"] == "inline":
                walk2(s["sels"], s["on"] or parent, d, depth + 1)
    for d in doc["defs"]:
        if d["k"] == "op":
            walk2(d["sels"], sv.root(d["op"]), d, 0)
        elif d["k"] == "frag":
            walk2(d["sels"], d["on"], d, 0)
    rng.shuffle(creatable)
    lists = lists + [(None, gs.ty_base(h["type"]), sels, h) for sels, h in creatable]
    for entry in lists:
        if len(entry) == 2:
            l, par = entry
            host = None
        else:
            l, par, hostsels, h = entry
            host = (hostsels, h)
        objs = sorted(sv.possible(par))
        pairs = []
        for o1 in objs:
            for o2 in objs:
                if (o1 != o2) != exclusive:
                    continue
                for f1 in sv.fields(o1):
                    t1 = gs.ty_base(f1["type"])
                    if sv.kind(t1) not in ("object", "interface", "union") or not noreq(f1):
                        continue
                    for f2 in sv.fields(o2):
                        t2 = gs.ty_base(f2["type"])
                        if sv.kind(t2) in ("object", "interface") and noreq(f2) and _shape(f1["type"]) == _shape(f2["type"]) \
                                and (exclusive or f1["name"] == f2["name"]):
                            leafs = [g for g in sv.fields(t2) if sv.is_leaf(gs.ty_base(g["type"])) and noreq(g)]
                            if exclusive:
                                # VALID twin: the two `zx` must have IDENTICAL types (SameResponseShape does not care
                                # about exclusive parents); names differ: `__typename` vs a `String!` leaf, or two
                                # different leaves of one type
                                STRNN = ("nonNull", ("named", "String"))
                                cands = [(None, g) for g in leafs if g["type"] == STRNN]
                                if sv.kind(t1) in ("object", "interface"):
                                    cands += [(g1, g) for g in leafs for g1 in sv.fields(t1)
                                              if g1["type"] == g["type"] and g1["name"] != g["name"] and noreq(g1)]
                                leafs = cands
                            else:
                                leafs = [(None, g) for g in leafs]
                            if leafs:
                                pairs.append((o1, f1, t1, o2, f2, t2, leafs))
        if not pairs:
            continue
        o1, f1, t1, o2, f2, t2, leafs = rng.choice(pairs)
        g1, g2 = rng.choice(leafs)
        if host is not None:
            hostsels, h = host
            l = []
            hostsels.insert(rng.randint(0, len(hostsels)),
                            {"k": "field", "alias": "zh" + "".join(rng.choice("abcdefghij") for _ in range(3)), "name": h["name"],
                             "args": [], "dirs": [], "sels": l})
        inner1 = {"k": "field", "alias": "zx", "name": g1["name"] if g1 else "__typename", "args": [], "dirs": [], "sels": None}
        inner2 = {"k": "field", "alias": "zx", "name": g2["name"], "args": [], "dirs": [], "sels": None}
        uid = "".join(rng.choice("abcdefghij") for _ in range(3))
        newfrags = []

        def side(inner, t, levels, tag):
            sels = [inner]
            for k in range(levels):
                name = "Zn%s%s%d" % (uid, tag, k)
                newfrags.append({"k": "frag", "name": name, "on": t, "dirs": [], "sels": sels})
                sels = [{"k": "spread", "name": name, "dirs": []}]
            return sels
        lv1, lv2 = rng.choice([0, 1, 2]), rng.choice([0, 1, 2])
        a = {"k": "inline", "on": o1, "dirs": [], "sels": [
            {"k": "field", "alias": "zk", "name": f1["name"], "args": [], "dirs": [], "sels": side(inner1, t1, lv1, "a")}]}
        b = {"k": "inline", "on": o2, "dirs": [], "sels": [
            {"k": "field", "alias": "zk", "name": f2["name"], "args": [], "dirs": [], "sels": side(inner2, t2, lv2, "b")}]}
        i = rng.randint(0, len(l))
        l[i:i] = [a, b] if rng.random() < 0.5 else [b, a]
        for x in newfrags:
            doc["defs"].insert(rng.randint(0, len(doc["defs"])), x)
        return "same-key-subfields-%s-parents-levels-%d-%d" % ("exclusive" if exclusive else "overlapping", lv1, lv2)
    return None


def abstract_lists(sv, doc):
    """selection lists whose parent type is an interface or a union"""
    lists = []

    def walk(sels, parent, d, depth):
        if parent and sv.kind(parent) in ("interface", "union") and not (d["k"] == "op" and d["op"] == "subscription" and depth == 0):
            lists.append((sels, parent))
        for s in sels:
            if s["k"] == "field" and s["sels"] is not None:
                f = sv.field(parent, s["name"]) if parent and s["name"] != "__typename" else None
                walk(s["sels"], gs.ty_base(f["type"]) if f else None, d, depth + 1)
            elif s["k"] == "inline":
                walk(s["sels"], s["on"] or parent, d, depth + 1)
    for d in doc["defs"]:
        if d["k"] == "op":
            walk(d["sels"], sv.root(d["op"]), d, 0)
        elif d["k"] == "frag":
            walk(d["sels"], d["on"], d, 0)
    return lists


def typename_alias_construct(rng, sv, doc, conflict):
    """`... on O1 { zt: __typename } ... on O2 { zt: leaf }` under an abstract parent with O1 != O2 (mutually exclusive
    parents: only the response shapes are compared). `__typename` is `String!`: VALID iff the leaf is `String!`
    (`conflict=False`), INVALID otherwise (`conflict=True`; bug-hunt finding C06/3). One side optionally behind a
    fragment. Returns the feature or None (document modified in place)."""
    STRNN = ("nonNull", ("named", "String"))
    lists = abstract_lists(sv, doc)
    rng.shuffle(lists)
    noreq = lambda f: not any(a["type"][0] == "nonNull" and a.get("default") is None for a in f.get("args") or [])
    for l, par in lists:
        objs = sorted(sv.possible(par))
        opts = [(o1, o2, g) for o1 in objs for o2 in objs if o1 != o2 for g in sv.fields(o2)
                if sv.is_leaf(gs.ty_base(g["type"])) and noreq(g) and ((g["type"] != STRNN) == conflict)]
        if not opts:
            continue
        o1, o2, g = rng.choice(opts)
        key = "zt" + "".join(rng.choice("abcdefghij") for _ in range(3))
        a_sels = [{"k": "field", "alias": key, "name": "__typename", "args": [], "dirs": [], "sels": None}]
        b_sels = [{"k": "field", "alias": key, "name": g["name"], "args": [], "dirs": [], "sels": None}]
        how = rng.choice(["inline", "fragment-a", "fragment-b"])
        if how == "fragment-a":
            name = "Zt%sa" % key
            doc["defs"].insert(rng.randint(0, len(doc["defs"])), {"k": "frag", "name": name, "on": o1, "dirs": [], "sels": a_sels})
            a = {"k": "spread", "name": name, "dirs": []}
        else:
            a = {"k": "inline", "on": o1, "dirs": [], "sels": a_sels}
        if how == "fragment-b":
            name = "Zt%sb" % key
            doc["defs"].insert(rng.randint(0, len(doc["defs"])), {"k": "frag", "name": name, "on": o2, "dirs": [], "sels": b_sels})
            b = {"k": "spread", "name": name, "dirs": []}
        else:
            b = {"k": "inline", "on": o2, "dirs": [], "sels": b_sels}
        i = rng.randint(0, len(l))
        l[i:i] = [a, b] if rng.random() < 0.5 else [b, a]
        return "typename-vs-leaf-exclusive-parents-%s:%s" % (how, "String!-vs-" + _shape(g["type"]) + "-" + sv.kind(gs.ty_base(g["type"])))
    return None



def inline_directive_construct(rng, sv, doc):
    """a directive ON AN INLINE FRAGMENT that stands directly in the root selection set of an operation or of a fragment
    definition - typed and bare: `query { ... @skip(if: true) { __typename } }`. The directive's location is
    INLINE_FRAGMENT whatever encloses the fragment (seeded class C06-7: an ancestor stack that does not push inline
    fragments locates it at QUERY / MUTATION / FRAGMENT_DEFINITION, where `@skip` / `@include` are not allowed).
    Also uses a schema directive whose only executable location is INLINE_FRAGMENT when there is one."""
    hosts = [x for x in doc["defs"] if (x["k"] == "op" and x["op"] != "subscription") or x["k"] == "frag"]
    if not hosts:
        return None
    x = rng.choice(hosts)
    root = sv.root(x["op"]) if x["k"] == "op" else x["on"]
    if not root or sv.kind(root) not in ("object", "interface", "union"):
        return None
    only = [d for d in sv.directives.values() if "INLINE_FRAGMENT" in d["locations"]
            and not ({"QUERY", "MUTATION", "FIELD", "FRAGMENT_DEFINITION"} & set(d["locations"]))
            and not any(a["type"][0] == "nonNull" and a.get("default") is None for a in d["args"])]
    if only and rng.random() < 0.5:
        dr = {"name": rng.choice(only)["name"], "args": []}
    else:
        dr = {"name": rng.choice(["skip", "include"]), "args": [{"name": "if", "value": ("bool", rng.random() < 0.5)}]}
    typed = rng.random() < 0.5
    key = "zi" + "".join(rng.choice("abcdefghij") for _ in range(3))
    x["sels"].insert(rng.randint(0, len(x["sels"])),
                     {"k": "inline", "on": root if typed else None, "dirs": [dr],
                      "sels": [{"k": "field", "alias": key, "name": "__typename", "args": [], "dirs": [], "sels": None}]})
    return "directive-on-%s-inline-fragment-at-%s-root:%s" % ("typed" if typed else "bare", x["op"] if x["k"] == "op" else "fragment-definition", dr["name"])


def gen_document(rng, desc, size=2):
    for _ in range(20):
        g = DocGen(rng, desc, size)
        doc = g.document()
        if required_args_ok(g.sv, doc):
            break
    if rng.random() < 0.85:
        feat = exclusive_parents_construct(rng, g.sv, doc, exclusive=True)
        if feat:
            doc["_features"] = [feat]
    if rng.random() < 0.6:
        feat = typename_alias_construct(rng, g.sv, doc, conflict=False)
        if feat:
            doc.setdefault("_features", []).append(feat)
    if rng.random() < 0.7:
        feat = inline_directive_construct(rng, g.sv, doc)
        if feat:
            doc.setdefault("_features", []).append(feat.split(":")[0])
    return doc


def required_args_ok(sv, doc):
    """_strip_vars_dirs may drop a required argument of a duplicated field: reject those documents."""
    ok = [True]

    def chk(parent, sels):
        for s in sels:
            if s["k"] == "field":
                f = sv.field(parent, s["name"]) if s["name"] != "__typename" else None
                if f:
                    given = {a["name"] for a in s["args"]}
                    for a in f.get("args") or []:
                        if a["type"][0] == "nonNull" and a.get("default") is None and a["name"] not in given:
                            ok[0] = False
                    if s["sels"] is not None:
                        chk(gs.ty_base(f["type"]), s["sels"])
            elif s["k"] == "inline":
                chk(s["on"] or parent, s["sels"])
    for d in doc["defs"]:
        if d["k"] == "op":
            chk(sv.root(d["op"]), d["sels"])
        elif d["k"] == "frag":
            chk(d["on"], d["sels"])
    return ok[0]


# ---------------------------------------------------------------------------
# printer
# ---------------------------------------------------------------------------

def value_tokens(v):
    k = v[0]
    if k == "var":
        return ["$" + v[1]]
    if k in ("int", "float", "enum"):
        return [v[1]]
    if k == "str":
        return ['"%s"' % v[1]]
    if k == "bool":
        return ["true" if v[1] else "false"]
    if k == "null":
        return ["null"]
    if k == "list":
        out = ["["]
        for x in v[1]:
            out += value_tokens(x)
        return out + ["]"]
    if k == "obj":
        out = ["{"]
        for n, x in v[1]:
            out += [n, ":"] + value_tokens(x)
        return out + ["}"]
    raise ValueError(v)


def args_tokens(args):
    if not args:
        return []
    out = ["("]
    for a in args:
        out += [a["name"], ":"] + value_tokens(a["value"])
    return out + [")"]


def dirs_tokens(dirs):
    out = []
    for d in dirs:
        out += ["@" + d["name"]] + args_tokens(d["args"])
    return out


def sels_tokens(sels):
    out = ["{"]
    for s in sels:
        if s["k"] == "field":
            if s["alias"]:
                out += [s["alias"], ":"]
            out += [s["name"]] + args_tokens(s["args"]) + dirs_tokens(s["dirs"])
            if s["sels"] is not None:
                out += sels_tokens(s["sels"])
        elif s["k"] == "spread":
            out += ["...", s["name"]] + dirs_tokens(s["dirs"])
        else:
            out += ["..."] + (["on", s["on"]] if s["on"] else []) + dirs_tokens(s["dirs"]) + sels_tokens(s["sels"])
    return out + ["}"]


def def_tokens(d):
    if d["k"] == "ts":
        return [d["text"]]
    if d["k"] == "frag":
        return ["fragment", d["name"], "on", d["on"]] + dirs_tokens(d["dirs"]) + sels_tokens(d["sels"])
    out = []
    short = d["op"] == "query" and d["name"] is None and not d["vars"] and not d["dirs"] and not d.get("long")
    if not short:
        out.append(d["op"])
        if d["name"]:
            out.append(d["name"])
        if d["vars"]:
            out.append("(")
            for v in d["vars"]:
                out += ["$" + v["name"], ":", gs.ty_str(v["type"])]
                if v["default"] is not None:
                    out += ["="] + value_tokens(v["default"])
                out += dirs_tokens(v.get("dirs") or [])
            out.append(")")
        out += dirs_tokens(d["dirs"])
    return out + sels_tokens(d["sels"])


# comments are ended by LF, CRLF and by a LONE CR (a LineTerminator of the grammar; seeded class C06-9)
SEPS = [" ", " ", "\n", ",", " , ", "\t", "  ", ",\n", " # c\n", "\n#x y {\n", "﻿", "\r\n", "\r", " # c } {\r", "#\r", " #x\r\n"]


def to_text(doc, respell_rng=None):
    toks = []
    for d in doc["defs"]:
        toks += def_tokens(d)
    if respell_rng is None:
        return " ".join(toks)
    out = [respell_rng.choice(["", " ", "\n", "# lead\n", ","])]
    for t in toks:
        out.append(t)
        out.append(respell_rng.choice(SEPS))
    return "".join(out)


# ---------------------------------------------------------------------------
# the metamorphic transformations of C06
# ---------------------------------------------------------------------------

def walk_sels(sels, fn):
    for s in sels:
        fn(s)
        if s["k"] == "field" and s["sels"] is not None:
            walk_sels(s["sels"], fn)
        elif s["k"] == "inline":
            walk_sels(s["sels"], fn)


def walk_doc(doc, fn):
    for d in doc["defs"]:
        if d["k"] in ("op", "frag"):
            walk_sels(d["sels"], fn)


def all_dirs(doc):
    out = []
    for d in doc["defs"]:
        if d["k"] in ("op", "frag"):
            out += d["dirs"]
    walk_doc(doc, lambda s: out.extend(s["dirs"]))
    return out


def map_values(doc, fn):
    """apply fn to every value tree (arguments of fields/directives, variable defaults)"""
    def in_args(args):
        for a in args:
            a["value"] = fn(a["value"])
    for dr in all_dirs(doc):
        in_args(dr["args"])
    walk_doc(doc, lambda s: in_args(s["args"]) if s["k"] == "field" else None)
    for d in doc["defs"]:
        if d["k"] == "op":
            for v in d["vars"]:
                if v["default"] is not None:
                    v["default"] = fn(v["default"])


def t_reorder_definitions(rng, doc):
    d = copy.deepcopy(doc)
    rng.shuffle(d["defs"])
    return d


def t_reverse_definitions(rng, doc):
    d = copy.deepcopy(doc)
    d["defs"].reverse()
    return d


def t_reorder_selections(rng, doc):
    d = copy.deepcopy(doc)

    def sh(sels):
        rng.shuffle(sels)
        for s in sels:
            if s["k"] == "field" and s["sels"] is not None:
                sh(s["sels"])
            elif s["k"] == "inline":
                sh(s["sels"])
    for x in d["defs"]:
        if x["k"] in ("op", "frag"):
            sh(x["sels"])
    return d


def t_reorder_arguments(rng, doc):
    d = copy.deepcopy(doc)
    for dr in all_dirs(d):
        rng.shuffle(dr["args"])
    walk_doc(d, lambda s: rng.shuffle(s["args"]) if s["k"] == "field" else None)
    return d


def _inj(rng, names, prefix):
    """an injective renaming of `names` into fresh names (short and long, so that name LENGTH varies)"""
    names = sorted(names)
    pool = [prefix + c for c in "abcdefghijklmnopqrstuvwxyz"] + ["%s%s%d" % (prefix, prefix, i) for i in range(len(names) + 3)]
    rng.shuffle(pool)
    return dict(zip(names, pool))


def t_rename_aliases(rng, doc):
    d = copy.deepcopy(doc)
    names = set()
    walk_doc(d, lambda s: names.add(s["alias"]) if s["k"] == "field" and s["alias"] else None)
    ren = _inj(rng, names, "zq")

    def f(s):
        if s["k"] == "field" and s["alias"]:
            s["alias"] = ren[s["alias"]]
    walk_doc(d, f)
    return d


def t_rename_fragments(rng, doc):
    d = copy.deepcopy(doc)
    names = {x["name"] for x in d["defs"] if x["k"] == "frag"}
    walk_doc(d, lambda s: names.add(s["name"]) if s["k"] == "spread" else None)
    # single capital letters AND long names: the name length must be irrelevant
    pool = list("ABCDEFGHIJKLMNOPQRSTUVWXYZ") if rng.random() < 0.5 else []
    pool = pool[:len(names)] + ["Zf%d" % i for i in range(len(names))]
    rng.shuffle(pool)
    ren = dict(zip(sorted(names), pool))
    for x in d["defs"]:
        if x["k"] == "frag":
            x["name"] = ren[x["name"]]

    def f(s):
        if s["k"] == "spread":
            s["name"] = ren[s["name"]]
    walk_doc(d, f)
    return d


def t_rename_variables(rng, doc):
    d = copy.deepcopy(doc)
    names = set()

    def collect(v):
        if v[0] == "var":
            names.add(v[1])
        elif v[0] == "list":
            for x in v[1]:
                collect(x)
        elif v[0] == "obj":
            for _, x in v[1]:
                collect(x)
        return v
    map_values(d, collect)
    for x in d["defs"]:
        if x["k"] == "op":
            for v in x["vars"]:
                names.add(v["name"])
    ren = _inj(rng, names, "w")

    def rn(v):
        if v[0] == "var":
            return ("var", ren[v[1]])
        if v[0] == "list":
            return ("list", [rn(x) for x in v[1]])
        if v[0] == "obj":
            return ("obj", [(n, rn(x)) for n, x in v[1]])
        return v
    map_values(d, rn)
    for x in d["defs"]:
        if x["k"] == "op":
            for v in x["vars"]:
                v["name"] = ren[v["name"]]
    return d


TRANSFORMS = [
    ("reorder_definitions", t_reorder_definitions),
    ("reverse_definitions", t_reverse_definitions),
    ("reorder_selections", t_reorder_selections),
    ("reorder_arguments", t_reorder_arguments),
    ("rename_aliases", t_rename_aliases),
    ("rename_fragments", t_rename_fragments),
    ("rename_variables", t_rename_variables),
]

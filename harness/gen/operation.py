# -*- coding: utf-8 -*-
"""
Seeded generator of VALID executable documents over a schema description from gen/schema.py
(fragments, inline fragments, aliases, @skip/@include with literals and variables, abstract
types, merged same-key fields, arguments as literals or variables), plus an adversarial
MUTATOR producing parseable but mostly invalid documents (for C05).

`gen_operation(rng, desc, size)` -> dict(text=..., variables=..., opname=..., features=set())

Validity by construction: response keys are allocated from a document-wide registry so that
one key always denotes one (field name, argument text, type) signature; hence any two fields
that can ever be merged are identical up to their sub-selections, which merge recursively.
"""
from gen.schema import desc_type, ty_base, ty_str, default_for

BUILTIN = ("Int", "Float", "String", "Boolean", "ID")


def kind_of(desc, name):
    t = desc_type(desc, name)
    if t is None:
        return "scalar"
    return t["kind"]


def possible_types(desc, name):
    t = desc_type(desc, name)
    if t is None:
        return []
    if t["kind"] == "object":
        return [name]
    if t["kind"] == "union":
        return list(t["members"])
    if t["kind"] == "interface":
        return [o["name"] for o in desc["types"] if o["kind"] == "object" and name in o.get("interfaces", [])]
    return []


def json_value_for(rng, t, desc, depth=0):
    """a JSON value acceptable for input type t (leaf-based types only); returns (ok, value)"""
    if t[0] == "nonNull":
        ok, v = json_value_for(rng, t[1], desc, depth)
        return (ok and v is not None), v
    if rng.random() < 0.1:
        return True, None
    if t[0] == "list":
        items = []
        for _ in range(rng.randint(0, 2)):
            ok, v = json_value_for(rng, t[1], desc, depth + 1)
            if not ok:
                return False, None
            items.append(v)
        return True, items
    b = t[1]
    if b == "Int":
        return True, rng.choice([0, 1, -7, 42])
    if b == "Float":
        return True, rng.choice([0.5, 1.0, -2.25, 3])
    if b == "String":
        return True, rng.choice(["a", "", "x y"])
    if b == "Boolean":
        return True, rng.choice([True, False])
    if b == "ID":
        return True, rng.choice(["id1", "7"])
    td = desc_type(desc, b)
    if td is not None and td["kind"] == "enum":
        return True, rng.choice(td["values"])["name"]
    if td is not None and td["kind"] == "scalar":
        return True, rng.choice([1, "s"])
    return False, None


class OpGen:
    def __init__(self, rng, desc, size=3, p_fragment=0.35, p_directive=0.25, p_alias=0.25, p_avoid_v2=0.3):
        self.p_avoid_v2 = p_avoid_v2
        self.rng = rng
        self.desc = desc
        self.size = size
        self.p_fragment = p_fragment
        self.p_directive = p_directive
        self.p_alias = p_alias
        self.keys = {}        # response key -> signature
        self.sig_key = {}     # signature -> key (unaliased)
        self.vars = {}        # name -> (type string, has default literal or None, provide value?, value)
        self.frag_defs = []   # (name, type condition, body text)
        self.frag_types = {}  # name -> type condition
        self.features = set()
        self.budget = 6 + 5 * size
        self.nfrag = 0
        self.nvar = 0
        self.nmg = 0
        self.p_merged_groups = 0.12 if p_alias > 0 else 0.0

    # ---- variables ----------------------------------------------------
    def bool_var(self):
        r = self.rng
        # reuse sometimes
        existing = [n for n in self.vars if n.startswith("b")]
        if existing and r.random() < 0.5:
            return r.choice(existing)
        name = "b%d" % self.nvar
        self.nvar += 1
        k = r.random()
        if k < 0.6:
            self.vars[name] = {"type": "Boolean!", "default": None, "provided": True, "value": r.choice([True, False])}
        elif k < 0.8:
            self.vars[name] = {"type": "Boolean", "default": r.choice(["true", "false"]), "provided": False, "value": None}
        elif k < 0.93:
            self.vars[name] = {"type": "Boolean", "default": r.choice(["true", "false"]), "provided": True,
                               "value": r.choice([True, False])}
        else:
            # nullable variable with a default, explicitly set to null: the validator accepts it at `if: Boolean!`
            # (the default makes it allowed) and the condition cannot be evaluated at run time -> field error (4e87d3d)
            self.vars[name] = {"type": "Boolean", "default": r.choice(["true", "false"]), "provided": True, "value": None}
            self.features.add("directive-null-variable")
        self.features.add("directive-variable")
        return name

    def directives(self):
        r = self.rng
        if r.random() > self.p_directive:
            return ""
        out = []
        names = r.choice([["skip"], ["include"], ["skip", "include"], ["include", "skip"]])
        for n in names:
            if r.random() < 0.03:
                # a list literal at `if: Boolean!` passes validation (finding V8) and is a field error at run time
                out.append("@%s(if: [%s])" % (n, r.choice(["true", "false"])))
                self.features.add("directive-bad-literal")
            elif r.random() < 0.5:
                out.append("@%s(if: %s)" % (n, r.choice(["true", "false"])))
            else:
                out.append("@%s(if: $%s)" % (n, self.bool_var()))
        self.features.add("directive")
        return " " + " ".join(out)

    # ---- arguments ------------------------------------------------------
    def arguments(self, fdef):
        """returns argument text or None if the required arguments cannot be provided"""
        r = self.rng
        parts = []
        saved = dict(self.vars)
        for a in fdef.get("args") or []:
            t = a["type"]
            required = t[0] == "nonNull" and a.get("default") is None
            if not required and r.random() < 0.5:
                continue
            use_var = r.random() < 0.35 and kind_of(self.desc, ty_base(t)) != "input"
            if use_var:
                ok, v = json_value_for(r, t, self.desc)
                if ok:
                    name = "v%d" % self.nvar
                    self.nvar += 1
                    provided = True if t[0] == "nonNull" else r.random() < 0.7
                    self.vars[name] = {"type": ty_str(t), "default": None, "provided": provided, "value": v}
                    parts.append("%s: $%s" % (a["name"], name))
                    self.features.add("argument-variable")
                    continue
            lit = None
            for _ in range(4):
                lit = default_for(r, t, self.desc)
                if lit is not None and not (lit == "null" and t[0] == "nonNull"):
                    break
                lit = None
            if lit is None:
                if required:
                    self.vars = saved
                    return None
                continue
            parts.append("%s: %s" % (a["name"], lit))
            self.features.add("argument-literal")
        if r.random() < 0.3:
            r.shuffle(parts)
        return "(" + ", ".join(parts) + ")" if parts else ""

    # ---- selection sets ---------------------------------------------------
    def key_for(self, name, args, tstr):
        r = self.rng
        sig = (name, args, tstr)
        if r.random() < self.p_alias:
            alias = "%s%d" % (r.choice(["al", "x", "k"]), r.randint(0, 3))
            if self.keys.get(alias, sig) == sig and alias != name:
                self.keys[alias] = sig
                self.features.add("alias")
                return alias, alias + ": "
        complex_args = any(c in args for c in "[{$") or "null" in args
        if sig in self.sig_key and complex_args and r.random() < self.p_avoid_v2:
            i = 0
            while True:
                alias = "%s_u%d" % (name, i)
                if alias not in self.keys:
                    self.keys[alias] = sig
                    return alias, alias + ": "
                i += 1
        if sig in self.sig_key:
            self.features.add("same-key-merge-candidate")
            return self.sig_key[sig], ("" if self.sig_key[sig] == name else self.sig_key[sig] + ": ")
        if self.keys.get(name, sig) == sig:
            self.keys[name] = sig
            self.sig_key[sig] = name
            return name, ""
        i = 0
        while True:
            alias = "%s_%d" % (name, i)
            if self.keys.get(alias, sig) == sig:
                self.keys[alias] = sig
                self.sig_key[sig] = alias
                self.features.add("alias")
                return alias, alias + ": "
            i += 1

    def fields_of(self, tname):
        t = desc_type(self.desc, tname)
        if t is None or t["kind"] not in ("object", "interface"):
            return []
        return t["fields"]

    def selection_set(self, tname, depth, in_fragment=None):
        """text of `{ ... }` for composite type tname"""
        r = self.rng
        items = []
        kind = kind_of(self.desc, tname)
        n = r.randint(1, 2 + self.size // 2)
        fields = self.fields_of(tname)
        for _ in range(n):
            self.budget -= 1
            choice = r.random()
            deep = depth >= self.size + 1 or self.budget <= 0
            if deep:
                lf = [f for f in fields if kind_of(self.desc, ty_base(f["type"])) in ("scalar", "enum")]
                if not lf:
                    items.append("__typename")
                    continue
                txt = self.field(r.choice(lf), depth)
                if txt:
                    items.append(txt)
            elif kind in ("object", "interface") and fields and choice < 0.6:
                f = r.choice(fields)
                txt = self.field(f, depth)
                if txt:
                    items.append(txt)
            elif choice < 0.7:
                items.append("__typename" + self.directives())
                self.features.add("__typename")
            elif choice < 0.85 and depth <= self.size and self.budget > 0:
                items.append(self.inline_fragment(tname, depth))
            elif depth <= self.size and self.budget > 0 and r.random() < self.p_fragment * 2:
                s = self.spread(tname, depth, in_fragment)
                if s:
                    items.append(s)
            elif fields:
                txt = self.field(r.choice(fields), depth)
                if txt:
                    items.append(txt)
        if not items:
            items.append("__typename")
        # a spread repeated AFTER an inline fragment that already contains it: the shape on which the
        # `_seen_fragments` rebinding of collect_fields duplicates nodes
        import re as _re
        inner = [m for it in items if it.startswith("... on") or it.startswith("... {") or it.startswith("... @")
                 for m in _re.findall(r"\.\.\.(F\d+)", it)]
        if inner and r.random() < 0.5:
            items.append("..." + r.choice(inner))
            self.features.add("quirk-candidate")
        # SEVERAL groups of same-key object fields at one level, each group merging DIFFERENT sub-selections of the same
        # field (`a: pet { name } a: pet { age }  b: pet { nick } b: pet { color } ...`): the merged selection lists are
        # temporaries built one after the other (a cache keyed on their identity would hand group b the fields of group a)
        if kind in ("object", "interface") and r.random() < self.p_merged_groups and depth <= self.size + 1:
            txt = self.merged_groups(fields, depth)
            if txt:
                items.extend(txt)
        # repeat an item sometimes (same-key merging of identical nodes)
        if r.random() < 0.2:
            it = r.choice(items)
            if not (any(c in it for c in "[{$") or "null" in it) or r.random() > self.p_avoid_v2:
                items.append(it)
                self.features.add("repeated-selection")
        sep = r.choice([" ", "\n  ", ", "])
        return "{" + sep + sep.join(items) + sep + "}"

    def merged_groups(self, fields, depth):
        r = self.rng
        cands = []
        for f in fields:
            base = ty_base(f["type"])
            if kind_of(self.desc, base) != "object":
                continue
            leafs = [g for g in self.fields_of(base) if kind_of(self.desc, ty_base(g["type"])) in ("scalar", "enum")
                     and not any(a["type"][0] == "nonNull" and a.get("default") is None for a in g.get("args") or [])]
            if len(leafs) >= 2:
                cands.append((f, leafs))
        if not cands:
            return None
        f, leafs = r.choice(cands)
        args = self.arguments(f)
        if args is None:
            return None
        out = []
        for g in range(r.randint(2, 4)):
            key = "mg%d_%d" % (self.nmg, g)
            self.keys[key] = (f["name"], args, ty_str(f["type"]))
            parts = []
            for _ in range(r.randint(2, 3)):
                sub = r.sample(leafs, r.randint(1, min(2, len(leafs))))
                parts.append("%s: %s%s { %s }" % (key, f["name"], args, " ".join(x["name"] for x in sub)))
            out.extend(parts)
        self.nmg += 1
        self.budget -= 2
        self.features.add("merged-groups")
        if "[" in ty_str(f["type"]):
            self.features.add("list-field")
        return out

    def field(self, f, depth):
        r = self.rng
        args = self.arguments(f)
        if args is None:
            return None
        base = ty_base(f["type"])
        k = kind_of(self.desc, base)
        key, prefix = self.key_for(f["name"], args, ty_str(f["type"]))
        txt = prefix + f["name"] + args + self.directives()
        if k in ("object", "interface", "union"):
            if k != "object":
                self.features.add("abstract-field")
            txt += " " + self.selection_set(base, depth + 1)
        if "[" in ty_str(f["type"]):
            self.features.add("list-field")
        return txt

    def cond_types(self, tname):
        """type conditions that may be spread inside tname (possible types overlap)"""
        mine = set(possible_types(self.desc, tname))
        out = []
        for t in self.desc["types"]:
            if t["kind"] in ("object", "interface", "union") and mine & set(possible_types(self.desc, t["name"])):
                out.append(t["name"])
        return out or [tname]

    def inline_fragment(self, tname, depth):
        r = self.rng
        self.features.add("inline-fragment")
        if r.random() < 0.25:
            return "..." + self.directives() + " " + self.selection_set(tname, depth + 1)
        cond = r.choice(self.cond_types(tname))
        if cond != tname:
            self.features.add("narrowing-condition")
        return "... on " + cond + self.directives() + " " + self.selection_set(cond, depth + 1)

    def spread(self, tname, depth, in_fragment):
        r = self.rng
        conds = self.cond_types(tname)
        reusable = [n for n, c in self.frag_types.items() if c in conds and n != in_fragment and self.frag_done.get(n)]
        if reusable and r.random() < 0.5:
            name = r.choice(reusable)
            self.features.add("fragment-reused")
        else:
            if self.nfrag >= 2 + self.size:
                return None
            name = "F%d" % self.nfrag
            self.nfrag += 1
            cond = r.choice(conds)
            self.frag_types[name] = cond
            self.frag_done[name] = False
            body = self.selection_set(cond, depth + 1, in_fragment=name)
            self.frag_done[name] = True
            self.frag_defs.append((name, cond, body))
        self.features.add("fragment-spread")
        if r.random() < 0.4:
            return self.multi_spread(name, tname)
        return "..." + name + self.directives()

    def cond_dir(self, enabled):
        """text of ONE @skip/@include that evaluates to `enabled`, as a literal or through a fresh variable"""
        r = self.rng
        use_skip = r.random() < 0.5
        truth = (not enabled) if use_skip else enabled
        if r.random() < 0.5:
            val = "true" if truth else "false"
        else:
            name = "b%d" % self.nvar
            self.nvar += 1
            if r.random() < 0.75:
                self.vars[name] = {"type": "Boolean!", "default": None, "provided": True, "value": truth}
            else:
                self.vars[name] = {"type": "Boolean", "default": "true" if truth else "false", "provided": False, "value": None}
            val = "$" + name
            self.features.add("directive-variable")
        return "@%s(if: %s)" % ("skip" if use_skip else "include", val)

    def multi_spread(self, name, tname):
        """the SAME fragment spread several times in one selection set under different conditions (literal and
        variable), directly, inside inline fragments and through another fragment; a disabled first spread followed
        by an enabled one is the frequent shape (a visited-set updated too early would drop the second)."""
        r = self.rng
        k = r.randint(2, 3)
        flags = [r.random() < 0.5 for _ in range(k)]
        if r.random() < 0.6:
            flags[0] = False
        if r.random() < 0.8:
            flags[-1] = True
        parts = []
        for i, en in enumerate(flags):
            d = "" if (en and r.random() < 0.3) else " " + self.cond_dir(en)
            sp = "..." + name + d
            w = r.random()
            if w < 0.2:
                sp = "... { " + sp + " }"
                self.features.add("multi-spread-nested-inline")
            elif w < 0.35 and kind_of(self.desc, tname) in ("object", "interface", "union"):
                sp = "... on " + tname + " { " + sp + " }"
                self.features.add("multi-spread-nested-inline")
            elif w < 0.5 and kind_of(self.desc, tname) in ("object", "interface", "union"):
                g = "G%d" % self.nfrag
                self.nfrag += 1
                self.frag_types[g] = tname
                self.frag_done[g] = True
                self.frag_defs.append((g, tname, "{ " + sp + " }"))
                sp = "..." + g + ("" if r.random() < 0.5 else " " + self.cond_dir(True))
                self.features.add("multi-spread-nested-fragment")
            parts.append(sp)
            if i + 1 < k and r.random() < 0.6:
                parts.append("__typename")
        self.features.add("multi-spread")
        if not flags[0] and any(flags[1:]):
            self.features.add("multi-spread-disabled-then-enabled")
        return " ".join(parts)

    frag_done = None

    def operation(self):
        r = self.rng
        self.frag_done = {}
        op = "query"
        root = self.desc["query"]
        if self.desc.get("mutation") and r.random() < 0.25:
            op, root = "mutation", self.desc["mutation"]
            self.features.add("mutation")
        body = self.selection_set(root, 0)
        name = r.choice([None, "Op", "Q1"])
        vdefs = []
        variables = {}
        for vn, v in self.vars.items():
            vdefs.append("$%s: %s%s" % (vn, v["type"], (" = " + v["default"]) if v["default"] is not None else ""))
            if v["provided"]:
                variables[vn] = v["value"]
        head = op
        if name:
            head += " " + name
        if vdefs:
            head += "(" + ", ".join(vdefs) + ")"
            if not name and False:
                pass
        if op == "query" and not name and not vdefs and r.random() < 0.5:
            head = ""
        defs = [(head + " " + body).strip()]
        for fname, cond, fbody in self.frag_defs:
            defs.append("fragment %s on %s %s" % (fname, cond, fbody))
        opname = None
        if name and r.random() < 0.3:
            # a second, simple operation: the compared one must be selected by name
            defs.append("query Other { __typename }")
            opname = name
            self.features.add("two-operations")
        elif name and r.random() < 0.3:
            opname = name
        if r.random() < 0.3:
            first = defs[0]
            rest = defs[1:]
            r.shuffle(rest)
            pos = r.randint(0, len(rest))
            defs = rest[:pos] + [first] + rest[pos:]
        text = r.choice(["\n", "\n\n", " "]).join(defs)
        return {"text": text, "variables": variables, "opname": opname, "features": set(self.features)}


def gen_operation(rng, desc, size=3, **kw):
    return OpGen(rng, desc, size, **kw).operation()


# ---------------------------------------------------------------------------
# adversarial stream for C05: parseable, mostly INVALID documents
# ---------------------------------------------------------------------------

def _first_fields(desc, tname, with_args=None):
    t = desc_type(desc, tname)
    out = []
    for f in (t or {}).get("fields", []):
        if with_args is None or bool(f.get("args")) == with_args:
            out.append(f)
    return out


def adversarial_documents(rng, desc, n):
    """yield (label, text, variables)"""
    root = desc["query"]
    rf = _first_fields(desc, root)
    comp = [f for f in rf if kind_of(desc, ty_base(f["type"])) in ("object", "interface", "union")]
    leaf = [f for f in rf if kind_of(desc, ty_base(f["type"])) in ("scalar", "enum")]
    witha = [f for f in rf if f.get("args")]
    out = []

    def sub(f):
        b = ty_base(f["type"])
        if kind_of(desc, b) in ("scalar", "enum"):
            return ""
        return " { __typename }"

    def req_args(f, override=None):
        parts = []
        for a in f.get("args") or []:
            if override and a["name"] in override:
                parts.append("%s: %s" % (a["name"], override[a["name"]]))
            elif a["type"][0] == "nonNull" and a.get("default") is None:
                lit = default_for(rng, a["type"], desc) or "null"
                parts.append("%s: %s" % (a["name"], lit))
        return "(" + ", ".join(parts) + ")" if parts else ""

    # same response key through an object-typed and an abstract-typed fragment, both orders
    for it in desc["types"]:
        if it["kind"] != "interface":
            continue
        impls = [o for o in desc["types"] if o["kind"] == "object" and it["name"] in o.get("interfaces", [])]
        roots = [f for f in rf if ty_base(f["type"]) == it["name"] or
                 (kind_of(desc, ty_base(f["type"])) == "union" and any(o["name"] in desc_type(desc, ty_base(f["type"]))["members"] for o in impls))]
        if not impls or not roots:
            continue
        o = rng.choice(impls)
        q = rng.choice(roots)

        def leafs(t):
            return [f for f in t["fields"] if kind_of(desc, ty_base(f["type"])) in ("scalar", "enum")
                    and not any(a["type"][0] == "nonNull" and a.get("default") is None for a in f.get("args") or [])]
        lo, li = leafs(o), leafs(it)
        if not lo or not li:
            continue
        f1, f2 = rng.choice(lo), rng.choice(li)
        a = "... on %s { n: %s }" % (o["name"], f1["name"])
        b = "... on %s { n: %s }" % (it["name"], f2["name"])
        for lab, parts in (("same-key-object-then-abstract", (a, b)), ("same-key-abstract-then-object", (b, a))):
            out.append((lab, "{ %s%s { __typename %s %s } }" % (q["name"], req_args(q), parts[0], parts[1]), {}))
        # same field, DIFFERENT arguments (the interface field and its implementation share the name)
        shared = [f for f in li if f.get("args") and any(g["name"] == f["name"] for g in lo)]
        for f in shared[:1]:
            ar = rng.choice(f["args"])
            l1 = default_for(rng, ar["type"], desc)
            l2 = None
            for _ in range(6):
                l2 = default_for(rng, ar["type"], desc)
                if l2 is not None and l2 != l1:
                    break
            if l1 is None or l2 is None or l1 == l2 or "null" in (l1, l2):
                continue
            a2 = "... on %s { n: %s(%s: %s) }" % (o["name"], f["name"], ar["name"], l1)
            b2 = "... on %s { n: %s(%s: %s) }" % (it["name"], f["name"], ar["name"], l2)
            for lab, parts in (("same-key-object-then-abstract-args", (a2, b2)), ("same-key-abstract-then-object-args", (b2, a2))):
                out.append((lab, "{ %s%s { __typename %s %s } }" % (q["name"], req_args(q), parts[0], parts[1]), {}))
        break
    # MergeSafe but not KeyConsistent: the same response key for DIFFERENT fields of mutually exclusive object types, and at
    # different nesting levels
    for it in desc["types"]:
        if it["kind"] != "interface":
            continue
        impls = [o for o in desc["types"] if o["kind"] == "object" and it["name"] in o.get("interfaces", [])]
        qI = [f for f in rf if ty_base(f["type"]) == it["name"]]
        if len(impls) < 2 or not qI:
            continue

        def free(t):
            return [f for f in t["fields"] if not any(a["type"][0] == "nonNull" and a.get("default") is None for a in f.get("args") or [])]
        o1, o2 = rng.sample(impls, 2)
        pairs = [(f1, f2) for f1 in free(o1) for f2 in free(o2)
                 if f1["name"] != f2["name"] and ty_str(f1["type"]) == ty_str(f2["type"])]
        if not pairs:
            continue
        f1, f2 = rng.choice(pairs)
        fi = rng.choice(qI)
        s1, s2 = sub(f1), sub(f2)
        out.append(("merge-safe-exclusive", "{ %s%s { __typename ... on %s { v: %s%s } ... on %s { v: %s%s } } }" % (
            fi["name"], req_args(fi), o1["name"], f1["name"], s1, o2["name"], f2["name"], s2), {}))
        out.append(("merge-safe-exclusive-fragments", "{ %s%s { ...MA ...MB } } fragment MA on %s { v: %s%s } fragment MB on %s { v: %s%s }" % (
            fi["name"], req_args(fi), o1["name"], f1["name"], s1, o2["name"], f2["name"], s2), {}))
        break
    if leaf and comp:
        f = rng.choice(leaf)
        g = rng.choice(comp)
        gt = desc_type(desc, ty_base(g["type"]))
        inner = [h for h in (gt.get("fields") or []) if kind_of(desc, ty_base(h["type"])) in ("scalar", "enum")
                 and not any(a["type"][0] == "nonNull" and a.get("default") is None for a in h.get("args") or [])] if gt else []
        body = ("a: %s" % rng.choice(inner)["name"]) if inner else "a: __typename"
        out.append(("merge-safe-levels", "{ a: %s%s %s%s { %s } }" % (f["name"], req_args(f), g["name"], req_args(g), body), {}))
    # conflicts NESTED below same-key composite fields (sub-conflicts, reported with the nodes of every level), at depth
    # 1..3, also through fragments: the rule collects, sorts and formats the nodes of all levels
    def noreq(h):
        return not any(a["type"][0] == "nonNull" and a.get("default") is None for a in h.get("args") or [])

    def nested_conflict(tname, depth):
        """(selection A, selection B) on type tname conflicting at `depth` levels below"""
        t = desc_type(desc, tname)
        fs = [h for h in (t.get("fields") or []) if noreq(h)] if t and t["kind"] in ("object", "interface") else []
        leafs = [h for h in fs if kind_of(desc, ty_base(h["type"])) in ("scalar", "enum")]
        comps = [h for h in fs if kind_of(desc, ty_base(h["type"])) in ("object", "interface")]
        if depth <= 0 or not comps:
            if len(leafs) >= 2:
                a, b = rng.sample(leafs, 2)
                return "x: %s" % a["name"], "x: %s" % b["name"]
            if leafs:
                return "x: %s" % leafs[0]["name"], "x: __typename"
            return None
        g = rng.choice(comps)
        r = nested_conflict(ty_base(g["type"]), depth - 1)
        if r is None:
            return None
        return "%s { %s }" % (g["name"], r[0]), "%s { %s }" % (g["name"], r[1])
    for g in [f for f in comp if kind_of(desc, ty_base(f["type"])) in ("object", "interface")][:2]:
        r = nested_conflict(ty_base(g["type"]), rng.randint(0, 2))
        if r is None:
            continue
        head = "%s%s" % (g["name"], req_args(g))
        if rng.random() < 0.5:
            out.append(("nested-subconflict", "{ %s { %s } %s { %s } }" % (head, r[0], head, r[1]), {}))
        else:
            tn = ty_base(g["type"])
            out.append(("nested-subconflict-fragments", "{ %s { ...NA } %s { ...NB } } fragment NA on %s { %s } fragment NB on %s { %s }"
                        % (head, head, tn, r[0], tn, r[1]), {}))
    # untyped inline fragments: under an ABSTRACT-typed field, a field whose type IMPLEMENTS that abstract type contains an
    # untyped inline fragment; then, one level up (in the abstract type's own selection set), another untyped inline
    # fragment selects implementation-only fields. A type-info stack that leaks the inner type would validate them.
    for it in desc["types"]:
        if it["kind"] != "interface":
            continue
        impls = {o["name"]: o for o in desc["types"] if o["kind"] == "object" and it["name"] in o.get("interfaces", [])}
        qI = [f for f in rf if ty_base(f["type"]) == it["name"]]
        inner = [f for f in it["fields"] if ty_base(f["type"]) in impls
                 and not any(a["type"][0] == "nonNull" and a.get("default") is None for a in f.get("args") or [])]
        if not qI or not inner:
            continue
        fin = rng.choice(inner)
        o = impls[ty_base(fin["type"])]
        own = [f for f in o["fields"] if not any(g["name"] == f["name"] for g in it["fields"])
               and not any(a["type"][0] == "nonNull" and a.get("default") is None for a in f.get("args") or [])]
        if not own:
            continue
        fi = rng.choice(qI)
        d1 = rng.choice(["", " @include(if: true)", " @skip(if: false)"])
        d2 = rng.choice(["", " @include(if: true)"])
        for w in own[:2]:
            for lb in ("...%s { __typename }" % d1, "...%s { ...%s { __typename } }" % (d1, d2)):
                out.append(("untyped-inline-leak", "{ %s%s { __typename %s { %s } ...%s { %s%s } } }" % (
                    fi["name"], req_args(fi), fin["name"], lb, d2, w["name"], sub(w)), {}))
        break
    for _ in range(n):
        k = rng.randint(0, 13)
        any_f = rng.choice(rf)
        if k == 0:
            out.append(("frag-unknown-type-inline", "{ ... on Unknown%d { a } }" % rng.randint(0, 2), {}))
        elif k == 1:
            out.append(("frag-unknown-type-def", "{ ...F } fragment F on Nope { a }", {}))
        elif k == 2 and comp:
            f = rng.choice(comp)
            out.append(("frag-unknown-type-nested", "{ %s%s { ... on Unknown { a } } }" % (f["name"], req_args(f)), {}))
        elif k in (3, 4, 5, 6) and witha:
            f = rng.choice(witha)
            a = rng.choice(f["args"])
            val = {3: "[1]", 4: "{a: 1}", 5: "null", 6: "$v"}[k]
            if rng.random() < 0.5:
                lit = default_for(rng, a["type"], desc)
                if lit is not None and k != 6 and (lit[0] in "[{" or lit == "null"):
                    val = lit
            text = "{ %s%s%s %s%s%s }" % (f["name"], req_args(f, {a["name"]: val}), sub(f),
                                         f["name"], req_args(f, {a["name"]: val}), sub(f))
            vs = {}
            if k == 6:
                text = "query($v: %s) %s" % (ty_str(a["type"]), text)
                ok, v = json_value_for(rng, a["type"], desc)
                if ok and v is not None:
                    vs = {"v": v}
            out.append(("dup-field-%s-arg" % {3: "list", 4: "object", 5: "null", 6: "variable"}[k], text, vs))
        elif k == 7 and len(witha) >= 1:
            f = rng.choice(witha)
            args = f["args"]
            a1 = rng.choice(args)
            g = rng.choice(witha)
            a2 = rng.choice(g["args"])
            t = rng.choice([a1["type"], a2["type"], ("named", "Int"), ("named", "String")])
            text = "query($v: %s) { x: %s%s%s y: %s%s%s }" % (
                ty_str(t), f["name"], req_args(f, {a1["name"]: "$v"}), sub(f),
                g["name"], req_args(g, {a2["name"]: "$v"}), sub(g))
            ok, v = json_value_for(rng, t, desc)
            out.append(("variable-two-positions", text, {"v": v} if ok and v is not None else {}))
        elif k == 8:
            out.append(("unknown-field", "{ nope%d %s%s%s }" % (rng.randint(0, 3), any_f["name"], req_args(any_f), sub(any_f)), {}))
        elif k == 9:
            names = ["Fa", "Fbb", "Fccc"]
            rng.shuffle(names)
            a, b, c = names
            inner = "%s%s%s" % (any_f["name"], req_args(any_f), sub(any_f))
            other = rng.choice(rf)
            alias_conflict = "%s: %s%s%s" % (any_f["name"], other["name"], req_args(other), sub(other))
            text = ("{ ...%s } fragment %s on %s { ...%s %s } fragment %s on %s { ...%s } fragment %s on %s { %s }"
                    % (a, a, root, b, inner, b, root, c, c, root, alias_conflict))
            out.append(("nested-fragments-conflict", text, {}))
        elif k == 10 and rng.random() < 0.5:
            text = "{ ...A } fragment A on %s { ...B } fragment B on %s { ...A %s%s%s }" % (
                root, root, any_f["name"], req_args(any_f), sub(any_f))
            out.append(("fragment-cycle", text, {}))
        elif k == 10 and rng.random() < 0.5:
            # an ACYCLIC entry chain (length 1..3) leading INTO a cycle (length 2..3, sometimes 1): Entry -> A -> B -> A.
            # Every definition order; the chain is spread from the operation, sometimes also from another acyclic fragment.
            pool = ["Entry", "Mid", "Pre", "A", "B", "C", "Zz", "a0"]
            rng.shuffle(pool)
            nchain, ncyc = rng.randint(1, 3), rng.choice([1, 2, 2, 3, 3])
            chain, cyc = pool[:nchain], pool[nchain:nchain + ncyc]
            inner = "%s%s%s" % (any_f["name"], req_args(any_f), sub(any_f))
            defs = []
            for i, n in enumerate(chain):
                nxt = chain[i + 1] if i + 1 < len(chain) else cyc[0]
                defs.append("fragment %s on %s { %s...%s }" % (n, root, (inner + " ") if rng.random() < 0.5 else "", nxt))
            for i, n in enumerate(cyc):
                nxt = cyc[(i + 1) % len(cyc)]
                defs.append("fragment %s on %s { ...%s%s }" % (n, root, nxt, (" " + inner) if rng.random() < 0.5 else ""))
            spreads = ["..." + chain[0]]
            if rng.random() < 0.4:
                defs.append("fragment Side on %s { ...%s }" % (root, rng.choice(chain)))
                spreads.append("...Side")
            order = rng.choice(["as-is", "reversed", "shuffled"])
            if order == "reversed":
                defs.reverse()
            elif order == "shuffled":
                rng.shuffle(defs)
            rng.shuffle(spreads)
            out.append(("fragment-cycle-behind-entry", "{ %s } %s" % (" ".join(spreads), " ".join(defs)), {}))
        elif k == 10:
            # a fragment cycle NEXT TO an acyclic fragment, names in every alphabetical arrangement (memo tables keyed
            # by sorted name pairs), the cycle of length 1..3, the acyclic fragment also spread inside the cycle
            names = rng.sample(["Alpha", "Back", "Loop", "Mid", "Zed", "A0", "b1"], 4)
            ok_name, cyc = names[0], names[1:1 + rng.randint(1, 3)]
            inner = "%s%s%s" % (any_f["name"], req_args(any_f), sub(any_f))
            defs = ["fragment %s on %s { %s }" % (ok_name, root, inner)]
            for i, n in enumerate(cyc):
                nxt = cyc[(i + 1) % len(cyc)]
                extra = (" ..." + ok_name) if rng.random() < 0.4 else ""
                defs.append("fragment %s on %s { ...%s%s%s }" % (n, root, nxt, extra, (" " + inner) if rng.random() < 0.5 else ""))
            rng.shuffle(defs)
            spreads = ["..." + ok_name, "..." + cyc[0]] + (["..." + rng.choice(cyc)] if rng.random() < 0.3 else [])
            rng.shuffle(spreads)
            out.append(("fragment-cycle-beside-acyclic", "{ %s } %s" % (" ".join(spreads), " ".join(defs)), {}))
        elif k == 11 and rng.random() < 0.5 and any(a.get("default") not in (None, "null") and a["type"][0] != "nonNull" for f in witha for a in f["args"]):
            # the same field once WITHOUT the argument (its non-null default applies) and once with an explicit `null`:
            # two different calls under one response key -- must be rejected
            f = rng.choice([f for f in witha if any(a.get("default") not in (None, "null") and a["type"][0] != "nonNull" for a in f["args"])])
            a = rng.choice([a for a in f["args"] if a.get("default") not in (None, "null") and a["type"][0] != "nonNull"])
            one = "%s%s%s" % (f["name"], req_args(f), sub(f))
            two = "%s%s%s" % (f["name"], req_args(f, {a["name"]: "null"}), sub(f))
            pair = [one, two]
            rng.shuffle(pair)
            out.append(("dup-field-null-vs-default", "{ %s %s }" % tuple(pair), {}))
        elif k == 11 and leaf:
            f = rng.choice(leaf)
            out.append(("subselection-on-leaf", "{ %s%s { x } }" % (f["name"], req_args(f)), {}))
        elif k == 12 and comp:
            f = rng.choice(comp)
            out.append(("missing-subselection", "{ %s%s }" % (f["name"], req_args(f)), {}))
        elif k == 13:
            out.append(("bad-directive", "{ %s%s @skip%s %s }" % (any_f["name"], req_args(any_f),
                                                                  rng.choice(["", "(if: 1)", "(if: $nope)", "(iff: true)"]), sub(any_f)), {}))
        else:
            out.append(("undefined-fragment", "{ ...Missing %s%s%s }" % (any_f["name"], req_args(any_f), sub(any_f)), {}))
    return out


def mutate_text(rng, text, desc):
    """token-level mutation of a valid document that keeps it (mostly) parseable"""
    import re
    toks = re.findall(r"\.\.\.|[A-Za-z_][A-Za-z_0-9]*|\$[A-Za-z_0-9]+|\"[^\"]*\"|-?\d+(?:\.\d+)?|\S", text)
    if not toks:
        return text
    k = rng.randint(0, 5)
    names = [i for i, t in enumerate(toks) if re.match(r"^[A-Za-z_]", t) and t not in ("on", "query", "mutation", "fragment", "true", "false", "null")]
    if k == 0 and names:
        i = rng.choice(names)
        toks[i] = rng.choice([toks[rng.choice(names)], "zzz", "Query", "String", "__typename"])
    elif k == 1 and names:
        i = rng.choice(names)
        j = rng.choice(names)
        toks[i], toks[j] = toks[j], toks[i]
    elif k == 2:
        # duplicate a balanced field region: find "name (" ... ")" or a single name
        if names:
            i = rng.choice(names)
            toks.insert(i, toks[i])
    elif k == 3:
        vs = [i for i, t in enumerate(toks) if t.startswith("$")]
        if vs:
            toks[rng.choice(vs)] = rng.choice(["$zz", "1", "null", "[1]", "{a: 1}"])
    elif k == 4:
        lits = [i for i, t in enumerate(toks) if re.match(r"^(-?\d|\"|true$|false$|null$)", t)]
        if lits:
            toks[rng.choice(lits)] = rng.choice(["1", "\"s\"", "null", "[1]", "{a: 1}", "true", "$b0", "E0_V0", "1.5"])
    else:
        alln = [t["name"] for t in desc["types"]] + ["Unknown"]
        ons = [i for i, t in enumerate(toks) if t == "on"]
        if ons:
            i = rng.choice(ons)
            if i + 1 < len(toks):
                toks[i + 1] = rng.choice(alln)
    return " ".join(toks).replace("... ", "...").replace("$ ", "$").replace("@ ", "@")

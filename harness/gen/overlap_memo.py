# -*- coding: utf-8 -*-
"""
Generator CLASS `exclusive-then-strict` (INVALID documents that must be REJECTED): the SAME pair (selection set, fragment)
is compared by OverlappingFieldsCanBeMerged twice - first below MUTUALLY EXCLUSIVE parents (only the response shapes
must agree), later in a NON-exclusive context (same field, same arguments required) - in that document order. The
conflict (`a: l1` / `a: l2`, same return type; or the same field with different arguments) exists only in the second
comparison. A memo of compared (field map, fragment) pairs that lets the lenient comparison cover the strict one
(seeded C05-11) accepts the document; execution then has two different fields for one response key.

Deterministic: a function of the schema description (no random choice) + a fixed schema with hand-written variants.

  { q { ... on O1 { w { ...A } } ... on O2 { w { ...B } } }  z: q { w { ...A ...B } } }
  fragment A on R { fr { a: l1 } }  fragment B on R { fr { ...F } }  fragment F on S { a: l2 }
"""
from gen.schema import desc_type, ty_base, ty_str


def _free(f):
    return not any(a["type"][0] == "nonNull" and a.get("default") is None for a in f.get("args") or [])


def _kind(desc, name):
    t = desc_type(desc, name)
    return t["kind"] if t else "scalar"


def exclusive_then_strict_documents(desc, limit=2):
    out = []
    root = desc_type(desc, desc["query"])
    for q in (root or {}).get("fields", []):
        if not _free(q):
            continue
        it = desc_type(desc, ty_base(q["type"]))
        if it is None or it["kind"] != "interface":
            continue
        impls = [o["name"] for o in desc["types"] if o["kind"] == "object" and it["name"] in o.get("interfaces", [])]
        if len(impls) < 2:
            continue
        for w in it.get("fields", []):
            rt = desc_type(desc, ty_base(w["type"]))
            if not _free(w) or rt is None or rt["kind"] not in ("object", "interface"):
                continue
            for fr in rt.get("fields", []):
                st = desc_type(desc, ty_base(fr["type"]))
                if not _free(fr) or st is None or st["kind"] not in ("object", "interface"):
                    continue
                leafs = [h for h in st.get("fields", []) if _free(h) and _kind(desc, ty_base(h["type"])) in ("scalar", "enum")]
                pair = next(((h1, h2) for i, h1 in enumerate(leafs) for h2 in leafs[i + 1:] if ty_str(h1["type"]) == ty_str(h2["type"])), None)
                if pair is None:
                    continue
                frags = ("fragment A on %s { %s { a: %s } } fragment B on %s { %s { ...F } } fragment F on %s { a: %s }"
                         % (rt["name"], fr["name"], pair[0]["name"], rt["name"], fr["name"], st["name"], pair[1]["name"]))
                excl = "%s { ... on %s { %s { ...A } } ... on %s { %s { ...B } } }" % (q["name"], impls[0], w["name"], impls[1], w["name"])
                strict = "z: %s { %s { ...A ...B } }" % (q["name"], w["name"])
                out.append(("exclusive-then-strict", "{ %s %s } %s" % (excl, strict, frags), {}))
                out.append(("strict-then-exclusive", "{ %s %s } %s" % (strict, excl, frags), {}))
                if len(out) >= limit:
                    return out
                break
            if out:
                break
    return out


FIXED_SDL = ("type Query { pet: Pet, other: Person, pets: [Pet!] }\n"
             "type Person { name: String, nick: String, friend: Person, tag(n: Int = 1): String }\n"
             "interface Pet { owner: Person }\n"
             "type Dog implements Pet { owner: Person, bark: Int }\n"
             "type Cat implements Pet { owner: Person }\n"
             "union Any = Dog | Cat\n")
_FR = " fragment A on Person { friend { a: name } } fragment B on Person { friend { ...F } } fragment F on Person { a: nick }"
_FRARGS = " fragment A on Person { friend { a: tag(n: 1) } } fragment B on Person { friend { ...F } } fragment F on Person { a: tag(n: 2) }"
_EXCL = "pet { ... on Dog { owner { ...A } } ... on Cat { owner { ...B } } }"
FIXED_DOCS = [
    ("exclusive-then-strict", "{ " + _EXCL + " other { ...A ...B } }" + _FR, {}),
    ("exclusive-then-strict-args", "{ " + _EXCL + " other { ...A ...B } }" + _FRARGS, {}),
    ("exclusive-then-strict-list", "{ pets { ... on Cat { owner { ...B } } ... on Dog { owner { ...A } } } other { ...B ...A } }" + _FR, {}),
    ("exclusive-then-strict-same-root", "{ " + _EXCL + " z: pet { owner { ...A ...B } } }" + _FR, {}),
    ("exclusive-then-strict-nested", "{ other { friend { x: friend { ...A } } } " + _EXCL + " other { friend { x: friend { ...B } } } }" + _FR, {}),
    # controls: the strict comparison first (must be rejected as well), the exclusive use alone (VALID)
    ("strict-then-exclusive", "{ other { ...A ...B } " + _EXCL + " }" + _FR, {}),
    ("exclusive-only", "{ " + _EXCL + " }" + _FR, {}),
]
FIXED_SEEDS = [0, 1, 2, 3, 4, 5, 6, 7]
# verdict the specification gives (None = not asserted)
EXPECT = {"exclusive-only": "accepted", "strict-then-exclusive": "rejected", "exclusive-then-strict": "rejected",
          "exclusive-then-strict-args": "rejected", "exclusive-then-strict-list": "rejected", "exclusive-then-strict-same-root": "rejected",
          "exclusive-then-strict-nested": "rejected"}

import subprocess, sys, shutil, re
P='/tmp/r-lang2b/src/py_gql/lang/parser.py'
orig=open(P).read()
M = [
 ("M1 selection set may be empty (many -> any_)", """            selections=self.many(CurlyOpen, self.parse_selection, CurlyClose),""", """            selections=self.any_(CurlyOpen, self.parse_selection, CurlyClose),"""),
 ("M2 const-ness dropped in parse_value_literal", """        elif kind is Dollar and not const:""", """        elif kind is Dollar:"""),
 ("M3 _loc uses start.end instead of _last.end", """else (lambda start: (start.start, self._last.end))""", """else (lambda start: (start.start, start.end))"""),
 ("M4 description look-ahead dropped in parse_type_system_definition", """            self.peek(2)
            if (next_.__class__ is String or next_.__class__ is BlockString)
            else next_""", """            next_"""),
 ("M5 fragment name `on` allowed", """        if token.value == "on":
            raise _unexpected_token(token, token.start, self._lexer._source)
        return self.parse_name()""", """        return self.parse_name()"""),
 ("M6 delimited_list: leading delimiter no longer skipped", """        items = []
        self.skip(delimiter)""", """        items = []"""),
 ("M7 directive location not checked against the table", """        if name.value in _DIRECTIVE_LOCATIONS:
            return name""", """        if True:
            return name"""),
 ("M8 object extension emptiness test: and -> or", """        if (not interfaces) and (not directives) and (not fields):""", """        if (not interfaces) or (not directives) and (not fields):"""),
 ("M9 ListType loc computed before the closing bracket (reordered)", """            inner_type = self.parse_type_reference()
            self.expect(BracketClose)
            type_ = _ast.ListType(
                type=inner_type, loc=self._loc(start), source=self._source
            )  # type: Union[_ast.ListType, _ast.NamedType]""", """            inner_type = self.parse_type_reference()
            type_ = _ast.ListType(
                type=inner_type, loc=self._loc(start), source=self._source
            )  # type: Union[_ast.ListType, _ast.NamedType]
            self.expect(BracketClose)"""),
 ("M10 `subscription` dropped from parse_operation_type", """        if token.value in ("query", "mutation", "subscription"):""", """        if token.value in ("query", "mutation"):"""),
 ("M11 alias and name swapped in parse_field", """            alias = name_or_alias  # type: Optional[_ast.Name]
            name = self.parse_name()  # type: _ast.Name""", """            name = name_or_alias  # type: _ast.Name
            alias = self.parse_name()  # type: Optional[_ast.Name]"""),
 ("M12 fragment variables parsed regardless of the flag", """                if self._experimental_fragment_variables
                else None""", """                if True
                else None"""),
]
sel = sys.argv[1:] 
for name, a, b in M:
    if sel and name.split()[0] not in sel: continue
    assert a in orig, name
    open(P,'w').write(orig.replace(a,b))
    out=[]
    for prop in ("C01","C02"):
        r=subprocess.run("cd /tmp/w-lang2 && PYGQL_REPO=/tmp/r-lang2b /venv/bin/python harness/check.py %s --tier quick 2>&1 | grep -v KNOWN | tail -3" % prop, shell=True, capture_output=True, text=True).stdout
        viol = len(re.findall(r"^VIOLATION", r, flags=re.M))
        last = r.strip().splitlines()[-1] if r.strip() else ""
        m = re.search(r"violations (\d+)", last)
        out.append("%s:%s" % (prop, m.group(1) if m else "?"))
    print(name, "->", " ".join(out), flush=True)
open(P,'w').write(orig)

"""Hand-made mutation trials for C04/C05 (scratch worktree /tmp/r-exec1 with the proposed fixes applied).
usage: exec1_mutate.py [M1 M2 ...]"""
import subprocess, sys, re, os, json
R = os.environ.get('EXEC1_R', '/tmp/r-exec1')
W = os.path.dirname(os.path.dirname(os.path.dirname(os.path.abspath(__file__))))
FIX = '/tmp/exec1-fix.patch'
CF = "src/py_gql/utilities/collect_fields.py"
EX = "src/py_gql/execution/executor.py"
BX = "src/py_gql/execution/blocking_executor.py"


def sh(c, **kw):
    return subprocess.run(c, shell=True, capture_output=True, text=True, **kw)


def reset():
    sh('git checkout -- .', cwd=R)


MUTS = [
 ("M1", "skip or -> and in _skip_selection", CF, "    return skipped or (not included)", "    return skipped and (not included)"),
 ("M2", "type condition: abstract branch dropped", CF, "    return (fragment_type == object_type) or (\n        isinstance(fragment_type, GraphQLAbstractType)\n        and schema.is_possible_type(fragment_type, object_type)\n    )", "    return fragment_type == object_type"),
 ("M3", "alias ignored when grouping", CF, "            key = selection.response_name\n\n            if key not in grouped_fields:\n                grouped_fields[key] = []\n\n            grouped_fields[key].append(selection)\n\n        elif isinstance(selection, ast.InlineFragment):\n            if _skip_selection(\n                selection, variables\n            ) or not _fragment_type_applies(schema", "            key = selection.name.value\n\n            if key not in grouped_fields:\n                grouped_fields[key] = []\n\n            grouped_fields[key].append(selection)\n\n        elif isinstance(selection, ast.InlineFragment):\n            if _skip_selection(\n                selection, variables\n            ) or not _fragment_type_applies(schema"),
 ("M4", "_merge replaces instead of extending", CF, "        into[key].extend(collected)", "        into[key] = list(collected)"),
 ("M5", "non-null violation not recorded", EX, "        if resolved_value is None:\n            # REVIEW", "        if False:\n            # REVIEW"),
 ("M6", "list index off by one in response path", BX, "            for index, entry in enumerate(resolved_value)", "            for index, entry in enumerate(resolved_value, 1)"),
 ("M7", "add_error always overrides nodes", "src/py_gql/execution/wrappers.py", "            if not err.nodes:\n                err.nodes = [node]", "            err.nodes = [node]"),
 ("M8", "possible-types cache keyed by class (history dependence)", "src/py_gql/schema/schema.py", "        if abstract_type in self._possible_types:\n            return self._possible_types[abstract_type]\n\n        if isinstance(abstract_type, UnionType):\n            self._possible_types[abstract_type] = abstract_type.types or []\n            return self._possible_types[abstract_type]\n        elif isinstance(abstract_type, InterfaceType):\n            self._possible_types[abstract_type] = self.implementations.get(\n                abstract_type.name, []\n            )\n            return self._possible_types[abstract_type]", "        key = type(abstract_type)\n        if key in self._possible_types:\n            return self._possible_types[key]\n\n        if isinstance(abstract_type, UnionType):\n            self._possible_types[key] = abstract_type.types or []\n            return self._possible_types[key]\n        elif isinstance(abstract_type, InterfaceType):\n            self._possible_types[key] = self.implementations.get(\n                abstract_type.name, []\n            )\n            return self._possible_types[key]"),
 ("M9", "sub-selections taken from the first node only (no merge)", EX, "                        for field in nodes\n                        if field.selection_set", "                        for field in nodes[:1]\n                        if field.selection_set"),
 ("M10", "possible-type check dropped in complete_value", EX, "                if not self.schema.is_possible_type(field_type, runtime_type):", "                if False:"),
 ("M11", "execute_fields in reversed key order", BX, "        for key, field_def, nodes in self._iterate_fields(parent_type, fields):\n            result[key]", "        for key, field_def, nodes in reversed(list(self._iterate_fields(parent_type, fields))):\n            result[key]"),
 ("M12", "resolver error swallowed without an error entry", BX, "            except ResolverError as err:\n                self.add_error(err, path, node)\n                return None", "            except ResolverError as err:\n                return None"),
 ("M15", "7b8e151 reverted: BlockingExecutor lets a ResolverError raised while COMPLETING a value escape", BX, "        except ResolverError as err:\n            # Same as `Executor.resolve_field`", "        except ZeroDivisionError as err:\n            # Same as `Executor.resolve_field`"),
 ("M16", "4e87d3d reverted: CoercionError of a directive condition not converted in ResolutionContext.collect_fields", "src/py_gql/execution/wrappers.py", "            except CoercionError as err:\n                # Invalid `@skip`", "            except ZeroDivisionError as err:\n                # Invalid `@skip`"),
 ("M17", "4e87d3d partly reverted: execute() does not catch the ResolverError of the ROOT selection set", "src/py_gql/execution/execute.py", "    except ResolverError as err:\n        # The root selection set itself", "    except ZeroDivisionError as err:\n        # The root selection set itself"),
 ("M18", "completion error caught but NOT recorded (field null without error)", BX, "            # iterables) is a field error.\n            self.add_error(err, path, node)\n            return None", "            # iterables) is a field error.\n            return None"),
 ("M19", "completion error recorded with the errors of the interrupted items rolled back", BX, "        try:\n            return self.complete_value(\n                field_definition.type, nodes, path, info, resolved\n            )\n        except ResolverError as err:", "        _n = len(self._errors)\n        try:\n            return self.complete_value(\n                field_definition.type, nodes, path, info, resolved\n            )\n        except ResolverError as err:\n            del self._errors[_n:]"),
 ("M13", "HARMLESS: _seen_fragments rebinding repaired", CF, "    _seen_fragments = _seen_fragments or set()\n    grouped_fields = OrderedDict()  # type: GroupedFields\n\n    for selection in selections:\n        if isinstance(selection, ast.Field):\n            if _skip_selection(selection, variables):\n                continue\n\n            key = selection.response_name\n\n            if key not in grouped_fields:\n                grouped_fields[key] = []\n\n            grouped_fields[key].append(selection)\n\n        elif isinstance(selection, ast.InlineFragment):\n            if _skip_selection(\n                selection, variables\n            ) or not _fragment_type_applies(schema", "    _seen_fragments = set() if _seen_fragments is None else _seen_fragments\n    grouped_fields = OrderedDict()  # type: GroupedFields\n\n    for selection in selections:\n        if isinstance(selection, ast.Field):\n            if _skip_selection(selection, variables):\n                continue\n\n            key = selection.response_name\n\n            if key not in grouped_fields:\n                grouped_fields[key] = []\n\n            grouped_fields[key].append(selection)\n\n        elif isinstance(selection, ast.InlineFragment):\n            if _skip_selection(\n                selection, variables\n            ) or not _fragment_type_applies(schema"),
 ("M14", "argument cache keyed by node only (stale arguments across implementing types)", "src/py_gql/execution/wrappers.py", "        cache_key = field_definition, node\n", "        cache_key = node\n"),
 ("S1", "seeded class: fragment marked visited BEFORE the spread's @skip/@include is evaluated", CF, "            if (\n                _skip_selection(selection, variables)\n                or name in _seen_fragments\n                or not _fragment_type_applies(schema, object_type, fragment)\n            ):\n                continue\n", "            if name in _seen_fragments:\n                continue\n            _seen_fragments.add(name)\n            if (\n                _skip_selection(selection, variables)\n                or not _fragment_type_applies(schema, object_type, fragment)\n            ):\n                continue\n"),
 ("S5", "seeded class: KnownFragmentNamesChecker keeps a CLASS-level set that only grows", "src/py_gql/validation/rules/__init__.py", "    def enter_document(self, node):\n        self._fragment_names = set(\n            [\n                definition.name.value\n                for definition in node.definitions\n                if type(definition) == _ast.FragmentDefinition\n            ]\n        )\n\n    def enter_fragment_spread(self, node):\n        name = node.name.value\n        if name not in self._fragment_names:", "    _fragment_names = set()  # type: ignore\n\n    def enter_document(self, node):\n        self._fragment_names.update(\n            [\n                definition.name.value\n                for definition in node.definitions\n                if type(definition) == _ast.FragmentDefinition\n            ]\n        )\n\n    def enter_fragment_spread(self, node):\n        name = node.name.value\n        if name not in self._fragment_names:"),
 ("S4", "seeded class: default_resolver falls through to getattr for a Mapping parent lacking the key", "src/py_gql/execution/default_resolver.py", "    if __isinstance(root, __mapping_cls):\n        return root.get(info.field_definition.python_name, None)\n", "    if __isinstance(root, __mapping_cls) and info.field_definition.python_name in root:\n        return root[info.field_definition.python_name]\n"),
 ("S6", "seeded class: merged sub-selections built IN PLACE on the first node's selection list", EX, "                self.collect_fields(\n                    runtime_type,\n                    [\n                        selection\n                        for field in nodes\n                        if field.selection_set\n                        for selection in field.selection_set.selections\n                    ],\n                ),", "                self.collect_fields(\n                    runtime_type,\n                    _merged_in_place(nodes),\n                ),"),
 ("S7", "seeded class: TypeInfoVisitor.leave_inline_fragment pops only for typed fragments", "src/py_gql/validation/visitors.py", "    def leave_inline_fragment(self, _node):\n        self._type_stack.pop()", "    def leave_inline_fragment(self, _node):\n        if _node.type_condition:\n            self._type_stack.pop()"),
 ("S8", "seeded class: resolve_type memoises __typename__ per Python CLASS of the value (non-dict values)", EX, "            maybe_type = (\n                value.get(\"__typename__\", None)\n                if isinstance(value, dict)\n                else getattr(value, \"__typename__\", None)\n            )", "            if isinstance(value, dict):\n                maybe_type = value.get(\"__typename__\", None)\n            else:\n                _c = self.__dict__.setdefault(\"_runtime_types\", {})\n                if type(value) not in _c:\n                    _c[type(value)] = getattr(value, \"__typename__\", None)\n                maybe_type = _c[type(value)]"),
 ("S9", "seeded class: _same_arguments drops explicit null literals before comparing", "src/py_gql/validation/rules/overlapping_fields_can_be_merged.py", "    if len(args_1) != len(args_2):\n        return False\n\n    s1 = sorted(args_1", "    args_1 = [a for a in args_1 if not isinstance(a.value, _ast.NullValue)]\n    args_2 = [a for a in args_2 if not isinstance(a.value, _ast.NullValue)]\n    if len(args_1) != len(args_2):\n        return False\n\n    s1 = sorted(args_1"),
 ("S10", "seeded class: fragment-pair memo looked up under the sorted key but stored under the unsorted one", "src/py_gql/validation/rules/overlapping_fields_can_be_merged.py", "    ctx.compared_fragment_pairs.add(cache_key)  # type: ignore", "    ctx.compared_fragment_pairs.add(((fragment_1, fragment_2), mutually_exclusive))  # type: ignore"),
 ("S11", "seeded class: grouped-fields cache keyed on id(selections); single-node keys hand over the document's own list, several nodes a TEMPORARY merged list (id reused after GC)", "src/py_gql/execution/wrappers.py", "        cache_key = parent_type.name, tuple(selections)\n", "        cache_key = parent_type.name, id(selections)\n"),
 ("S12", "seeded class: is_iterable by isinstance(collections.abc.Iterable) (sequence-protocol iterables rejected)", "src/py_gql/_utils.py", "    try:\n        iter(value)\n    except TypeError:\n        return False\n    else:\n        return strings or not isinstance(value, (str, bytes))", "    import collections.abc as _abc\n    if not isinstance(value, _abc.Iterable):\n        return False\n    return strings or not isinstance(value, (str, bytes))"),
 ("S12b", "variant: is_iterable iterates strings at list positions", "src/py_gql/_utils.py", "        return strings or not isinstance(value, (str, bytes))", "        return True"),
 ("S13", "seeded class: add_error keeps a path already set on the error object", "src/py_gql/execution/wrappers.py", "        err.path = path if path is not None else err.path\n", "        if path is not None and not err.path:\n            err.path = path\n"),
 ("S14", "seeded class: NoFragmentCycles prunes every fragment reached from an acyclic search root", "src/py_gql/validation/rules/__init__.py", "        flat_spreads = [(outer, _search(outer)) for outer in self._spreads]\n", "        flat_spreads = []\n        explored = set()\n        for outer in self._spreads:\n            if outer in explored:\n                continue\n            reach = _search(outer)\n            flat_spreads.append((outer, reach))\n            if outer not in reach:\n                explored.update(reach)\n"),
 ("S3", "seeded class: _find_conflict tests isinstance(parent_1, ObjectType) twice", "src/py_gql/validation/rules/overlapping_fields_can_be_merged.py", "        and isinstance(parent_1, ObjectType)\n        and isinstance(parent_2, ObjectType)", "        and isinstance(parent_1, ObjectType)\n        and isinstance(parent_1, ObjectType)"),
]

only = sys.argv[1:]
for mid, name, f, old, new in MUTS:
    if only and mid not in only:
        continue
    reset()
    p = os.path.join(R, f)
    s = open(p).read()
    if s.count(old) != 1:
        print(mid, name, "PATTERN COUNT", s.count(old), flush=True)
        continue
    txt = s.replace(old, new)
    if mid == "S6":
        txt += '''

def _merged_in_place(nodes):
    first = [n for n in nodes if n.selection_set]
    if not first:
        return []
    merged = first[0].selection_set.selections
    for field in first[1:]:
        merged += field.selection_set.selections
    return merged
'''
    open(p, 'w').write(txt)
    if mid == "S11":
        p2 = os.path.join(R, EX)
        s2 = open(p2).read()
        old2 = "                self.collect_fields(\n                    runtime_type,\n                    [\n                        selection\n                        for field in nodes\n                        if field.selection_set\n                        for selection in field.selection_set.selections\n                    ],\n                ),"
        new2 = "                self.collect_fields(\n                    runtime_type,\n                    nodes[0].selection_set.selections\n                    if len(nodes) == 1 and nodes[0].selection_set\n                    else [\n                        selection\n                        for field in nodes\n                        if field.selection_set\n                        for selection in field.selection_set.selections\n                    ],\n                ),"
        assert s2.count(old2) == 1, s2.count(old2)
        open(p2, 'w').write(s2.replace(old2, new2))
    out = []
    for prop in ("C04", "C05"):
        r = sh('PYGQL_REPO=%s VERIF_SEED=%s /venv/bin/python harness/check.py %s --tier quick' % (R, os.environ.get('VERIF_SEED', '0'), prop), cwd=W)
        viol = [l for l in r.stdout.splitlines() if l.startswith('VIOLATION')]
        nf = sum('no-failing-input-found' in l for l in viol)
        sigs = []
        for l in viol[:3]:
            m = re.search(r'replay=(\S+)', l)
            if m:
                try:
                    d = json.load(open(m.group(1)))
                    sigs.append(d.get("signature") or "no-failing-input:" + str([u.get("signature") or u.get("names") for u in d.get("no_longer_checks", [])][:2]))
                except Exception as e:  # noqa
                    sigs.append(str(e))
        out.append("%s exit=%d violations=%d (no-input=%d) %s" % (prop, r.returncode, len(viol), nf, sigs))
    print(mid, name, "=>", " | ".join(out), flush=True)
reset()

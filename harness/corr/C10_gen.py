# -*- coding: utf-8 -*-
"""
C10 — generators: request documents against a generated schema (valid, then
deliberately invalidated), variable payloads, operation names, random layout
(LF / CR / CRLF line ends, commas, non-ASCII comments) and resolver WORLDS
(deterministic outcome per response path: value / null / ResolverError).
"""
import zlib
import random

from gen import schema as gs

PART_OF_RUN = False  # helper module, not a check part

SEPARATORS = [" ", " ", " ", "\n", "\n", "\r\n", "\r", "\t", ",", "  ", "\n\n", " # cömment ✓ \U0001d4b3\n",
              " #é\r", "\r\n  ", "﻿"]


def layout(rng, toks, mode=None):
    """Join tokens with random ignored characters. mode: None = mixed, or one of 'lf','cr','crlf'."""
    if mode is None:
        seps = SEPARATORS
    else:
        nl = {"lf": "\n", "cr": "\r", "crlf": "\r\n"}[mode]
        seps = [" ", " ", nl, nl + "  ", " # ünï ✓" + nl, ","]
    out = []
    for i, t in enumerate(toks):
        out.append(t)
        if i + 1 < len(toks):
            if t == "..." or t == "$" or t == "@":
                out.append(rng.choice(["", " "]) if t == "..." else "")
            else:
                out.append(rng.choice(seps))
    return "".join(out)


# ---------------------------------------------------------------------------
# values

def json_for(rng, t, desc, depth=0):
    """A JSON (Python) value acceptable for input type t."""
    if t[0] == "nonNull":
        v = json_for(rng, t[1], desc, depth)
        return v if v is not None else json_for(random.Random(1), t[1], desc, 5)
    if rng.random() < 0.1 and depth < 5:
        return None
    if t[0] == "list":
        return [json_for(rng, t[1], desc, depth + 1) for _ in range(rng.randint(0, 2) if depth < 2 else 0)
                ] if True else []
    b = t[1]
    if b == "Int":
        return rng.choice([0, 1, -7, 42, 100000])
    if b == "Float":
        return rng.choice([0.5, 1.0, -2.25, 3])
    if b == "String":
        return rng.choice(["a", "", "x y", "hé ✓"])
    if b == "Boolean":
        return rng.choice([True, False])
    if b == "ID":
        return rng.choice(["id1", 7])
    td = gs.desc_type(desc, b)
    if td is None or td["kind"] == "scalar":
        return rng.choice([1, "s", {"k": [1, 2]}, [1]])
    if td["kind"] == "enum":
        return rng.choice(td["values"])["name"]
    if td["kind"] == "input":
        o = {}
        for f in td["fields"]:
            req = f["type"][0] == "nonNull" and f.get("default") is None
            if req or rng.random() < 0.5:
                v = json_for(rng, f["type"], desc, depth + 1)
                if v is None and f["type"][0] == "nonNull":
                    continue
                o[f["name"]] = v
        return o
    return None


def wrong_for(rng, t):
    """A JSON value that is (very likely) NOT acceptable for t."""
    b = gs.ty_base(t)
    if t[0] == "list" or (t[0] == "nonNull" and t[1][0] == "list"):
        return rng.choice([{"x": 1}, "str"]) if b in ("Int", "Float", "Boolean") else {"zz": 1}
    return {"Int": "abc", "Float": "abc", "Boolean": [1, 2], "String": [1], "ID": [1]}.get(b, 12345.5)


# ---------------------------------------------------------------------------
# documents

class DocGen:
    def __init__(self, rng, desc):
        self.rng = rng
        self.desc = desc
        self.vars = []       # [(name, type tuple, default literal or None)]
        self.frags = []      # token lists
        self.n_alias = 0

    def possible(self, tname):
        td = gs.desc_type(self.desc, tname)
        if td["kind"] == "object":
            return [tname]
        if td["kind"] == "union":
            return list(td["members"])
        return [t["name"] for t in self.desc["types"] if t["kind"] == "object" and tname in t.get("interfaces", [])]

    def arg_tokens(self, args):
        rng = self.rng
        toks = []
        for a in args:
            req = a["type"][0] == "nonNull" and a.get("default") is None
            if not (req or rng.random() < 0.5):
                continue
            if rng.random() < 0.35 and len(self.vars) < 4:
                name = "v%d" % len(self.vars)
                lit = gs.default_for(rng, a["type"], self.desc) if a["type"][0] == "nonNull" else None
                if lit is not None and lit != "null" and rng.random() < 0.6:
                    # NULLABLE variable with a default at a NON-NULL argument: validates; an explicit null in the
                    # payload only fails when the ARGUMENT is coerced, i.e. at execution time, once per parent object
                    self.vars.append((name, a["type"][1], lit))
                else:
                    self.vars.append((name, a["type"], None))
                val = ["$", name]
            else:
                lit = gs.default_for(rng, a["type"], self.desc)
                if lit is None or (lit == "null" and a["type"][0] == "nonNull"):
                    if req:
                        name = "v%d" % len(self.vars)
                        self.vars.append((name, a["type"], None))
                        val = ["$", name]
                    else:
                        continue
                else:
                    val = [lit]
            toks += [a["name"], ":"] + val
        return (["("] + toks + [")"]) if toks else []

    def directive_tokens(self):
        rng = self.rng
        if rng.random() < 0.12:
            return ["@", rng.choice(["skip", "include"]), "(", "if", ":", rng.choice(["true", "false"]), ")"]
        return []

    def selection(self, tname, depth):
        """tokens of a selection set for composite type tname (incl. braces)"""
        rng = self.rng
        td = gs.desc_type(self.desc, tname)
        toks = ["{"]
        items = 0
        if td["kind"] in ("object", "interface"):
            fields = list(td["fields"])
            rng.shuffle(fields)
            leafish = [f for f in fields if self.is_leaf(gs.ty_base(f["type"]))]
            pick = fields[:rng.randint(1, 3)] if depth > 0 else leafish[:2]
            used = set()
            for f in pick:
                key = f["name"]
                if key in used or rng.random() < 0.2:
                    self.n_alias += 1
                    key = "k%d" % self.n_alias
                    toks += [key, ":"]
                used.add(key)
                toks += [f["name"]] + self.arg_tokens(f.get("args") or []) + self.directive_tokens()
                if not self.is_leaf(gs.ty_base(f["type"])):
                    toks += self.selection(gs.ty_base(f["type"]), depth - 1)
                items += 1
        if td["kind"] in ("union", "interface") and depth > 0:
            for m in self.possible(tname):
                if rng.random() < 0.6:
                    sub = self.selection(m, depth - 1)
                    if rng.random() < 0.25:
                        fn = "F%d" % len(self.frags)
                        self.frags.append(["fragment", fn, "on", m] + sub)
                        toks += ["...", fn]
                    else:
                        toks += ["...", "on", m] + self.directive_tokens() + sub
                    items += 1
        if items == 0 or rng.random() < 0.2:
            toks += ["__typename"]
        return toks + ["}"]

    def is_leaf(self, base):
        td = gs.desc_type(self.desc, base)
        return td is None or td["kind"] in ("scalar", "enum")

    def operation(self, kind, name, depth):
        root = {"query": self.desc["query"], "mutation": self.desc.get("mutation")}[kind]
        self.vars = []
        sel = self.selection(root, depth)
        head = []
        if name or self.vars or kind != "query" or self.rng.random() < 0.3:
            head = [kind] + ([name] if name else [])
            if self.vars:
                head += ["("]
                for n, t, d in self.vars:
                    head += ["$", n, ":", gs.ty_str(t)] + (["=", d] if d is not None else [])
                head += [")"]
        return head + sel, list(self.vars)


INVALIDATIONS = ["unknown-field", "unused-fragment", "undefined-variable", "unknown-directive", "leaf-with-selection",
                 "dup-operation", "unknown-argument", "unused-variable"]


def invalidate(rng, toks, how):
    toks = list(toks)
    brace = toks.index("{")
    if how == "unknown-field":
        i = rng.choice([k for k, t in enumerate(toks) if t == "{"])
        toks[i + 1:i + 1] = ["zz9"]
    elif how == "unused-fragment":
        toks += ["fragment", "Unused", "on", "Query", "{", "__typename", "}"]
    elif how == "undefined-variable":
        toks[brace + 1:brace + 1] = ["__typename", "@", "skip", "(", "if", ":", "$", "nope", ")"]
    elif how == "unknown-directive":
        toks[brace + 1:brace + 1] = ["__typename", "@", "nope"]
    elif how == "leaf-with-selection":
        toks[brace + 1:brace + 1] = ["__typename", "{", "x", "}"]
    elif how == "dup-operation":
        toks = ["query", "Dup", "{", "__typename", "}", "query", "Dup", "{", "__typename", "}"] + toks
    elif how == "unknown-argument":
        toks[brace + 1:brace + 1] = ["__typename", "(", "zz", ":", "1", ")"]
    elif how == "unused-variable":
        if toks[0] in ("query", "mutation") and "(" not in toks[:brace]:
            toks[brace:brace] = ["(", "$", "unused", ":", "Int", ")"]
        else:
            toks = ["query", "U", "(", "$", "unused", ":", "Int", ")", "{", "__typename", "}"]
    return toks


def gen_request(rng, desc, depth=3):
    """-> dict(tokens, vars=[(name,type)], operation_name, variables, kinds=[...])"""
    g = DocGen(rng, desc)
    n_ops = rng.choice([1, 1, 1, 1, 2, 3])
    ops = []
    names = []
    for i in range(n_ops):
        kind = "mutation" if (desc.get("mutation") and rng.random() < 0.3) else "query"
        name = None if (n_ops == 1 and rng.random() < 0.6) else "Op%d" % i
        toks, vs = g.operation(kind, name, rng.randint(0, depth))
        ops.append((name, toks, vs))
        names.append(name)
    toks = [t for _, ts, _ in ops for t in ts] + [t for f in g.frags for t in f]
    r = rng.random()
    tags = []
    if n_ops == 1:
        opname = names[0] if r < 0.5 else (None if r < 0.85 else ("Nope" if r < 0.95 else ""))
    else:
        opname = rng.choice(names) if r < 0.7 else (None if r < 0.85 else "Nope")
    sel = [o for o in ops if o[0] == opname] if opname else ops[:1]
    vs = sel[0][2] if sel else []
    variables = {}
    for n, t, d in vs:
        r = rng.random()
        if d is not None:
            if r < 0.6:
                variables[n] = None
                tags.append("arg-coercion-null")
            elif r < 0.8:
                variables[n] = json_for(rng, t, desc)
            continue
        if r < 0.7:
            variables[n] = json_for(rng, t, desc)
        elif r < 0.8:
            tags.append("var-missing")
        elif r < 0.9:
            variables[n] = None
            tags.append("var-null")
        else:
            variables[n] = wrong_for(rng, t)
            tags.append("var-wrong")
    if rng.random() < 0.1:
        variables["extra"] = 1
    return {"tokens": toks, "operation_name": opname, "variables": variables, "tags": tags, "n_ops": n_ops}


# ---------------------------------------------------------------------------
# worlds

HOSTILE = ["%", "%s", "%d", "%(x)s", "100%", "50% off", "%%", "% ", "%5", "{}", "{0}", "{x}", "{", "\\", "a\\nb\\", '"', "'", "q\"uo'te",
           "line\nbreak", "cr\r\nlf", "nul\x00byte", "\U0001f600 astral", "lone \ud800 surrogate", "x" * 5000, "${x}", "%c", "\x7f", "\u2028"]
# messages that are not `str`: `raise ResolverError(err)` wrapping a caught exception is the standard Python idiom
MESSAGE_OBJECTS = [lambda: ValueError("invalid literal for int() with base 10: 'x' 100% {0}"), lambda: KeyError("missing"), lambda: 404,
                   lambda: None, lambda: b"bytes", lambda: ["a", 1], lambda: 1.5, lambda: Exception()]
MESSAGES = ["boom", "", "nö ✓", "line1\nline2", "x" * 40, "100% wrong %s %(x)s {0} {}", "back\\slash \"quoted\" \x00 \U0001f600"]
import collections
import collections.abc
import types


class MyMapping(collections.abc.Mapping):
    """an application's own read-only Mapping (the signature of ResolverError is Optional[Mapping[str, Any]])"""

    def __init__(self, d):
        self._d = d

    def __getitem__(self, k):
        return self._d[k]

    def __iter__(self):
        return iter(self._d)

    def __len__(self):
        return len(self._d)


# factories: every call gives a FRESH object, so nothing the library (or a server decorating a response) does to the
# object handed to the error can leak into the pristine value the oracle compares with
EXT_FACTORIES = [
    lambda: None, lambda: None, lambda: {}, lambda: {"code": "E1"},
    lambda: {"code": 42, "nested": {"a": [1, None, "z"]}}, lambda: {"f": 1.5},
    lambda: types.MappingProxyType({"code": "RO", "n": 1}),
    lambda: MyMapping({"code": "MINE", "list": [1, [2, {"k": None}]]}),
    lambda: collections.OrderedDict([("z", 1), ("a", {"deep": [True, 0.5, "s"]})]),
    lambda: types.MappingProxyType({}),
    lambda: {"tuple": (1, 2), "items": [{"a": 1}, {"b": [None]}]},
    lambda: {"%s": "100% %(x)s {0}", "q\"uote": "back\\slash\n\x00 \U0001f600"},
]


# extensions OUTSIDE the documented contract `Optional[Mapping[str, Any]]` of JSON values (only drawn by worlds with bad_ext=True)
import datetime
BAD_EXT_FACTORIES = [lambda: {"when": datetime.datetime(2020, 1, 1)}, lambda: {"set": {1, 2}}, lambda: {"exc": ValueError("x")}, lambda: {"b": b"bytes"},
                     lambda: {1: "int key", None: 2}, lambda: "oops", lambda: 42, lambda: ["a", "b"], lambda: [("k", 1)], lambda: {"nan": float("nan")}]


def render(err):
    """what an error-logging layer does with an error before letting it continue (a logger swallows its own failures)"""
    for f in (err.to_dict, lambda: str(err), lambda: repr(err)):
        try:
            f()
        except Exception:  # noqa
            pass


# module-level constant errors (NOT_FOUND = ResolverError(...)): created once per process, serialised right away
CONSTANTS = {}


def constant_error(msg, idx, mi=None):
    from py_gql.exc import ResolverError
    key = (msg, idx, mi)
    err = CONSTANTS.get(key)
    if err is None:
        ext = EXT_FACTORIES[idx]()
        m = msg if mi is None else MESSAGE_OBJECTS[mi]()
        err = CONSTANTS[key] = ResolverError(m) if ext is None else ResolverError(m, extensions=ext)
        render(err)
    return err


def logging_middleware(next_, root, ctx, info, **args):
    """logs (renders) every ResolverError and re-raises it; handles plain values, awaitables and futures"""
    import inspect
    from concurrent.futures import Future
    from py_gql.exc import ResolverError
    try:
        r = next_(root, ctx, info, **args)
    except ResolverError as e:
        render(e)
        raise
    if isinstance(r, Future):
        def cb(f):
            e = f.exception()
            if isinstance(e, ResolverError):
                render(e)
        r.add_done_callback(cb)
        return r
    if inspect.isawaitable(r):
        async def wrapped():
            try:
                return await r
            except ResolverError as e:
                render(e)
                raise
        return wrapped()
    return r


class LazyList:
    """a lazy iterable a resolver may return for a list field: yields `k` items, then raises ResolverError mid-iteration"""

    def __init__(self, items, k, fire):
        self.items, self.k, self.fire = items, k, fire

    def __iter__(self):
        for x in self.items[:self.k]:
            yield x
        self.fire("lazy iterable failed")


class RaiseOnSerialize:
    """a value of a custom scalar whose serialiser raises ResolverError"""

    def __init__(self, fire):
        self.fire = fire


class World:
    """Deterministic resolver outcomes: a function of (seed, response path)."""

    def __init__(self, seed, schema, p_raise=0.1, p_null=0.15, p_null_nn=0.08, nonfinite=False, odd_scalars=True, min_items=0,
                 p_complete=0.0, nonstr_messages=True, bad_ext=False, slow_deep_ms=0):
        self.seed = seed
        self.schema = schema
        self.p_raise, self.p_null, self.p_null_nn = p_raise, p_null, p_null_nn
        self.nonfinite = nonfinite
        self.odd = odd_scalars
        self.min_items = min_items
        self.p_complete = p_complete
        self.nonstr_messages = nonstr_messages
        self.injected_nonstr = False
        self.bad_ext = bad_ext
        self.slow_deep_ms = slow_deep_ms
        self.injected_bad_ext = False
        self.completion_raised = set()   # field paths whose value raised ResolverError while being COMPLETED
        self.calls = []          # [(path tuple, field type, outcome)]
        self.injected_nonfinite = False
        self.shared = {}         # shared ResolverError instances of this request

    def rng_for(self, path):
        return random.Random(zlib.crc32(repr((self.seed, tuple(path))).encode()))

    def value_of(self, t, rng, depth=0):
        from py_gql.schema import (ListType, NonNullType, ScalarType, EnumType, ObjectType, InterfaceType, UnionType)
        if isinstance(t, NonNullType):
            if rng.random() < self.p_null_nn:
                return None
            v = self.value_of(t.type, rng, depth)
            return v
        if rng.random() < self.p_null:
            return None
        if isinstance(t, ListType):
            return [self.value_of(t.type, rng, depth + 1) for _ in range(rng.randint(self.min_items, max(3, self.min_items + 2)) if depth < 2 else max(1, self.min_items))]
        if isinstance(t, EnumType):
            return rng.choice(list(t.values)).value
        if isinstance(t, ScalarType):
            n = t.name
            if n == "Int":
                return rng.choice([0, 1, -5, 123456, 7.0, "12"])
            if n == "Float":
                if self.nonfinite and rng.random() < 0.5:
                    self.injected_nonfinite = True
                    return rng.choice([float("nan"), float("inf"), float("-inf")])
                return rng.choice([0.5, -1.25, 3, 1e300, "2.5"])
            if n == "String":
                return rng.choice(["s", "", "hé ✓ \U0001d4b3", True, 12, "q\"uote\n"])
            if n == "Boolean":
                return rng.choice([True, False, 0, 1, "x"])
            if n == "ID":
                return rng.choice(["id", 7, ""])
            if self.nonfinite and rng.random() < 0.6:
                # non-finite floats at a custom-scalar position, bare and nested in lists / dicts
                self.injected_nonfinite = True
                nan, inf = float("nan"), float("inf")
                return rng.choice([nan, inf, -inf, [1, nan], {"k": [1, {"z": inf}]}, {"a": -inf, "b": 2.5}, [[nan]]])
            # custom scalar (identity serialiser): odd but JSON values, incl. None
            return rng.choice([1, "c", {"k": [1, {"z": None}]}, [1, [2]], None, 10 ** 20, "", {}, 0.25]) if self.odd else "c"
        if isinstance(t, ObjectType):
            return {"__typename__": t.name}
        if isinstance(t, (InterfaceType, UnionType)):
            poss = sorted(p.name for p in self.schema.get_possible_types(t))
            if not poss:
                return None
            return {"__typename__": rng.choice(poss)}
        raise TypeError(t)

    def outcome(self, path, ftype):
        from py_gql.exc import ResolverError
        rng = self.rng_for(path)
        if rng.random() < self.p_raise:
            mi = rng.randrange(len(MESSAGES) + (len(MESSAGE_OBJECTS) if self.nonstr_messages else 0))
            if mi < len(MESSAGES):
                msg, mi = MESSAGES[mi], None
            else:
                mi -= len(MESSAGES)
                msg = str(MESSAGE_OBJECTS[mi]())     # what the response must carry: the message AS A STRING
                self.injected_nonstr = True
            idx = rng.randrange(len(EXT_FACTORIES))
            # 0: fresh ResolverError, 1: fresh application subclass, 2: ONE shared instance per (message, extensions)
            # raised again and again within the request, 3: fresh, constructed with a bogus path, 4: a MODULE-LEVEL constant
            # (lives across requests and configurations) that was serialised when it was created, 5: fresh, rendered
            # (to_dict/str/repr) by the resolver itself before it is raised
            cls = rng.choice([0, 1, 2, 2, 3, 4, 4, 5, 6, 6, 6])
            if cls == 6:
                # an application subclass with its own shape: __slots__, class-level / property `extensions`, own constructor
                # signature, __copy__ override; o[6] = kind, message and extensions are what the class renders
                kind = APP_KINDS[rng.randrange(len(APP_KINDS))]
                code = "C%d" % idx
                m, ext = app_error_classes()[kind][2](MESSAGES[rng.randrange(len(MESSAGES))], code)
                return ("raised", m, ext, 6, idx, None, kind, code)
            return ("raised", msg, EXT_FACTORIES[idx](), cls, idx, mi)
        v = self.value_of(ftype, rng)
        if self.p_complete and rng.random() < self.p_complete:
            v = self.inject(v, ftype, tuple(path), rng)
        return ("value", v)

    def inject(self, v, t, path, rng):
        """make the completion of this field's value raise ResolverError: in `resolve_type` (abstract object), in the
        middle of the iteration (list), in the serialiser (custom scalar); at the value itself or at one list item"""
        from py_gql.exc import ResolverError
        from py_gql.schema import ListType, NonNullType, ScalarType, InterfaceType, UnionType, SPECIFIED_SCALAR_TYPES
        while isinstance(t, NonNullType):
            t = t.type
        ext = EXT_FACTORIES[rng.randrange(len(EXT_FACTORIES))]

        def fire(msg):
            self.completion_raised.add(path)
            e = ext()
            raise ResolverError(msg) if e is None else ResolverError(msg, extensions=e)
        if v is None:
            return v
        if isinstance(t, ListType) and isinstance(v, list):
            it = t.type
            while isinstance(it, NonNullType):
                it = it.type
            r = rng.random()
            if r < 0.5 or not v or isinstance(it, ListType):
                return LazyList(v, rng.randint(0, len(v)), fire)
            i = rng.randrange(len(v))
            v = list(v)
            v[i] = self.inject(v[i], it, path, rng)
            return v
        if isinstance(t, (InterfaceType, UnionType)) and isinstance(v, dict):
            return dict(v, __raise__=fire)
        if isinstance(t, ScalarType) and t not in SPECIFIED_SCALAR_TYPES:
            return RaiseOnSerialize(fire)
        return v

    def run(self, info, ftype):
        """called by the installed resolvers: record and realise the outcome for info.path"""
        from py_gql.exc import ResolverError

        path = tuple(info.path)
        if self.slow_deep_ms and len(path) >= 4:
            import time
            time.sleep(self.slow_deep_ms / 1000.0)      # a slow resolver deep in the tree (late-workers stress)
        o = self.outcome(path, ftype)
        self.calls.append((path, ftype, [n.loc[0] for n in info.nodes if n.loc], o))
        if o[0] == "raised":
            ext = EXT_FACTORIES[o[4]]()      # the object handed to the library; o[2] stays pristine
            if self.bad_ext and o[3] in (0, 1, 5):
                ext = BAD_EXT_FACTORIES[(o[4] + len(path)) % len(BAD_EXT_FACTORIES)]()
                self.injected_bad_ext = True
            m = o[1] if o[5] is None else MESSAGE_OBJECTS[o[5]]()
            if o[3] == 6:
                kind, code = o[6], o[7]
                msg_in = o[1]
                raise app_error_classes()[kind][1](msg_in, code)
            if o[3] == 2:
                key = (o[1], o[4], o[5])
                err = self.shared.get(key)
                if err is None:
                    err = self.shared[key] = ResolverError(m) if ext is None else ResolverError(m, extensions=ext)
                raise err
            if o[3] == 4:
                raise constant_error(o[1], o[4], o[5])
            if o[3] == 3:
                raise ResolverError(m, path=["bogus", 0], extensions=ext)
            cls = _MyError() if o[3] == 1 else ResolverError
            err = cls(m) if ext is None else cls(m, extensions=ext)
            if o[3] == 5:
                render(err)
            raise err
        return o[1]


# ---- application error classes (the documentation tells users to subclass ResolverError) -------------------------------

_APP = {}


def app_error_classes():
    """name -> (class, build(msg, code) -> instance, expected extensions for `code`)"""
    if _APP:
        return _APP
    from py_gql.exc import ResolverError, GraphQLLocatedError

    class SlotsError(ResolverError):
        """state in __slots__, rendered by its own to_dict"""
        __slots__ = ("code", "_SlotsError__hidden")

        def __init__(self, message, code):
            super().__init__(message)
            self.code = code
            self.__hidden = "h"

        def to_dict(self):
            d = super().to_dict()
            d["extensions"] = {"code": self.code, "hidden": self.__hidden}
            return d

    class ClassLevelExtensions(ResolverError):
        """`extensions` exposed as a class attribute (promised by the docstring of ResolverError)"""
        extensions = {"code": "CLASS_LEVEL"}

    class OwnSignature(ResolverError):
        """custom constructor signature, message fixed by the class"""

        def __init__(self, code, *, detail=None):
            super().__init__("own signature", extensions={"code": code, "detail": detail})
            self.code = code

    class PropertyExtensions(ResolverError):
        """`extensions` is a read-only property computed from other state"""

        def __init__(self, message, code):
            GraphQLLocatedError.__init__(self, message)
            self.code = code

        @property
        def extensions(self):
            return {"code": self.code, "via": "property"}

    class OwnCopy(ResolverError):
        """defines __copy__ / __deepcopy__ (whatever the library does to duplicate it, the response must be the same)"""

        def __init__(self, message, code):
            super().__init__(message, extensions={"code": code})
            self.code = code

        def __copy__(self):
            return OwnCopy(self.message, self.code)

        def __deepcopy__(self, memo):
            return OwnCopy(self.message, self.code)

    _APP.update({
        "slots": (SlotsError, lambda m, c: SlotsError(m, c), lambda m, c: (m, {"code": c, "hidden": "h"})),
        "class-level-extensions": (ClassLevelExtensions, lambda m, c: ClassLevelExtensions(m), lambda m, c: (m, {"code": "CLASS_LEVEL"})),
        "own-signature": (OwnSignature, lambda m, c: OwnSignature(c, detail=[c]), lambda m, c: ("own signature", {"code": c, "detail": [c]})),
        "property-extensions": (PropertyExtensions, lambda m, c: PropertyExtensions(m, c), lambda m, c: (m, {"code": c, "via": "property"})),
        "own-copy": (OwnCopy, lambda m, c: OwnCopy(m, c), lambda m, c: (m, {"code": c})),
    })
    return _APP


APP_KINDS = ["slots", "class-level-extensions", "own-signature", "property-extensions", "own-copy"]

_MY = []


def _MyError():
    """a subclass of the library's ResolverError, as applications define them"""
    if not _MY:
        from py_gql.exc import ResolverError

        class MyError(ResolverError):
            pass
        _MY.append(MyError)
    return _MY[0]
